import numpy as np, itertools, time, hashlib, types, functools
np.Inf = np.inf
import elfi, elfi.client, networkx as nx

def canon(o, seen=None, depth=0):
    if seen is None: seen = {}
    if o is None or isinstance(o, (bool, int, float, str, bytes, complex)): return ('v', repr(o))
    if isinstance(o, np.generic): return ('ng', str(o.dtype), o.tobytes())
    if isinstance(o, np.ndarray): return ('nd', str(o.dtype), o.shape, hashlib.md5(np.ascontiguousarray(o).tobytes() if o.dtype != object else repr(o.tolist()).encode()).hexdigest())
    if isinstance(o, np.random.RandomState):
        s = o.get_state(); return ('rs', hashlib.md5(s[1].tobytes()).hexdigest(), s[2], s[3], s[4])
    oid = id(o)
    if oid in seen: return ('ref', seen[oid])
    seen[oid] = len(seen)
    if isinstance(o, dict): return ('d', tuple(sorted(((canon(k, seen), canon(v, seen)) for k, v in o.items()), key=repr)))
    if isinstance(o, (list, tuple)): return ('l', tuple(canon(x, seen) for x in o))
    if isinstance(o, (set, frozenset)): return ('s', tuple(sorted((canon(x, seen) for x in o), key=repr)))
    if isinstance(o, functools.partial): return ('p', canon(o.func, seen), canon(o.args, seen), canon(o.keywords, seen))
    if isinstance(o, (types.FunctionType, types.BuiltinFunctionType, types.MethodType, type)): return ('f', getattr(o, '__module__', ''), getattr(o, '__qualname__', repr(o)))
    if isinstance(o, nx.Graph): return ('g', canon(dict(o.nodes(data=True)), seen), canon([(u, v, d) for u, v, d in o.edges(data=True)], seen), canon(dict(o.graph), seen))
    if hasattr(o, '__dict__'): return ('o', type(o).__qualname__, canon(vars(o), seen))
    return ('opaque', type(o).__qualname__, oid)

class Prune(Exception): pass
class SchedClient(elfi.client.ClientBase):
    def __init__(self, chooser, cores=2):
        self.ch = chooser; self.tasks = {}; self.done = {}; self._ids = itertools.count(); self.cores = cores; self.owner=None
        self.maxout = 0
    def _state(self, where):
        o = self.owner
        st = (where, sorted(self.tasks), sorted(self.done))
        if o is not None:
            st = st + (canon([o.state, o.objective, dict(o.batches._pending_batches), o.batches._next_batch_index, o.computation_context.caches]),)
        return hashlib.md5(repr(st).encode()).hexdigest()
    def _progress(self, where):
        while True:
            queued = sorted(self.tasks)
            opts = ['stop'] + queued
            c = self.ch.choose(len(opts), self._state(where) if self.ch.prune else None)
            if c == 0: return
            self._run(opts[c])
    def _run(self, tid):
        k, a, kw = self.tasks.pop(tid); self.done[tid] = k(*a, **kw)
    def apply(self, kallable, *args, **kwargs):
        self._progress('submit'); tid = next(self._ids); self.tasks[tid] = (kallable, args, kwargs)
        self.maxout = max(self.maxout, len(self.tasks)+len(self.done)); return tid
    def apply_sync(self, kallable, *args, **kwargs): return kallable(*args, **kwargs)
    def is_ready(self, tid):
        self._progress(('is_ready', tid)); return tid in self.done
    def get_result(self, tid):
        self._progress(('get', tid))
        if tid in self.tasks: self._run(tid)
        return self.done.pop(tid)
    def remove_task(self, tid): self.tasks.pop(tid, None); self.done.pop(tid, None)
    def reset(self): self.tasks.clear(); self.done.clear()
    @property
    def num_cores(self): return self.cores

VISITED = set()
class Chooser:
    def __init__(self, prefix, prune): self.prefix = prefix; self.trace = []; self.prune = prune
    def choose(self, n, state):
        i = len(self.trace)
        if i >= len(self.prefix) and state is not None and n > 1:
            if state in VISITED: raise Prune()
            VISITED.add(state)
        c = self.prefix[i] if i < len(self.prefix) else 0
        self.trace.append((n, c)); return c

def sim(t, batch_size=1, random_state=None): return t + random_state.randint(0, 3, size=batch_size)
m = elfi.ElfiModel(name='m')
t = elfi.Prior('uniform', 0, 4, model=m, name='t')
Y = elfi.Simulator(sim, t, model=m, name='Y', observed=np.array([2.0]))
S = elfi.Summary(lambda y: y, Y, model=m, name='S')
d = elfi.Distance('euclidean', S, model=m, name='d')

def run(prefix, mpb, kind, prune):
    ch = Chooser(prefix, prune); cl = SchedClient(ch, cores=mpb)
    elfi.client.set_client(cl)
    rej = elfi.Rejection(m, 'd', batch_size=2, seed=3, max_parallel_batches=mpb); cl.owner = rej
    try:
        if kind == 'nsim': r = rej.sample(3, n_sim=8, bar=False)
        else: r = rej.sample(2, threshold=0.8, bar=False)
    except Prune:
        return ch.trace, None, cl
    return ch.trace, (tuple(r.outputs['d']), tuple(r.outputs['t']), r.n_sim, r.threshold, len(cl.tasks), len(cl.done)), cl

for kind in ('nsim', 'thr'):
  for mpb in (2,3,4):
    VISITED.clear()
    t0 = time.time(); n = 0; pruned = 0; outcomes = set(); mo = 0
    stack = [[]]
    while stack:
        prefix = stack.pop()
        trace, obs, cl = run(prefix, mpb, kind, True); n += 1; mo = max(mo, cl.maxout)
        if obs is None: pruned += 1
        else: outcomes.add(obs)
        for i in range(len(prefix), len(trace)):
            nopt, c = trace[i]
            for alt in range(1, nopt): stack.append([x[1] for x in trace[:i]] + [alt])
    print(kind, 'mpb', mpb, 'executions', n, 'pruned', pruned, 'states', len(VISITED), 'outcomes', len(outcomes), 'maxout', mo, 'time', round(time.time()-t0,1))
