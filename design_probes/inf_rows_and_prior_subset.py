import numpy as np, scipy.stats as ss
np.Inf = np.inf
import elfi
from elfi.model.extensions import ModelPrior
# (1) inf discrepancies
def sim(t, batch_size=1, random_state=None):
    return random_state.randint(0, 3, size=batch_size).astype(float)
def disc(s, observed):
    d = np.abs(s - observed[0]); d = np.where(s == 0, np.inf, d); return d
m = elfi.ElfiModel(name='m')
t = elfi.Prior('uniform', 0, 4, model=m, name='t')
Y = elfi.Simulator(sim, t, model=m, name='Y', observed=np.array([2.0]))
S = elfi.Summary(lambda y: y, Y, model=m, name='S')
d = elfi.Discrepancy(disc, S, model=m, name='d')
bad = 0
for seed in range(40):
    pool = elfi.OutputPool(['t','Y','S','d'])
    r = elfi.Rejection(m, 'd', batch_size=2, seed=seed, pool=pool, output_names=['S']).sample(3, n_sim=4, bar=False)
    rows = set()
    for b in range(r.n_batches):
        bt = pool.get_batch(b)
        for i in range(2): rows.add((bt['t'][i], bt['d'][i], bt['S'][i]))
    got = list(zip(r.outputs['t'], r.outputs['d'], r.outputs['S']))
    if not all(g in rows for g in got):
        bad += 1
        if bad <= 2: print('seed', seed, 'returned rows not among simulated:', got, 'simulated', sorted(rows))
print('bad runs', bad, 'of 40')

# (5) ModelPrior subset
m2 = elfi.ElfiModel(name='m2')
a = elfi.Prior('norm', 0, 1, model=m2, name='a')
b = elfi.Prior('norm', 5, 2, model=m2, name='b')
p = ModelPrior(m2, ['a'])
print('subset pdf', p.pdf(0.3), 'expected', ss.norm.pdf(0.3, 0, 1))
p = ModelPrior(m2, ['b', 'a'])
print('perm pdf', p.pdf(np.array([4.0, 0.3])), 'expected', ss.norm.pdf(0.3)*ss.norm.pdf(4.0,5,2))
