import numpy as np, itertools, time, pickle, hashlib
np.Inf = np.inf
import elfi, elfi.client
from elfi.executor import Executor

class Abort(Exception): pass

class SchedClient(elfi.client.ClientBase):
    """Tasks: queued -> done. Decision points before every API call: which queued tasks complete."""
    def __init__(self, chooser, cores=2):
        self.ch = chooser; self.tasks = {}; self.done = {}; self._ids = itertools.count(); self.cores = cores
        self.log = []
    def _progress(self, where):
        # environment moves: complete any queued task (in chosen order), or stop
        while True:
            queued = sorted(self.tasks)
            opts = ['stop'] + queued
            c = self.ch.choose(len(opts), where)
            if c == 0: return
            self._run(opts[c])
    def _run(self, tid):
        k, a, kw = self.tasks.pop(tid)
        self.done[tid] = k(*a, **kw)
        self.log.append(('exec', tid))
    def apply(self, kallable, *args, **kwargs):
        self._progress('submit')
        tid = next(self._ids); self.tasks[tid] = (kallable, args, kwargs); self.log.append(('submit', tid)); return tid
    def apply_sync(self, kallable, *args, **kwargs): return kallable(*args, **kwargs)
    def is_ready(self, tid):
        self._progress('is_ready')
        r = tid in self.done; self.log.append(('is_ready', tid, r)); return r
    def get_result(self, tid):
        self._progress('get')
        if tid in self.tasks: self._run(tid)
        self.log.append(('get', tid)); return self.done.pop(tid)
    def remove_task(self, tid):
        self.log.append(('remove', tid)); self.tasks.pop(tid, None); self.done.pop(tid, None)
    def reset(self): self.tasks.clear(); self.done.clear()
    @property
    def num_cores(self): return self.cores

class Chooser:
    def __init__(self, prefix): self.prefix = prefix; self.trace = []  # (n, chosen)
    def choose(self, n, where):
        i = len(self.trace)
        c = self.prefix[i] if i < len(self.prefix) else 0
        assert c < n
        self.trace.append((n, c)); return c

def sim(t, batch_size=1, random_state=None):
    return t + random_state.randint(0, 3, size=batch_size)
def build():
    m = elfi.ElfiModel(name='m')
    t = elfi.Prior('uniform', 0, 4, model=m, name='t')
    Y = elfi.Simulator(sim, t, model=m, name='Y', observed=np.array([2.0]))
    S = elfi.Summary(lambda y: y, Y, model=m, name='S')
    d = elfi.Distance('euclidean', S, model=m, name='d')
    return m
m = build()

def run(prefix, mpb, kind):
    ch = Chooser(prefix); cl = SchedClient(ch, cores=mpb)
    elfi.client.set_client(cl)
    rej = elfi.Rejection(m, 'd', batch_size=2, seed=3, max_parallel_batches=mpb)
    if kind == 'nsim': r = rej.sample(3, n_sim=8, bar=False)
    else: r = rej.sample(2, threshold=0.8, bar=False)
    obs = (tuple(r.outputs['d']), tuple(r.outputs['t']), r.n_sim, r.threshold, len(cl.tasks), len(cl.done))
    return ch.trace, obs, cl.log

for kind in ('nsim', 'thr'):
  for mpb in (1,2,3):
    t0 = time.time(); n = 0; outcomes = set(); maxpend = 0
    stack = [[]]
    while stack:
        prefix = stack.pop()
        trace, obs, log = run(prefix, mpb, kind); n += 1; outcomes.add(obs)
        for i in range(len(prefix), len(trace)):
            nopt, c = trace[i]
            for alt in range(1, nopt):
                stack.append([x[1] for x in trace[:i]] + [alt])
        if n > 200000: print('cap'); break
    print(kind, 'mpb', mpb, 'executions', n, 'outcomes', len(outcomes), 'time', round(time.time()-t0,1))
