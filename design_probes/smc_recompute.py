import numpy as np, scipy.stats as ss
np.Inf = np.inf
import elfi
def sim(t1, t2, batch_size=1, random_state=None):
    return t1 + t2 + random_state.randn(batch_size)
m = elfi.ElfiModel(name='m')
t1 = elfi.Prior('uniform', 0, 4, model=m, name='t1')
t2 = elfi.Prior('norm', t1, 1, model=m, name='t2')
Y = elfi.Simulator(sim, t1, t2, model=m, name='Y', observed=np.array([3.0]))
S = elfi.Summary(lambda y: y, Y, model=m, name='S')
d = elfi.Distance('euclidean', S, model=m, name='d')
smc = elfi.SMC(m, 'd', batch_size=4, seed=5)
r = smc.sample(6, quantiles=[0.5, 0.5, 0.6], bar=False)
print('n_sim', r.n_sim, [p.n_sim for p in r.populations], 'thresholds', [p.threshold for p in r.populations])
for i, p in enumerate(r.populations):
    th = np.column_stack([p.outputs['t1'], p.outputs['t2']])
    prior = ss.uniform.pdf(th[:,0], 0, 4) * ss.norm.pdf(th[:,1], th[:,0], 1)
    if i == 0:
        print(i, 'w==1', np.all(p.weights == 1), 'prior>0', np.all(prior>0), 'd<=thr', np.all(p.discrepancies <= p.threshold))
    else:
        q = r.populations[i-1]
        thq = np.column_stack([q.outputs['t1'], q.outputs['t2']])
        wq = q.weights/np.sum(q.weights)
        V1 = wq.sum(); V2 = (wq**2).sum(); mu = (wq[:,None]*thq).sum(0)/V1
        var = (wq[:,None]*(thq-mu)**2).sum(0)/(V1 - V2/V1)
        cov = 2*np.diag(var)
        print(i, 'cov ok', np.allclose(cov, q.cov))
        gm = sum(w*ss.multivariate_normal.pdf(th, mean=mq, cov=cov) for w, mq in zip(wq, thq))
        print(i, 'w ok', np.allclose(p.weights, prior/gm), 'prior>0', np.all(prior>0), 'd<=thr', np.all(p.discrepancies <= p.threshold))
        # threshold in force: weighted quantile of prev discrepancies
        print(i, 'thr in force', smc.objective['thresholds'][i], 'max d', p.discrepancies.max())
# continued sampling
r2 = smc.sample(6, quantiles=[0.5], bar=False)
print('continued', len(r2.populations), r2.n_sim, [p.n_sim for p in r2.populations])
