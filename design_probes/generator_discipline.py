import numpy as np, itertools, elfi
from elfi.utils import get_sub_seed
class Rec:
    """fake distribution: returns the raw draws it took"""
    def __init__(self, k): self.k = k
    def rvs(self, *params, size=1, random_state=None):
        return random_state.randint(0, 2**31 - 1, size=size)
def sim(*a, batch_size=1, random_state=None): return random_state.randint(0, 2**31 - 1, size=batch_size)
def build(order):
    m = elfi.ElfiModel(name='m')
    mk = {'zb': lambda: elfi.Prior(Rec(1), model=m, name='zb'),
          'a':  lambda: elfi.Prior(Rec(1), m['zb'], model=m, name='a'),
          'q':  lambda: elfi.Prior(Rec(1), model=m, name='q'),
          'Y':  lambda: elfi.Simulator(sim, m['a'], m['q'], model=m, name='Y')}
    for n in order: mk[n]()
    return m
deps = {'zb': [], 'a': ['zb'], 'q': [], 'Y': ['a', 'q']}
orders = [o for o in itertools.permutations(deps) if all(o.index(p) < o.index(c) for c in deps for p in deps[c])]
res = {}
for o in orders:
    for hist in (None, 'seed', 'consume'):
        if hist == 'seed': np.random.seed(5)
        if hist == 'consume': np.random.rand(17)
        m = build(o)
        g = m.generate(2, ['zb','a','q','Y'], seed=11)
        res[(o, hist)] = tuple(tuple(g[k]) for k in ('zb','a','q','Y'))
print('orders', len(orders), 'distinct results', len(set(res.values())))
g = dict(zip(('zb','a','q','Y'), next(iter(res.values()))))
rs = np.random.RandomState(get_sub_seed(11, 0))
stream = rs.randint(0, 2**31 - 1, size=8)
for perm in itertools.permutations(('zb','a','q','Y')):
    if all(perm.index(p) < perm.index(c) for c in deps for p in deps[c]) and tuple(itertools.chain(*[g[n] for n in perm])) == tuple(stream): print('stream order', perm)
# unobserved zero-parent simulator twin
m = elfi.ElfiModel(name='z')
Y = elfi.Simulator(lambda batch_size=1, random_state=None: np.random.rand(batch_size), model=m, name='Y')
S = elfi.Summary(lambda y: y, Y, model=m, name='S')
d = elfi.Discrepancy(lambda s, observed: abs(s - observed[0]), S, model=m, name='d')
try: print('twin of unobserved sim:', m.generate(2, ['d'], seed=1), S.observed)
except Exception as e: print('rejected', type(e).__name__, str(e)[:80])
