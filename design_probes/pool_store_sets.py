import numpy as np
np.Inf = np.inf
import elfi
calls = {'sim':0,'S':0}
def sim(t, batch_size=1, random_state=None):
    calls['sim'] += 1
    return t + random_state.randint(0, 3, size=batch_size)
def summ(y):
    calls['S'] += 1
    return y
def build():
    m = elfi.ElfiModel(name='m')
    t = elfi.Prior('uniform', 0, 4, model=m, name='t')
    Y = elfi.Simulator(sim, t, model=m, name='Y', observed=np.array([2.0]))
    S = elfi.Summary(summ, Y, model=m, name='S')
    d = elfi.Distance('euclidean', S, model=m, name='d')
    return m
m = build()
ref = elfi.Rejection(m, 'd', batch_size=3, seed=7).sample(4, n_sim=12, bar=False)
for stores in (['Y'], ['t','Y'], ['S'], ['Y','S','d'], ['d'], ['t']):
    calls.update(sim=0,S=0)
    pool = elfi.OutputPool(stores)
    r1 = elfi.Rejection(m, 'd', batch_size=3, seed=7, pool=pool).sample(4, n_sim=12, bar=False)
    c1 = dict(calls); calls.update(sim=0,S=0)
    r2 = elfi.Rejection(m, 'd', batch_size=3, pool=pool).sample(4, n_sim=12, bar=False)
    c2 = dict(calls); calls.update(sim=0,S=0)
    r3 = elfi.Rejection(m, 'd', batch_size=3, pool=pool).sample(4, n_sim=18, bar=False)
    c3 = dict(calls)
    ok = all(np.array_equal(ref.outputs[k], r.outputs[k]) for r in (r1,r2) for k in ref.outputs)
    print(stores, 'equal', ok, c1, c2, c3, 'poollen', len(pool))
