import numpy as np, itertools, time, collections
import elfi, networkx as nx
from elfi.utils import observed_name

CALLS = collections.Counter()
class T(tuple):
    pass
def mk_op(name, kind, npos, named):
    """real-signature recorder"""
    def rec(args, kw):
        CALLS[(name, 'obs' if any(isinstance(a, T) and a and a[0] == 'OBS' for a in args) else 'val')] += 1
        kwc = tuple(sorted((k, ('RS' if k == 'random_state' else ('META' if k == 'meta' else v))) for k, v in kw.items()))
        return T((name, tuple(args), kwc))
    if kind == 'O' or kind == 'M':
        def op(*args, **kw):
            if len(args) != npos or set(kw) - set(named) - {'meta'}: raise TypeError('bad call %s %r %r' % (name, args, kw))
            return rec(args, kw)
    elif kind == 'S':
        def op(*args, batch_size, random_state, **kw):
            if len(args) != npos: raise TypeError('bad call')
            return rec(args, dict(kw, batch_size=batch_size, random_state=random_state))
    elif kind == 'D':
        def op(*args, observed, **kw):
            if len(args) != npos: raise TypeError('bad call')
            return rec(args, dict(kw, observed=observed))
    return op
class Dist:
    def __init__(self, name, npos): self.name = name; self.npos = npos
    def rvs(self, *params, size=1, random_state=None):
        if len(params) != self.npos: raise TypeError('bad')
        CALLS[(self.name, 'val')] += 1
        return T((self.name, tuple(params), (('batch_size', size[0]), ('random_state', 'RS'))))

KINDS = 'COPSMD'   # Constant, Operation, Prior, Simulator, suMmary, Discrepancy
def programs(nmax):
    names = ['n2', 'n0', 'n1'][:nmax]    # creation order != name order
    def rec(i, prog):
        if i == len(names): yield list(prog); return
        earlier = [p[0] for p in prog]
        for kind in KINDS:
            maxp = 0 if kind == 'C' else min(2, len(earlier))
            for k in range(maxp + 1):
                if kind in 'MD' and k == 0: continue
                for parents in itertools.permutations(earlier, k):
                    obsopts = [False, True] if kind in 'SM' else [False]
                    for obs in obsopts:
                        yield from rec(i + 1, prog + [(names[i], kind, parents, obs)])
    for n in range(1, nmax + 1):
        names_n = names[:n]
        yield from (p for p in rec(0, []) if len(p) == n) if False else ()
    yield from rec(0, [])

def build(prog):
    m = elfi.ElfiModel(name='m'); meta = {}
    for name, kind, parents, obs in prog:
        ps = [m[p] for p in parents]
        kw = dict(model=m, name=name)
        if kind == 'C': elfi.Constant(T(('const', name)), **kw)
        elif kind == 'O': elfi.Operation(mk_op(name, 'O', len(ps), ()), *ps, **kw)
        elif kind == 'P': elfi.Prior(Dist(name, len(ps)), *ps, **kw)
        elif kind == 'S': elfi.Simulator(mk_op(name, 'S', len(ps), ()), *ps, observed=(T(('OBS', name)) if obs else None), **kw)
        elif kind == 'M': elfi.Summary(mk_op(name, 'M', len(ps), ()), *ps, observed=(T(('OBS', name)) if obs else None), **kw)
        elif kind == 'D': elfi.Discrepancy(mk_op(name, 'D', len(ps), ()), *ps, **kw)
    return m

class Reject(Exception): pass
def reference(prog, outputs, bs):
    info = {n: (k, ps, obs) for n, k, ps, obs in prog}
    stoch = lambda n: info[n][0] in 'PS'
    observable = lambda n: info[n][0] in 'SM'
    def val(n):
        k, ps, obs = info[n]
        if k == 'C': return T(('const', n))
        args = tuple(val(p) for p in ps); kw = []
        if k in 'PS': kw += [('batch_size', bs), ('random_state', 'RS')]
        if k == 'D': kw += [('observed', tuple(twin(p) for p in ps))]
        return T((n, args, tuple(sorted(kw))))
    def twin(n):
        k, ps, obs = info[n]
        if not observable(n):
            if stoch(n): raise Reject(n)
            # non observable deterministic: its own value, but must not depend on stochastic
            for a in ancestors(n) | {n}:
                if stoch(a): raise Reject(a)
            return val(n)
        if obs: return T(('OBS', n))
        if stoch(n): raise Reject(n)
        return T((n, tuple(twin(p) for p in ps), ()))
    def ancestors(n):
        out = set()
        for p in info[n][1]: out |= {p} | ancestors(p)
        return out
    res = {}
    for o in outputs:
        if o.startswith('_') and o.endswith('_observed'):
            base = o[1:-9]
            if info[base][0] == 'D': res[o] = tuple(twin(p) for p in info[base][1])
            else: res[o] = twin(base)
        else: res[o] = val(o)
    return res

def norm(x):
    if isinstance(x, T) or isinstance(x, tuple): return tuple(norm(y) for y in x)
    if isinstance(x, np.random.RandomState): return 'RS'
    if isinstance(x, dict): return 'META'
    return x

t0 = time.time(); n = 0; classes = collections.Counter(); examples = {}
seenprog = 0
for prog in programs(3):
    seenprog += 1
    names = [p[0] for p in prog]
    outs_all = names + [observed_name(p[0]) for p in prog if p[1] in 'SMD']
    for r in (1,):
        for outs in itertools.combinations(outs_all, r):
            n += 1
            try: exp = ('val', {k: norm(v) for k, v in reference(prog, outs, 2).items()})
            except Reject as e: exp = ('reject', str(e))
            try:
                m = build(prog); got = ('val', {k: norm(v) for k, v in m.generate(2, list(outs), seed=1).items() if k in outs})
            except Exception as e: got = ('reject', type(e).__name__ + ':' + str(e)[:60])
            if exp[0] != got[0] or (exp[0] == 'val' and exp[1] != got[1]):
                kinds = ''.join(p[1] for p in prog)
                key = (exp[0], got[0], got[1].split(':')[0] if got[0] == 'reject' else 'mismatch')
                classes[key] += 1; examples.setdefault(key, (prog, outs, exp, got))
print('programs', seenprog, 'cases', n, round(time.time() - t0, 1), 's')
for k, v in classes.most_common(): print(v, k, '\n    ', examples[k])
