import numpy as np
np.Inf = np.inf
import elfi
def sim(t, batch_size=1, random_state=None):
    return np.column_stack([t + random_state.randn(batch_size), 10*random_state.randn(batch_size)])
m = elfi.ElfiModel(name='m')
t = elfi.Prior('uniform', 0, 4, model=m, name='t')
Y = elfi.Simulator(sim, t, model=m, name='Y', observed=np.array([[2.0, 0.0]]))
S1 = elfi.Summary(lambda y: y[:,0], Y, model=m, name='S1')
S2 = elfi.Summary(lambda y: y[:,1], Y, model=m, name='S2')
d = elfi.AdaptiveDistance(S1, S2, model=m, name='d')
r = elfi.Rejection(m, 'd', batch_size=4, seed=1).sample(5, n_sim=12, bar=False)
print('d', r.outputs['d'])
w = m['d'].state['w'][-1]
dd = np.sqrt(((r.outputs['S1']-2.0)*w[0])**2 + ((r.outputs['S2']-0.0)*w[1])**2)
print('recomputed from rows', dd)
print('sorted?', np.all(np.diff(r.outputs['d'])>=0), 'row-consistent?', np.allclose(dd, r.outputs['d']))
bad_sorted = bad_rows = 0
for seed in range(30):
    m['d'].init_state()
    r = elfi.Rejection(m, 'd', batch_size=4, seed=seed).sample(5, n_sim=12, bar=False)
    w = m['d'].state['w'][-1]
    dd = np.sqrt(((r.outputs['S1']-2.0)*w[0])**2 + ((r.outputs['S2']-0.0)*w[1])**2)
    bad_sorted += not np.all(np.diff(r.outputs['d'])>=0)
    bad_rows += not np.allclose(dd, r.outputs['d'])
print('unsorted runs', bad_sorted, 'row-inconsistent runs', bad_rows)
