import numpy as np, warnings, logging
warnings.filterwarnings('ignore')
from elfi.methods.bo.gpy_regression import GPyRegression
from elfi.methods.posteriors import BolfiPosterior
import scipy.stats as ss
def patched_cache(self):
    self._rbf_var = float(self._gp.kern.rbf.variance[0])
    self._rbf_factor = -0.5 / float(self._gp.kern.rbf.lengthscale[0])**2
    self._rbf_bias = float(self._gp.kern.bias.K(self._gp.X)[0, 0])
    self._rbf_noisevar = float(self._gp.likelihood.variance[0])
    self._rbf_woodbury = self._gp.posterior.woodbury_vector
    self._rbf_woodbury_inv = self._gp.posterior.woodbury_inv
    self._rbf_woodbury_chol = self._gp.posterior.woodbury_chol
    self._rbf_x2sum = np.sum(self._gp.X**2., 1)[None, :]
    self._rbf_is_cached = True
GPyRegression._cache_RBF_kernel = patched_cache
for dim in (1, 2):
    names = ['a','b'][:dim]; bounds = {'a': (0, 4), 'b': (-1, 1)}
    gp = GPyRegression(names, bounds={k: bounds[k] for k in names})
    rs = np.random.RandomState(0)
    X = np.column_stack([rs.uniform(*bounds[k], 6) for k in names]); Y = ((X - 1)**2).sum(1) + 0.5
    gp.update(X[:3], Y[:3]); gp.update(X[3:], Y[3:], optimize=True)
    print('X prefix ok', np.array_equal(gp.X, X), np.array_equal(gp.Y.ravel(), Y))
    for q in [X[0], np.array([bounds[k][0] for k in names], float), np.array([1.3, 0.2][:dim])]:
        gp.is_sampling = False
        m0, v0 = gp.predict(q); g0 = gp.predictive_gradients(q)
        gp.is_sampling = True
        m1, v1 = gp.predict(q); g1 = gp.predictive_gradients(q)
        print(dim, q, 'mean', np.allclose(m0, m1, rtol=1e-8), 'var', np.allclose(v0, v1, rtol=1e-8), 'gm', np.allclose(g0[0], g1[0], rtol=1e-6), 'gv', np.allclose(g0[1], g1[1], rtol=1e-6), np.shape(m1), np.shape(v1), np.shape(g1[0]), np.shape(g1[1]))
    gp.is_sampling = False
    post = BolfiPosterior(gp, threshold=1.0, prior=None)
    # posterior needs prior: use a stub uniform prior
    class P:
        def logpdf(self, x): return np.zeros(len(np.atleast_2d(x).reshape(-1, dim)))
        def gradient_logpdf(self, x): return np.zeros_like(np.atleast_2d(x).reshape(-1, dim))
    post.prior = P()
    q = np.array([1.3, 0.2][:dim])
    m, v = gp.predict(q)
    print('logpdf', post.logpdf(q), ss.norm.logcdf((1.0 - m)/np.sqrt(v)).ravel(), 'outside', post.logpdf(q + 100))
    h = 1e-6; num = np.array([(post.logpdf(q + h*e) - post.logpdf(q - h*e)) / (2*h) for e in np.eye(dim)]).ravel()
    print('grad', post.gradient_logpdf(q).ravel(), num)
print('--- detail dim1')
names=['a']; gp = GPyRegression(names, bounds={'a': (0,4)})
rs = np.random.RandomState(0); X = rs.uniform(0,4,6)[:,None]; Y = ((X-1)**2).sum(1)+0.5
gp.update(X[:3], Y[:3]); gp.update(X[3:], Y[3:], optimize=True)
print(gp._gp)
for q in [X[0], np.array([1.3]), np.array([3.9])]:
    gp.is_sampling=False; m0,v0=gp.predict(q); g0=gp.predictive_gradients(q)
    gp.is_sampling=True; m1,v1=gp.predict(q); g1=gp.predictive_gradients(q)
    print(q, m0.ravel(), m1.ravel(), v0.ravel(), v1.ravel(), g0[1].ravel(), g1[1].ravel())
