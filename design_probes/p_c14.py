import numpy as np, itertools, copy, pickle, networkx as nx
import elfi, ops14
def seed_model():
    m = elfi.ElfiModel(name='m')
    a = elfi.Prior('uniform', 0, 4, model=m, name='a')
    b = elfi.Prior('uniform', a, 2, model=m, name='b')
    Y = elfi.Simulator(ops14.sim, a, b, model=m, name='Y', observed=np.array([2.0]))
    S = elfi.Summary(ops14.summ, Y, model=m, name='S')
    return m
def snapshot(m):
    g = m.source_net
    return (tuple(sorted(g.nodes)), tuple(sorted((u, v, d['param']) for u, v, d in g.edges(data=True))),
            tuple(sorted((k, np.asarray(v).tobytes()) for k, v in m.observed.items())), tuple(m.parameter_names),
            tuple(sorted((n, type(m[n]).__name__) for n in g.nodes)))
def invariants(m):
    g = m.source_net; msgs = []
    if not nx.is_directed_acyclic_graph(g): msgs.append('cycle')
    for k in m.observed:
        if k not in g: msgs.append('observed key %s not a node' % k)
    for n in g.nodes:
        if n.startswith('_') and g.degree(n) == 0: msgs.append('orphan private %s' % n)
    return msgs
ops = []
names = ['a','b','Y','S']
for x in names: ops.append(('remove', x))
for x, y in itertools.permutations(names, 2): ops.append(('become', x, y))
ops += [('add_prior', 'c'), ('add_summary', 'T', 'Y'), ('become_new_prior', 'a'), ('become_new_sim', 'Y')]
def apply(m, op):
    if op[0] == 'remove': m.remove_node(op[1])
    elif op[0] == 'become':
        if op[2] in nx.descendants(m.source_net, op[1]): raise KeyError('skip-desc')
        m[op[1]].become(m[op[2]])
    elif op[0] == 'add_prior': elfi.Prior('norm', 0, 1, model=m, name=op[1])
    elif op[0] == 'add_summary': elfi.Summary(ops14.f1, m[op[2]], model=m, name=op[1])
    elif op[0] == 'become_new_prior': m[op[1]].become(elfi.Prior('norm', 5, 1, model=m, name='tmpP'))
    elif op[0] == 'become_new_sim': m[op[1]].become(elfi.Simulator(ops14.sim, m['a'], model=m, name='tmpS', observed=np.array([7.0])))
n = 0; viol = {}
for depth in (1, 2):
    for seq in itertools.product(ops, repeat=depth):
        m = seed_model(); ok = True
        for op in seq:
            try: apply(m, op)
            except (KeyError, nx.NetworkXError) as e: ok = False; break   # op not enabled (node gone)
            except Exception as e: viol.setdefault('exc %s %s' % (type(e).__name__, str(e)[:40]), seq); ok = False; break
        if not ok: continue
        n += 1
        for msg in invariants(m): viol.setdefault(msg.split()[0] + ' ' + msg.split()[1], seq)
        # copy independence
        before = snapshot(m); k = m.copy(); 
        try:
            k.parameter_names = []; 
            if k.observed: k.observed[next(iter(k.observed))] = np.array([99.])
        except Exception as e: pass
        if snapshot(m) != before: viol.setdefault('copy leaks', seq)
        # pickle roundtrip same generate
        try:
            m2 = pickle.loads(pickle.dumps(m))
            outs = [x for x in m.source_net.nodes if not x.startswith('_')]
            g1 = m.generate(2, outs, seed=3); g2 = m2.generate(2, outs, seed=3)
            if any(not np.array_equal(np.asarray(g1[o], dtype=object), np.asarray(g2[o], dtype=object)) for o in outs): viol.setdefault('pickle differs', seq)
        except Exception as e: viol.setdefault('gen exc %s %s' % (type(e).__name__, str(e)[:60]), seq)
print('histories', n)
for k, v in viol.items(): print(k, '<-', v)
