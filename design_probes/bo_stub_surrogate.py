import numpy as np, time, warnings, logging
warnings.filterwarnings('ignore'); logging.disable(logging.WARNING)
np.Inf = np.inf
import elfi
from elfi.methods.bo.acquisition import UniformAcquisition, LCBSC
class StubGP:
    def __init__(self, names, bounds):
        self.parameter_names = names; self.bounds = [bounds[n] for n in names]; self.input_dim = len(names)
        self._X = np.zeros((0, self.input_dim)); self._Y = np.zeros((0, 1)); self.log = []
    def update(self, x, y, optimize=False):
        x = np.asarray(x).reshape(-1, self.input_dim); y = np.asarray(y).reshape(-1, 1)
        self._X = np.r_[self._X, x]; self._Y = np.r_[self._Y, y]; self.log.append(('update', len(x), bool(optimize)))
    def predict(self, x, noiseless=False):
        x = np.asarray(x).reshape(-1, self.input_dim); return ((x - 1.0)**2).sum(1)[:, None], np.ones((len(x), 1))
    def predict_mean(self, x): return self.predict(x)[0]
    def predictive_gradients(self, x):
        x = np.asarray(x).reshape(-1, self.input_dim); return 2*(x - 1.0), np.zeros_like(x)
    def predictive_gradient_mean(self, x): return self.predictive_gradients(x)[0]
    @property
    def n_evidence(self): return len(self._X)
    @property
    def X(self): return self._X
    @property
    def Y(self): return self._Y
seen = []
def sim(t, batch_size=1, random_state=None):
    seen.append(np.array(t)); return t + 0.1*random_state.randn(batch_size)
m = elfi.ElfiModel(name='m')
t = elfi.Prior('uniform', 0, 4, model=m, name='t')
Y = elfi.Simulator(sim, t, model=m, name='Y', observed=np.array([2.0]))
d = elfi.Distance('euclidean', Y, model=m, name='d')
t0 = time.time()
for acq_cls in (UniformAcquisition, LCBSC):
    gp = StubGP(['t'], {'t': (1, 3)})
    acq = acq_cls(gp, noise_var=0.2, seed=3) if acq_cls is LCBSC else acq_cls(gp, seed=3)
    bo = elfi.BayesianOptimization(m, 'd', target_model=gp, acquisition_method=acq, initial_evidence=2, update_interval=2, batch_size=1, batches_per_acquisition=2, max_parallel_batches=2, seed=1)
    bo.set_objective(8)
    while not bo.finished: bo.iterate()
    bo.batches.cancel_pending()
    print(acq_cls.__name__, gp.n_evidence, bo.state['n_evidence'], gp.X.ravel().round(3), gp.log[:4])
print('time', round(time.time() - t0, 2))
