import os, numpy as np, sys
from elfi.store import NpyArray, NpyStore
fn = '/tmp/scratch/crash_a.npy'
if os.path.exists(fn): os.remove(fn)
pid = os.fork()
if pid == 0:
    s = NpyStore(fn, batch_size=2)
    s[0] = np.array([1., 2.]); s[1] = np.array([3., 4.]); s[2] = np.array([5.,6.])
    s.flush()
    del s[2]
    # kill before flush
    os._exit(0)
os.waitpid(pid, 0)
print('size', os.path.getsize(fn))
try:
    print('np.load ->', np.load(fn))
except Exception as e:
    print('np.load FAILED', type(e).__name__, e)
s = NpyStore(fn, batch_size=2)
print('reopen len', len(s), [s[i] for i in range(len(s))])
