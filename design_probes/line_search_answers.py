import numpy as np, time
from elfi.methods.inference.romc import line_search
EPS = 1.0
def run(prefix, K, eta, rep_lim):
    trace = []; memo = {}; probes = []
    def f(th):
        off = float(th[0])   # vd = [1.]: position == offset
        if off not in memo:
            i = len(trace); c = prefix[i] if i < len(prefix) else 0
            trace.append(c); memo[off] = c
        probes.append((off, memo[off]))
        return 0.0 if memo[off] == 0 else 2.0     # 0 = below eps, 1 = above
    r = line_search(f, np.array([0.0]), np.array([1.0]), EPS, K=K, eta=eta, rep_lim=rep_lim)
    return trace, r, probes, memo
t0 = time.time(); n = 0; bad = []
for K in (1, 2, 3):
  for eta in (1.0, 0.5):
    for rep_lim in (0, 1, 2, 3):
      stack = [[]]
      while stack:
        p = stack.pop(); trace, r, probes, memo = run(p, K, eta, rep_lim); n += 1
        for i in range(len(p), len(trace)): stack.append(trace[:i] + [1])
        ok = r > 0
        if memo.get(0.0) == 0:
            ok = ok and all(a == 0 for off, a in probes if 0 <= off <= r + 1e-12)
            ok = ok and (any(abs(off - r) < 1e-12 and a == 0 for off, a in probes) or r <= eta / 2**(K-1) + 1e-12)
        if not ok: bad.append((K, eta, rep_lim, trace, r, probes))
print('executions', n, 'bad', len(bad), round(time.time() - t0, 2), 's')
for b in bad[:3]: print(b)
