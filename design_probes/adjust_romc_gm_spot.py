import numpy as np, warnings, itertools, scipy.stats as ss
warnings.filterwarnings('ignore')
np.Inf = np.inf
import elfi
from elfi.methods.results import Sample
from elfi.methods.post_processing import adjust_posterior
from elfi.methods.model_selection import compare_models
from elfi.methods.utils import GMDistribution, weighted_var
from elfi.methods.inference.romc import NDimBoundingBox, line_search
# C17
m = elfi.ElfiModel(name='m')
a = elfi.Constant(np.zeros((1,2)), model=m, name='a')
S1 = elfi.Summary(lambda x: x[:,0], a, model=m, name='S1', observed=np.array([1.0]))
S2 = elfi.Summary(lambda x: x[:,1], a, model=m, name='S2', observed=np.array([2.0]))
s1 = np.array([1., 2., 4., 3., 1., 7.]); s2 = np.array([2., 0., 1., 5., 2., np.nan]); th = np.array([0.5, 1., 3., 2., np.inf, 1.])
smp = Sample('rej', {'t': th, 'S1': s1, 'S2': s2, 'd': np.zeros(6)}, ['t'], discrepancy_name='d')
adj = adjust_posterior(smp, m, ['S1','S2'], ['t'])
X = np.column_stack([s1-1.0, s2-2.0]); fin = np.isfinite(X).all(1) & np.isfinite(th)
A = np.column_stack([np.ones(fin.sum()), X[fin]]); beta = np.linalg.lstsq(A, th[fin], rcond=None)[0]
print('adjust', adj.outputs['t'], th[fin] - X[fin] @ beta[1:], np.allclose(adj.outputs['t'], th[fin] - X[fin] @ beta[1:]))
# compare_models
sa = Sample('a', {'t': np.zeros(3), 'd': np.array([.1,.5,.9])}, ['t'], discrepancy_name='d', n_sim=10)
sb = Sample('b', {'t': np.zeros(4), 'd': np.array([.2,.3,.4,.95])}, ['t'], discrepancy_name='d', n_sim=20)
print('compare', compare_models([sa, sb]), compare_models([sb, sa]), compare_models([sa, sb], model_priors=[.25,.75]))
# C19
R = np.array([[np.cos(.4), -np.sin(.4)],[np.sin(.4), np.cos(.4)]])
bb = NDimBoundingBox(R, np.array([1., 2.]), np.array([[-1., 2.],[-.5, .5]]))
pts = bb.sample(50, seed=3); print('bb contains all', all(bb.contains(p) for p in pts), 'pdf', bb.pdf(pts[0]), 1/(3*1.), bb.pdf(np.array([9., 9.])))
print('diag-degenerate samples (same seed per dim):', np.allclose(np.linalg.matrix_rank(np.linalg.inv(R) @ (pts - bb.center).T - np.array([[-1.],[-.5]])), 1))
probes = []
def f(th): probes.append(th[0]); return abs(th[0])
print('line_search', line_search(f, np.array([0.]), np.array([1.]), 2.3, K=3, eta=1., rep_lim=5), probes)
# C13 GM
means = np.array([[0., 0.],[1., 2.],[3., 1.]]); w = np.array([1., 0., 3.]); cov = np.array([[1., .3],[.3, 2.]])
x = np.array([[.5, .5],[2., 2.]])
refp = sum(wi/w.sum()*ss.multivariate_normal.pdf(x, mi, cov) for wi, mi in zip(w, means))
print('gm pdf', GMDistribution.pdf(x, means, cov, w), refp, GMDistribution.pdf(x[0], means, cov, w))
print('gm 1d', GMDistribution.pdf(0.3, [0., 1.], 2.0, [1, 1]), 0.5*ss.norm.pdf(0.3, 0, np.sqrt(2)) + 0.5*ss.norm.pdf(0.3, 1, np.sqrt(2)))
xx = np.array([[1., 2.],[2., 0.],[4., 4.]]); ww = np.array([1., 2., 0.])
print('wvar', weighted_var(xx, ww), np.diag(np.cov(xx, rowvar=False, aweights=ww, ddof=1)))
calls = []
def plog(x):
    calls.append(len(x)); return np.where(x[:, 0] > 0, 0., -np.inf)
out = GMDistribution.rvs(means, cov, w, size=5, prior_logpdf=plog, random_state=np.random.RandomState(1))
print('rvs', out.shape, (out[:,0] > 0).all(), calls)
print('rvs 1d', GMDistribution.rvs(np.array([[0.],[1.]]), 1.0, None, size=3, random_state=np.random.RandomState(1)).shape, GMDistribution.rvs(means, cov, w, size=None, random_state=np.random.RandomState(1)).shape)
