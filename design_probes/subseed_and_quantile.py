import numpy as np, itertools, time
from fractions import Fraction as F
from elfi.utils import get_sub_seed
from elfi.methods.utils import weighted_sample_quantile as wq
def ref(seed, i, high):
    rs = np.random.RandomState(seed); seen = []
    while True:
        v = int(rs.randint(high, size=1, dtype='uint32')[0])
        if v not in seen:
            seen.append(v)
            if len(seen) == i + 1: return v
t0=time.time(); n=0; bad=0
for high in range(1, 6):
  for seed in range(4):
    refs = {i: ref(seed, i, high) for i in range(high)}
    assert len(set(refs.values())) == high
    for L in range(1, 5):
      for seq in itertools.product(range(-1, high+2), repeat=L):
        cache = {}
        for i in seq:
            n += 1
            try:
                v = get_sub_seed(seed, i, high=high, cache=cache)
                ok = 0 <= i < high and int(v) == refs[i]
            except Exception as e:
                ok = not (0 <= i < high)
            if not ok: bad += 1; print('BAD', high, seed, seq, i); break
print('C15 calls', n, 'bad', bad, round(time.time()-t0,1), 's')

# C13 quantile exact oracle
t0=time.time(); n=0; bad=0; skipped=0
alphas = [F(k,8) for k in range(9)] + [F(1,40), F(3,10), F(39,40)]
for nlen in range(1,5):
  for x in itertools.product([0,1,2], repeat=nlen):
    for w in itertools.product([0,1,2,3], repeat=nlen):
      W = sum(w)
      if W == 0: continue
      exact = (W & (W-1)) == 0
      for a in alphas:
        n += 1
        q = wq(np.array(x, dtype=float), float(a), weights=np.array(w, dtype=float))
        le = F(sum(wi for xi, wi in zip(x, w) if xi <= q), W); lt = F(sum(wi for xi, wi in zip(x, w) if xi < q), W)
        ok = (q in x) and le >= a and lt <= a
        if not ok:
            # boundary inexact?
            cums = {F(sum(wi for xi, wi in zip(x, w) if xi <= v), W) for v in x}
            if a in cums and not (exact and a.denominator in (1,2,4,8)): skipped += 1
            else: bad += 1; print('BAD', x, w, a, q, le, lt)
print('quantile cases', n, 'bad', bad, 'boundary-inexact tolerated', skipped, round(time.time()-t0,1), 's')
