import numpy as np
np.Inf = np.inf
import elfi
def sim(t, batch_size=1, random_state=None): return t + random_state.randint(0, 3, size=batch_size)
m = elfi.ElfiModel(name='m')
t = elfi.Prior('uniform', 0, 4, model=m, name='t')
Y = elfi.Simulator(sim, t, model=m, name='Y', observed=np.array([2.0]))
S = elfi.Summary(lambda y: y, Y, model=m, name='S')
d = elfi.Distance('euclidean', S, model=m, name='d')
ref = elfi.Rejection(m, 'd', batch_size=3, seed=7).sample(4, n_sim=12, bar=False)
pool = elfi.OutputPool(['Y', 'S'])
rej = elfi.Rejection(m, 'd', batch_size=3, seed=7, pool=pool)
r1 = rej.sample(4, n_sim=12, bar=False)
r2 = rej.sample(4, n_sim=12, bar=False)
print('same object rerun equal', all(np.array_equal(ref.outputs[k], r2.outputs[k]) for k in ref.outputs))
pool.remove_store('S')
try:
    r3 = rej.sample(4, n_sim=12, bar=False); print('after remove S equal', all(np.array_equal(ref.outputs[k], r3.outputs[k]) for k in ref.outputs))
except Exception as e: print('after remove S ERR', type(e).__name__, str(e)[:80])
pool.remove_store('Y')
try:
    r4 = rej.sample(4, n_sim=12, bar=False); print('after remove Y equal', all(np.array_equal(ref.outputs[k], r4.outputs[k]) for k in ref.outputs))
except Exception as e: print('after remove Y ERR', type(e).__name__, str(e)[:80])
# fresh object after removing stores
rej2 = elfi.Rejection(m, 'd', batch_size=3, pool=pool); 
print('fresh object, empty pool stores:', all(np.array_equal(ref.outputs[k], rej2.sample(4, n_sim=12, bar=False).outputs[k]) for k in ref.outputs))
# pool context refusal
for kw in (dict(batch_size=2), dict(batch_size=3, seed=8)):
    try: elfi.Rejection(m, 'd', pool=pool, **kw); print('NOT refused', kw)
    except ValueError as e: print('refused', kw)
