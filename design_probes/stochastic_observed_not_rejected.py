import numpy as np
import elfi
m = elfi.ElfiModel(name='m')
t = elfi.Prior('uniform', 0, 4, model=m, name='t')
def sim(t, batch_size=1, random_state=None): return t + random_state.rand(batch_size)
Y = elfi.Simulator(sim, t, model=m, name='Y', observed=np.array([2.0]))
S = elfi.Summary(lambda y, t: y + t, Y, t, model=m, name='S')
d = elfi.Discrepancy(lambda s, observed: abs(s - observed[0]), S, model=m, name='d')
try:
    print(m.generate(3, ['d'], seed=1))
    print('observed S:', S.observed)
except Exception as e:
    print('raised', type(e).__name__, e)
