import io, os, sys, numpy as np, builtins, pickle
import elfi.store as st

LOG = []
KILL_AT = None   # raw op index after which to os._exit
class TracedFileIO(io.FileIO):
    def write(self, b):
        off = self.tell(); data = bytes(b)
        n = super().write(b)
        LOG.append(('write', off, data[:n]))
        self._maybe_kill()
        return n
    def truncate(self, size=None):
        if size is None: size = self.tell()
        r = super().truncate(size)
        LOG.append(('truncate', size))
        self._maybe_kill()
        return r
    def _maybe_kill(self):
        if KILL_AT is not None and len(LOG) == KILL_AT:
            os._exit(0)
_real_open = builtins.open
def traced_open(path, mode='r', *a, **k):
    if str(path).endswith('.npy') and 'b' in mode and ('+' in mode or 'w' in mode):
        raw = TracedFileIO(path, mode.replace('b',''))
        if 'w' in mode: LOG.append(('truncate', 0))
        return io.BufferedRandom(raw)
    return _real_open(path, mode, *a, **k)
st.open = traced_open
_orig_setitem = st.NpyArray.__setitem__
def traced_setitem(self, sl, value):
    _orig_setitem(self, sl, value)
    mm = self.memmap
    start = sl.start * int(np.prod(self.shape[1:], dtype=int)) * self.itemsize + self.header_length
    LOG.append(('mmap', start, np.ascontiguousarray(mm[sl]).tobytes()))
    if KILL_AT is not None and len(LOG) == KILL_AT: os._exit(0)
st.NpyArray.__setitem__ = traced_setitem

def image(log, k):
    buf = bytearray()
    for op in log[:k]:
        if op[0] in ('write', 'mmap'):
            off, data = op[1], op[2]
            if len(buf) < off: buf.extend(b'\0' * (off - len(buf)))
            buf[off:off+len(data)] = data
        else:
            size = op[1]
            if len(buf) > size: del buf[size:]
            else: buf.extend(b'\0' * (size - len(buf)))
    return bytes(buf)

def history(fn):
    s = st.NpyStore(fn, batch_size=2)
    marks = []
    s[0] = np.array([1., 2.]); marks.append(('append', len(LOG)))
    s[1] = np.array([3., 4.]); marks.append(('append', len(LOG)))
    s.flush(); marks.append(('flush', len(LOG)))
    s[0] = np.array([9., 8.]); marks.append(('overwrite', len(LOG)))
    s[2] = np.array([5., 6.]); marks.append(('append', len(LOG)))
    del s[2]; marks.append(('delete_last', len(LOG)))
    s.flush(); marks.append(('flush', len(LOG)))
    s.clear(); marks.append(('clear', len(LOG)))
    s[0] = np.array([7., 7.]); marks.append(('append', len(LOG)))
    s.close(); marks.append(('close', len(LOG)))
    return marks

fn = '/tmp/scratch/h.npy'
if os.path.exists(fn): os.remove(fn)
marks = history(fn)
log = list(LOG)
print('raw ops', len(log)); 
for i, op in enumerate(log): print(i, op[0], op[1], (len(op[2]) if len(op) > 2 else ''))
print(marks)
final = _real_open(fn, 'rb').read()
print('final image equals file:', image(log, len(log)) == final)
# validate every prefix against a real killed child
ok = 0
for k in range(1, len(log)+1):
    if os.path.exists(fn): os.remove(fn)
    pid = os.fork()
    if pid == 0:
        LOG.clear(); KILL_AT = k
        globals()['KILL_AT'] = k
        history(fn); os._exit(0)
    os.waitpid(pid, 0)
    disk = _real_open(fn, 'rb').read()
    same = disk == image(log, k)
    ok += same
    if not same: print('MISMATCH at', k, len(disk), len(image(log, k)))
    # load attempt
    try:
        a = np.load(io.BytesIO(image(log, k))); res = a.tolist()
    except Exception as e: res = 'LOADFAIL ' + type(e).__name__
    print(k, log[k-1][0], res)
print('validated', ok, 'of', len(log))
