import numpy as np
def f1(*a, **k): return ('f1', a, tuple(sorted(k)))
def f2(*a, **k): return ('f2', a, tuple(sorted(k)))
def sim(*a, batch_size=1, random_state=None): return np.asarray(sum(np.asarray(x, float) for x in a) if a else 0.0) + random_state.randint(0, 5, size=batch_size)
def summ(y): return y
