import numpy as np, itertools, time
from elfi.methods.mcmc import metropolis, nuts
ANS = [-1.0, 0.0, -3.0, 2.0, -np.inf, np.inf, np.nan]
def ref(n, p0, answers, sigma, warmup, seed):
    rs = np.random.RandomState(seed); it = iter(answers)
    cur = np.array(p0, float); tcur = next(it); out = []
    for i in range(n + warmup):
        prop = cur + sigma * rs.randn(*cur.shape); t = next(it); u = rs.rand()
        if (np.exp(t - tcur) < u) or np.isinf(t) or np.isnan(t): pass
        else: cur, tcur = prop, t
        out.append(cur.copy())
    return np.array(out[warmup:])
t0 = time.time(); n = 0; bad = 0
for L in (1, 2, 3):
  for warm in (0, 1):
    for answers in itertools.product(ANS, repeat=L + warm):
      for seed in (0, 1):
        seq = [0.0] + list(answers); it = iter(seq); visited = []
        def target(x): visited.append(np.array(x)); return next(it)
        with np.errstate(all='ignore'):
            got = metropolis(L, np.array([0.5, 1.0]), target, np.array([1.0, 2.0]), warmup=warm, seed=seed)
            exp = ref(L, [0.5, 1.0], seq, np.array([1.0, 2.0]), warm, seed)
        n += 1
        if not np.array_equal(got, exp) or got.shape != (L, 2): bad += 1
print('metropolis runs', n, 'bad', bad, round(time.time() - t0, 1), 's')
# NUTS support invariant
def tgt(x): return -0.5 * float(x @ x) if np.all(x > -1) else -np.inf
def grad(x): return -x
bad = 0
for seed in range(6):
    s = nuts(30, np.array([0.2, 0.3]), tgt, grad, n_adapt=10, seed=seed)
    s2 = nuts(30, np.array([0.2, 0.3]), tgt, grad, n_adapt=10, seed=seed)
    bad += (not np.array_equal(s, s2)) or s.shape != (30, 2) or any(not np.isfinite(tgt(x)) for x in s)
print('nuts bad', bad)
