"""Command line: bin/check <id> [--tier quick|thorough] [--replay path] [--only section]."""
import argparse
import importlib
import json
import os
import sys
import traceback


def main(argv=None):
    ap = argparse.ArgumentParser()
    ap.add_argument('pid')
    ap.add_argument('--tier', default=os.environ.get('VERIF_TIER', 'quick'), choices=['quick', 'thorough'])
    ap.add_argument('--replay', default=None)
    ap.add_argument('--only', default=None, help='run only the named section(s), comma separated (debugging)')
    args = ap.parse_args(argv)
    pid = args.pid.upper()
    if pid == 'SELFTEST':
        from . import selftest
        return selftest.main()
    seed = int(os.environ.get('VERIF_SEED', '0') or 0)

    repo = os.path.realpath(os.environ.get('VMC_REPO', '/repo'))
    try:
        import elfi
    except BaseException:
        # a tree that cannot even be imported breaks every property
        traceback.print_exc()
        print('HARNESS-ERROR: cannot import elfi from %s' % repo)
        return 2
    got = os.path.realpath(os.path.dirname(os.path.dirname(elfi.__file__)))
    if got != repo:
        print('HARNESS-ERROR: elfi imported from %s, expected %s' % (got, repo))
        return 2
    import logging
    logging.disable(logging.WARNING)

    from . import report, pin
    pin.deterministic_empty()
    mod = importlib.import_module('vmc.checks.' + pid.lower())
    ctx = report.Ctx(pid, args.tier, seed, mod.LEVEL, only=args.only.split(',') if args.only else None)

    if args.replay:
        with open(args.replay) as f:
            data = json.load(f)
        case = data['case'] if 'case' in data else data
        res = mod.replay(case)
        print(json.dumps({'case': case, 'result': report.jsonable(res)}, indent=1, sort_keys=True)[:20000])
        if res.get('viol'):
            print('VIOLATION property=%s replay=%s' % (pid, args.replay))
            return 1
        print('replay: case passes')
        return 0

    try:
        ctx.run_witnesses(mod.replay)
        mod.run(ctx)
        return ctx.finish()
    except BaseException:
        traceback.print_exc()
        print('HARNESS-ERROR: %s check aborted (no verdict)' % pid)
        return 2


if __name__ == '__main__':
    code = main()
    sys.stdout.flush()
    sys.stderr.flush()
    # leave without interpreter shutdown: worker pools that were terminated after an error (or whose workers died
    # in code under test) can block the atexit joins of multiprocessing forever
    os._exit(code if isinstance(code, int) else 0)
