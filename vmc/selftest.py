"""Setup self-test: imports, explorer sanity on a toy harness (known tree sizes), pruning soundness on it."""
import sys

from . import explore


def toy(ch):
    # two "threads" incrementing a shared counter non-atomically: 2 steps each; classic lost update
    shared = 0
    pcs = [0, 0]
    regs = [0, 0]
    while True:
        enabled = [t for t in (0, 1) if pcs[t] < 2]
        if not enabled:
            break
        c = ch.choose(len(enabled), 'sched', state=(shared, tuple(pcs), tuple(regs)))
        t = enabled[c]
        if pcs[t] == 0:
            regs[t] = shared
        else:
            shared = regs[t] + 1
        pcs[t] += 1
    return shared


def main():
    outs = set()
    st = explore.explore(toy, lambda obs, run: outs.add(obs) or None)
    assert st['executions'] == 6 and outs == {1, 2}, (st, outs)
    outs2 = set()
    st2 = explore.explore(toy, lambda obs, run: outs2.add(obs) or None, prune=True)
    assert outs2 == outs and st2['executions'] <= st['executions'], (st2, outs2)
    outs3 = set()
    st3 = explore.explore(toy, lambda obs, run: outs3.add(obs) or None, bound=0)
    assert st3['executions'] == 1 and outs3 == {2}
    explore.determinism_selftest(toy, [1, 0, 1])
    try:
        explore.run_once(toy, [5])
    except explore.ReplayDivergence:
        pass
    else:
        raise AssertionError('out-of-range replay choice accepted')
    import elfi  # noqa
    import numpy, scipy, networkx  # noqa
    print('selftest ok: toy tree %d executions, pruned %d; elfi from %s; numpy %s' % (
        st['executions'], st2['executions'], elfi.__file__, numpy.__version__))
    return 0


if __name__ == '__main__':
    sys.exit(main())
