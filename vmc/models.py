"""Toy ELFI models used by several checks. All operations are module-level (they must pickle)."""
import numpy as np

CALLS = {}


def reset_calls():
    CALLS.clear()


def _bump(name, n=1):
    CALLS[name] = CALLS.get(name, 0) + n


# ---------------------------------------------------------------- operations
def sim_int_noise(t, batch_size=1, random_state=None):
    """theta + integer noise in {0,1,2}; few distinct values => ties are the norm."""
    _bump('sim')
    t = np.asarray(t)
    return t + random_state.randint(0, 3, size=batch_size)


def sim_two(t1, t2, batch_size=1, random_state=None):
    """(bs,2) output: rounded (t1 + noise, t2 + noise)."""
    _bump('sim')
    e = random_state.randint(0, 3, size=(batch_size, 2))
    y = np.column_stack([np.round(np.asarray(t1, dtype=float)), np.round(np.asarray(t2, dtype=float))]) + e
    return y


def sim_gauss(t, batch_size=1, random_state=None):
    _bump('sim')
    return np.asarray(t, dtype=float) + random_state.normal(0, 1, size=batch_size)


def sim_gauss2(t1, t2, batch_size=1, random_state=None):
    _bump('sim')
    return np.column_stack([np.asarray(t1, dtype=float), np.asarray(t2, dtype=float)]) \
        + random_state.normal(0, 1, size=(batch_size, 2))


def ident(y):
    _bump('sum')
    return y


def col0(y):
    _bump('sum')
    return y[:, 0]


def both_cols(y):
    _bump('sum')
    return y


def disc_inf(s, observed):
    """|s-obs| with every value > 1 replaced by inf (a discrepancy with an infinite value class)."""
    d = np.abs(np.asarray(s, dtype=float) - observed[0]).reshape(len(s), -1).sum(axis=1)
    d[d > 1] = np.inf
    return d


def disc_col(s, observed):
    """Discrepancy returned with shape (bs,1)."""
    d = np.abs(np.asarray(s, dtype=float) - observed[0]).reshape(len(s), -1).sum(axis=1)
    return d[:, None]


def disc_int(s, observed):
    """Integer-typed discrepancy (e.g. a Hamming-like count): dtype int64."""
    return np.abs(np.asarray(s, dtype=float) - observed[0]).reshape(len(s), -1).sum(axis=1).astype(np.int64)


def disc_bool(s, observed):
    """Boolean discrepancy: exact match or not."""
    return np.abs(np.asarray(s, dtype=float) - observed[0]).reshape(len(s), -1).sum(axis=1) > 0.5


def disc_abs(s, observed):
    return np.abs(np.asarray(s, dtype=float) - observed[0]).reshape(len(s), -1).sum(axis=1)


# ---------------------------------------------------------------- model builders
def build(kind, obs=2.0):
    """Return (model, discrepancy name, extra output names)."""
    import elfi
    m = elfi.ElfiModel(name='m_' + kind)
    if kind == 'M1':       # discrete prior, ties
        t = elfi.Prior('randint', 0, 5, model=m, name='t')
        Y = elfi.Simulator(sim_int_noise, t, model=m, name='Y', observed=np.array([obs]))
        S = elfi.Summary(ident, Y, model=m, name='S')
        elfi.Distance('euclidean', S, model=m, name='d')
        return m, 'd', ['S']
    if kind == 'M1c':      # continuous prior
        t = elfi.Prior('uniform', 0, 4, model=m, name='t')
        Y = elfi.Simulator(sim_gauss, t, model=m, name='Y', observed=np.array([obs]))
        S = elfi.Summary(ident, Y, model=m, name='S')
        elfi.Distance('euclidean', S, model=m, name='d')
        return m, 'd', ['S']
    if kind == 'M2':       # two parameters (declared in non-alphabetical order), hierarchical, 2-column summary
        t2 = elfi.Prior('randint', 0, 4, model=m, name='zb')
        t1 = elfi.Prior('norm', t2, 1, model=m, name='a')
        Y = elfi.Simulator(sim_two, t1, t2, model=m, name='Y', observed=np.array([[obs, 1.0]]))
        S1 = elfi.Summary(col0, Y, model=m, name='S1')
        S2 = elfi.Summary(both_cols, Y, model=m, name='S2')
        elfi.Distance('cityblock', S1, S2, model=m, name='d')
        return m, 'd', ['S2', 'S1']
    if kind == 'Minf':     # infinite discrepancy class
        t = elfi.Prior('randint', 0, 5, model=m, name='t')
        Y = elfi.Simulator(sim_int_noise, t, model=m, name='Y', observed=np.array([obs]))
        S = elfi.Summary(ident, Y, model=m, name='S')
        elfi.Discrepancy(disc_inf, S, model=m, name='d')
        return m, 'd', ['S']
    if kind == 'Mcol':     # (bs,1)-shaped discrepancy
        t = elfi.Prior('randint', 0, 5, model=m, name='t')
        Y = elfi.Simulator(sim_int_noise, t, model=m, name='Y', observed=np.array([obs]))
        S = elfi.Summary(ident, Y, model=m, name='S')
        elfi.Discrepancy(disc_col, S, model=m, name='d')
        return m, 'd', ['S']
    if kind in ('Mint', 'Mbool'):     # integer / boolean typed discrepancy
        t = elfi.Prior('randint', 0, 5, model=m, name='t')
        Y = elfi.Simulator(sim_int_noise, t, model=m, name='Y', observed=np.array([obs]))
        S = elfi.Summary(ident, Y, model=m, name='S')
        elfi.Discrepancy(disc_int if kind == 'Mint' else disc_bool, S, model=m, name='d')
        return m, 'd', ['S']
    if kind == 'Madapt':   # adaptive distance over two summaries of different scale
        t2 = elfi.Prior('uniform', 0, 4, model=m, name='zb')
        t1 = elfi.Prior('uniform', 0, 4, model=m, name='a')
        Y = elfi.Simulator(sim_gauss2, t1, t2, model=m, name='Y', observed=np.array([[obs, 1.0]]))
        S1 = elfi.Summary(col0, Y, model=m, name='S1')
        S2 = elfi.Summary(scaled_col1, Y, model=m, name='S2')
        elfi.AdaptiveDistance(S1, S2, model=m, name='d')
        return m, 'd', ['S1', 'S2']
    if kind == 'MadaptV':   # adaptive distance over ONE vector-valued summary (a (batch, 2) float array)
        t2 = elfi.Prior('uniform', 0, 4, model=m, name='zb')
        t1 = elfi.Prior('uniform', 0, 4, model=m, name='a')
        Y = elfi.Simulator(sim_gauss2, t1, t2, model=m, name='Y', observed=np.array([[obs, 1.0]]))
        SV = elfi.Summary(both_cols_scaled, Y, model=m, name='SV')
        elfi.AdaptiveDistance(SV, model=m, name='d')
        return m, 'd', ['SV']
    raise KeyError(kind)


def both_cols_scaled(y):
    _bump('sum')
    return np.column_stack([y[:, 0], 10.0 * y[:, 1]])


def scaled_col1(y):
    _bump('sum')
    return 10.0 * y[:, 1]


def native_client():
    """Fresh in-process client (the default), installed as current client."""
    import elfi.client
    import elfi.clients.native as native
    c = native.Client()
    elfi.client.set_client(c)
    return c
