"""Pin process-level nondeterminism that is not part of any property: random node/model names."""
import contextlib
import hashlib
import uuid

_real_uuid4 = uuid.uuid4
_counter = [0]
_offset = [0]


def _fake_uuid4():
    _counter[0] += 1
    return uuid.UUID(bytes=hashlib.md5(b'vmc%d:%d' % (_offset[0], _counter[0])).digest())


def reset(offset=None):
    if offset is not None:
        _offset[0] = offset
    _counter[0] = 0


def install(offset=0):
    """Replace uuid.uuid4 by a deterministic counter-based generator (names only, no randomness drawn)."""
    uuid.uuid4 = _fake_uuid4
    reset(offset)


def uninstall():
    uuid.uuid4 = _real_uuid4


@contextlib.contextmanager
def pinned(offset=0):
    install(offset)
    try:
        yield
    finally:
        uninstall()


def deterministic_empty():
    """np.empty returns uninitialised memory; code under test must not depend on its content, but canonical
    states and row-membership oracles would see the garbage.  Inside the harness np.empty == np.zeros, which
    is one legal behaviour of np.empty and makes every execution reproducible."""
    import numpy as np
    if getattr(np, '_vmc_empty_pinned', False):
        return
    zeros = np.zeros

    def empty(shape, dtype=float, order='C', **kw):
        return zeros(shape, dtype=dtype, order=order, **kw)
    np.empty = empty
    np._vmc_empty_pinned = True
