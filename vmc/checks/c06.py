"""C06 On-disk array stores keep exactly what was written, across reopen and crash.  Modes H + F.

H: every operation sequence up to a depth over {append, overwrite, delete-last, clear, flush,
   close+reopen, pickle round trip} on a real NpyStore / ArrayPool store, lock-step with a list of
   batches; the end state of every history (= every prefix of every longer history) is observed.
F: for every history, a process kill after every raw file operation (write / truncate / memmap
   store) performed by its last operation; the crash image (replay of the raw-op log prefix) must
   load, be batch aligned and equal the logical content at some instant since the last completed flush.
   Images are validated against really killed child processes.
"""
import io
import itertools
import os
import pickle
import shutil
import tempfile

import numpy as np

from .. import crashfs
from ..canon import digest
from ..guard import guarded
from ..report import ok, bad

PID = 'C06'
LEVEL = 'fault_enumeration'

DTYPES = {'f8': np.dtype('<f8'), 'i4': np.dtype('<i4'), 'rec': np.dtype([('a', '<i4'), ('b', '<f8')])}
_real_open = crashfs._real_open


def scratch_root():
    root = os.environ.get('VMC_SCRATCH')
    if not root:
        root = '/dev/shm' if os.path.isdir('/dev/shm') and os.access('/dev/shm', os.W_OK) else '/var/tmp'
    return root


def batch_value(cfg, i, version):
    """Deterministic content of batch i (version distinguishes overwrites); every element distinct."""
    dt = DTYPES[cfg['dtype']]
    shape = (cfg['bs'],) + ((cfg['row'],) if cfg['row'] else ())
    n = int(np.prod(shape))
    base = ((i + 1) * 10 + version) * 100
    vals = base + np.arange(n)
    if dt.names:
        a = np.zeros(n, dtype=dt)
        a['a'] = vals
        a['b'] = vals + 0.5
        return a.reshape(shape)
    return vals.astype(dt).reshape(shape)


class Driver:
    """Runs one history on the real store, lock-step with the reference list."""

    def __init__(self, cfg, workdir):
        import elfi.store as st
        self.st = st
        self.cfg = cfg
        self.dir = workdir
        self.ref = []        # list of (version) per batch
        self.marks = []      # len(LOG) after each op
        self.contents = []   # reference content (tuple of versions) after each op
        self.flush_ops = []  # indices of ops that end with a completed flush of the file
        self.nextver = {}
        self.read_problem = None
        self.stale = []      # store objects that were pickled and are still alive while their unpickled copy is in use
        if cfg['store'] == 'npy':
            self.file = os.path.join(workdir, 'x.npy')
            self.s = st.NpyStore(os.path.join(workdir, 'x'), cfg['bs'])
        else:
            from elfi.model.elfi_model import ComputationContext
            self.pool = st.ArrayPool(['x'], name='p', prefix=workdir)
            self.pool.set_context(ComputationContext(batch_size=cfg['bs'], seed=1))
            self.file = os.path.join(workdir, 'p', 'x.npy')

    def _ver(self, i):
        v = self.nextver.get(i, 0)
        self.nextver[i] = (v + 1) % 3
        return v

    def store(self):
        return self.s if self.cfg['store'] == 'npy' else self.pool.get_store('x')

    def enabled(self):
        n = len(self.ref)
        ops = [('append',)]
        if n > 0:
            ops.append(('overwrite', 0))
            if n > 1:
                ops.append(('overwrite', n - 1))
            ops.append(('delete_last',))
        ops += [('clear',), ('flush',), ('reopen',), ('read',)]
        if self.cfg['store'] == 'npy':
            ops.append(('pickle',))
            if self.cfg.get('stale'):
                if not self.stale:
                    ops.append(('pickle_keep',))
                else:
                    ops.append(('close_stale',))
        else:
            if n > 0:
                ops.append(('readd', n - 1))
            ops.append(('save',))
        return ops

    def _ix(self, i):
        # batch indices as the caller's loop produces them: Python ints, or NumPy integers (np.arange, len arithmetic)
        return np.int64(i) if self.cfg.get('idx') == 'npint' else i

    def apply(self, op):
        cfg = self.cfg
        npy = cfg['store'] == 'npy'
        k = op[0]
        n = len(self.ref)
        if k == 'append':
            v = self._ver(n)
            arr = batch_value(cfg, n, v)
            if npy:
                self.s[self._ix(n)] = arr
            else:
                self.pool.add_batch({'x': arr}, self._ix(n))
            self.ref.append(v)
        elif k == 'overwrite':
            i = op[1]
            v = self._ver(i)
            if v == self.ref[i]:
                v = self._ver(i)
            self.store()[self._ix(i)] = batch_value(cfg, i, v)
            self.ref[i] = v
        elif k == 'readd':      # OutputPool.add_batch never replaces an existing batch
            i = op[1]
            self.pool.add_batch({'x': batch_value(cfg, i, (self.ref[i] + 1) % 3)}, self._ix(i))
        elif k == 'delete_last':
            if npy:
                del self.s[self._ix(n - 1)]
            else:
                self.pool.remove_batch(self._ix(n - 1))
            self.ref.pop()
        elif k == 'clear':
            if npy:
                self.s.clear()
            else:
                self.pool.clear()
            self.ref = []
        elif k == 'read':
            # reading is an operation too: it creates the memory map and flushes the buffered layer
            st_ = self.store()
            if st_ is not None:
                if len(st_) != len(self.ref):
                    self.read_problem = 'len %d != %d' % (len(st_), len(self.ref))
                for i, v in enumerate(self.ref):
                    got = np.asarray(st_[i])
                    exp = batch_value(cfg, i, v)
                    if not (got.dtype == exp.dtype and got.shape == exp.shape and got.tobytes() == exp.tobytes()):
                        self.read_problem = 'batch %d read as %r' % (i, got.tolist())
        elif k == 'flush':
            if npy:
                self.s.flush()
            else:
                self.pool.flush()
        elif k == 'save':
            self.pool.save()
        elif k == 'reopen':
            if npy:
                self.s.close()
                self.s = self.st.NpyStore(os.path.join(self.dir, 'x'), cfg['bs'])
            else:
                self.pool.close()
                self.pool = self.st.ArrayPool.open('p', prefix=self.dir)
        elif k == 'pickle':
            data = pickle.dumps(self.s)
            self.s.close()
            self.s = pickle.loads(data)
        elif k == 'pickle_keep':
            # the unpickled copy is used from now on, the pickled object stays alive (a second handle on the same file)
            self.stale.append(self.s)
            self.s = pickle.loads(pickle.dumps(self.s))
        elif k == 'close_stale':
            # the outdated handle is closed (explicitly here; garbage collection does the same)
            for o in self.stale:
                o.close()
            self.stale = []
        else:
            raise KeyError(op)
        self.marks.append(len(crashfs.LOG))
        self.contents.append(tuple(self.ref))
        if k in ('flush', 'reopen', 'pickle', 'pickle_keep', 'save'):
            # save() pickles the stores, NpyArray.__getstate__ flushes
            self.flush_ops.append(len(self.marks) - 1)

    def content_array(self, versions):
        cfg = self.cfg
        if not versions:
            return np.zeros((0,) + ((cfg['row'],) if cfg['row'] else ()), dtype=DTYPES[cfg['dtype']])
        return np.concatenate([batch_value(cfg, i, v) for i, v in enumerate(versions)])

    def close(self):
        try:
            if self.cfg['store'] == 'npy':
                self.s.close()
            else:
                for s in self.pool.stores.values():
                    if s is not None:
                        s.close()
        except Exception:
            pass


def run_history(cfg, hist, workdir, kill_at=None):
    crashfs.install()
    crashfs.reset(kill_at)
    d = Driver(cfg, workdir)
    for op in hist:
        d.apply(tuple(op))
    return d


def load_image(img):
    return np.load(io.BytesIO(img), allow_pickle=False)


def same(a, b):
    return a.dtype == b.dtype and a.shape == b.shape and a.tobytes() == b.tobytes()


def judge_history(cfg, hist, workdir, validate):
    """Run hist; observe the end state (H) and every crash point of the last op (F)."""
    bs = cfg['bs']
    d = run_history(cfg, hist, workdir)
    log = list(crashfs.LOG)
    marks = list(d.marks)
    if not log:
        raise RuntimeError('interception lost: history produced no raw file operations')
    n_imgs = 0
    n_val = 0
    if d.read_problem:
        d.close()
        return bad('C06:read-differs:during-history', {'history': hist, 'cfg': cfg, 'problem': d.read_problem})
    lo = marks[-2] if len(marks) > 1 else 0
    hi = marks[-1]
    j = len(hist) - 1
    try:
        # ---------------- F: crash points inside the last operation
        imgs = {}
        if hi > lo:
            for k, img in crashfs.images(log[:hi]):
                if k > lo:
                    imgs[k] = img
        for k in range(lo + 1, hi + 1):
            img = imgs[k]
            done_flushes = [f for f in d.flush_ops if marks[f] <= k]
            if not done_flushes:
                continue          # the property speaks about kills after a flush
            f = done_flushes[-1]
            allowed = sorted(set(d.contents[f:j + 1]))
            n_imgs += 1
            what = {'history': hist, 'cfg': cfg, 'raw_op_index': k, 'raw_op': [log[k - 1][0], log[k - 1][1] if len(log[k - 1]) > 1 else None],
                    'op_in_progress': list(hist[j])}
            try:
                arr = load_image(img)
            except Exception as e:
                return bad('C06:crash:file-does-not-load:after-raw-%s' % log[k - 1][0], dict(what, error=repr(e)[:200]))
            if arr.shape[0] % bs != 0:
                return bad('C06:crash:not-batch-aligned:after-raw-%s' % log[k - 1][0], dict(what, shape=list(arr.shape)))
            if not any(same(arr, d.content_array(c)) for c in allowed):
                return bad('C06:crash:content-not-between-flush-and-kill:during-%s' % hist[j][0],
                           dict(what, loaded=arr.tolist(), allowed=[list(c) for c in allowed]))
            # (d) a store reopened on the image reports the same batches as numpy.load
            p2 = os.path.join(workdir, 'img_%d.npy' % k)
            with _real_open(p2, 'wb') as fh:
                fh.write(img)
            crashfs_log_len = len(crashfs.LOG)
            s2 = d.st.NpyStore(p2[:-4], bs)
            try:
                nb = arr.shape[0] // bs
                if len(s2) != nb or any(not same(np.asarray(s2[i]), arr[i * bs:(i + 1) * bs]) for i in range(nb)):
                    return bad('C06:crash:reopened-store-differs-from-numpy-load:during-%s' % hist[j][0], what)
            finally:
                s2.close()
                os.remove(p2)
                del crashfs.LOG[crashfs_log_len:]
        # ---------------- H: end-state agreement (observation happens after the log was captured)
        s = d.store()
        ref = d.ref
        what = {'history': hist, 'cfg': cfg}
        if s is None:
            if ref:
                return bad('C06:store-missing', what)
        else:
            if len(s) != len(ref):
                return bad('C06:len-differs:after-%s' % hist[j][0], dict(what, got=len(s), expected=len(ref)))
            for i in range(len(ref) + 2):
                if (i in s) != (i < len(ref)):
                    return bad('C06:contains-differs:after-%s' % hist[j][0], dict(what, index=i))
            for i, v in enumerate(ref):
                got = np.asarray(s[i])
                if not same(got, batch_value(cfg, i, v)):
                    return bad('C06:batch-differs:after-%s' % hist[j][0],
                               dict(what, index=i, got=got.tolist(), expected=batch_value(cfg, i, v).tolist()))
        if hist[j][0] in ('flush', 'reopen', 'pickle', 'save'):
            with _real_open(d.file, 'rb') as fh:
                disk = fh.read()
            if disk != crashfs.image(log, hi):
                raise RuntimeError('crash-image model diverges from the real file for %r' % (hist,))
            n_val += 1
            try:
                arr = load_image(disk)
            except Exception as e:
                return bad('C06:flushed-file-does-not-load:after-%s' % hist[j][0], dict(what, error=repr(e)[:200]))
            if not same(arr, d.content_array(tuple(ref))):
                return bad('C06:flushed-file-differs:after-%s' % hist[j][0], dict(what, loaded=arr.tolist()))
    finally:
        d.close()
    # ---------------- validation of crash images against really killed children
    if validate and hi > lo:
        for k in range(lo + 1, hi + 1):
            sub = tempfile.mkdtemp(dir=workdir)
            pid = os.fork()
            if pid == 0:
                try:
                    run_history(cfg, hist, sub, kill_at=k)
                finally:
                    os._exit(0)
            os.waitpid(pid, 0)
            fn = os.path.join(sub, 'x.npy') if cfg['store'] == 'npy' else os.path.join(sub, 'p', 'x.npy')
            disk = b''
            if os.path.exists(fn):
                with _real_open(fn, 'rb') as fh:
                    disk = fh.read()
            if disk != crashfs.image(log, k):
                raise RuntimeError('crash image %d of %r differs from the file left by a killed child' % (k, hist))
            n_val += 1
            shutil.rmtree(sub, ignore_errors=True)
    return {'viol': None, 'n_imgs': n_imgs, 'n_val': n_val, 'n_raw': hi - lo, 'enabled': d.enabled(),
            'state': digest((tuple(d.ref), crashfs.image(log, hi)))}


@guarded('C06')
def run_config(case):
    """All histories up to case['depth'] for one store configuration (DFS over op sequences)."""
    cfg = case['cfg']
    depth = case['depth']
    val_depth = case.get('validate_depth', 0)
    root = tempfile.mkdtemp(prefix='vmc_c06_', dir=scratch_root())
    n_hist = n_imgs = n_val = n_raw = 0
    states = set()
    transitions = 0
    try:
        frontier = [[('append',)]]
        level = 1
        while frontier and level <= depth:
            nxt = []
            for hist in frontier:
                wd = tempfile.mkdtemp(dir=root)
                try:
                    r = judge_history(cfg, [list(o) for o in hist], wd, validate=level <= val_depth)
                finally:
                    shutil.rmtree(wd, ignore_errors=True)
                n_hist += 1
                transitions += 1
                if r.get('viol'):
                    r['evals'] = n_hist
                    return r
                n_imgs += r['n_imgs']
                n_val += r['n_val']
                n_raw += r['n_raw']
                states.add(r['state'])
                if level < depth:
                    for op in r['enabled']:
                        nxt.append(hist + [tuple(op)])
            frontier = nxt
            level += 1
    finally:
        shutil.rmtree(root, ignore_errors=True)
    out = ok(outcome=None, histories=n_hist, crash_images=n_imgs, raw_ops=n_raw, images_validated=n_val)
    out.update(evals=n_hist + n_imgs, distinct=n_hist + n_imgs, states=[digest((cfg, s)) for s in states],
               outcome_list=[digest(('end-state', cfg['dtype'], cfg['row'], cfg['bs'], s)) for s in states],
               transitions=transitions, validated=n_val)
    return out


@guarded('C06')
def run_one(case):
    """Judge exactly one history (replays, witnesses)."""
    root = tempfile.mkdtemp(prefix='vmc_c06_', dir=scratch_root())
    try:
        hist = [list(o) for o in case['history']]
        # every prefix is judged, shortest first, so that the replay reports the first failing point
        for n in range(1, len(hist) + 1):
            wd = tempfile.mkdtemp(dir=root)
            r = judge_history(case['cfg'], hist[:n], wd, validate=case.get('validate', False))
            if r.get('viol'):
                return r
    finally:
        shutil.rmtree(root, ignore_errors=True)
    return ok()


RUNNERS = {'config': run_config, 'history': run_one}


def replay(case):
    return RUNNERS[case['kind']](case)


LONG_HISTORY = [['append'], ['append'], ['flush'], ['overwrite', 0], ['append'], ['delete_last'], ['flush'],
                ['clear'], ['append'], ['reopen'], ['append'], ['overwrite', 1], ['flush'], ['delete_last'],
                ['delete_last'], ['reopen'], ['append']]


def run(ctx):
    q = ctx.quick
    depth = 4 if q else 6
    cfgs = []
    for store in ('npy', 'pool'):
        for dt in ('f8', 'i4', 'rec'):
            for row in (0, 2):
                for bs in (1, 2):
                    cfgs.append({'store': store, 'dtype': dt, 'row': row, 'bs': bs})
    # batch sizes at which the number of rows grows a decimal digit within the depth (5, 10, 15 ... / 50, 100, ...): the
    # shape string in the .npy header gets longer while the header must keep its length
    if q:
        big = [('npy', 0, 5), ('pool', 2, 5), ('npy', 0, 50)]
    else:
        big = [(st_, row, bs) for st_ in ('npy', 'pool') for row in (0, 2) for bs in (5, 50)]
    for st_, row, bs in big:
        cfgs.append({'store': st_, 'dtype': 'f8', 'row': row, 'bs': bs})
    # a pickled store object kept alive next to its unpickled copy, and closed later
    for row, bs in ([(0, 1)] if q else [(0, 1), (2, 2)]):
        cfgs.append({'store': 'npy', 'dtype': 'f8', 'row': row, 'bs': bs, 'stale': True})
    # batch indices given as NumPy integers
    for st_, row, bs in ([('npy', 0, 2), ('pool', 2, 1)] if q else [('npy', 0, 2), ('pool', 2, 1), ('npy', 2, 1), ('pool', 0, 2)]):
        cfgs.append({'store': st_, 'dtype': 'f8', 'row': row, 'bs': bs, 'idx': 'npint'})
    cases = []
    for cfg in cfgs:
        d = depth
        if not q and (cfg['bs'] > 2 or cfg.get('idx') or cfg.get('stale') or not (cfg['dtype'] == 'f8' or (cfg['row'] == 0 and cfg['bs'] == 2))):
            d = depth - 1     # the deepest level only for a sub-family of configurations (stated in evidence)
        if q and cfg['dtype'] == 'f8' and not cfg.get('idx') and not cfg.get('stale') and (cfg['store'], cfg['row'], cfg['bs']) in (('npy', 0, 1), ('pool', 2, 2)):
            d = depth + 1     # one level deeper for two configurations: flush, append, read, overwrite, kill needs it
        cases.append({'kind': 'config', 'cfg': cfg, 'depth': d, 'validate_depth': 2 if q else 3})
    res = []

    def post(case, r):
        # on violation turn the case into the single failing history
        if r.get('viol') and isinstance(r['viol'].get('detail'), dict) and 'history' in r['viol']['detail']:
            return {'kind': 'history', 'cfg': case['cfg'], 'history': r['viol']['detail']['history']}
        return case
    from .. import par

    def fn(case):
        return case, run_config(case)
    for case, r in par.pmap(fn, cases, chunksize=1, ordered=True):
        ctx.record(post(case, r), r, 'histories')
        ctx.add_sample({'cfg': case['cfg'], 'depth': case['depth'], 'histories': (r.get('cnt') or {}).get('histories')},
                       key=digest(case['cfg']), limit=6)
    # fixed long history with every crash point validated against a killed child
    for cfg in cfgs[:: (4 if q else 1)]:
        case = {'kind': 'history', 'cfg': cfg, 'history': LONG_HISTORY if cfg['store'] == 'npy' else
                [o for o in LONG_HISTORY], 'validate': True}
        ctx.record(case, run_one(case), 'long-history')
    ctx.add_sample({'history': LONG_HISTORY, 'note': 'every prefix judged, every raw op a crash point'}, key='long')
    ctx.rule = ('histories: every operation sequence up to depth %d (first op is the initialising append; quick: one level deeper for two float64 configurations; thorough: one level less outside a sub-family) over '
                '{append, overwrite(first|last), delete-last, clear, flush, close+reopen, read-all, pickle round trip | pool: '
                're-add, save} per store configuration (NpyStore|ArrayPool store x dtype x row shape x batch_size 1, 2, plus '
                'float64 configurations with batch_size 5 and 50, where the row count grows a decimal digit, and configurations '
                'whose batch indices are NumPy integers, and configurations with the extra operations pickle-and-keep-the-original / '
                'close-the-outdated-original); '
                'crash images: one per raw file operation (write/truncate/memmap store) of the last operation of every '
                'history, judged when a flush completed before it; evaluations = histories + crash images; all distinct '
                'by construction' % depth)
    ctx.extra['depth'] = depth
    ctx.extra['configurations'] = len(cfgs)
    ctx.assumptions += [
        'kill model: a process kill; one raw write()/ftruncate()/memmap batch store is atomic; data in the user-space '
        'buffer is lost, dirty shared pages survive; no power-loss / torn sectors',
        'crash images are replays of the intercepted raw-op log, validated byte-for-byte against files left by really '
        'killed child processes (count in traces_validated_against_impl) and against the real file after each flush',
        'a store is "initialised" by its first append; clear/delete on a never-initialised store is outside the statement',
        'pickle round trip = dumps, close the old store, loads (the ArrayPool save/close/open sequence)',
        'overwrite index restricted to the first and the last batch',
    ]
