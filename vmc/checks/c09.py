"""C09 MCMC kernels implement their algorithm and never leave the target's support.  Modes E + P.

(1) metropolis-scripted (mode E, vmc/explore.py): the log-target is the environment.  The k-th distinct
    point the kernel evaluates gets its answer through `ch.choose(len(ANSWERS), label)`; the complete tree of
    answer sequences of every (dim, sigma, n_samples, warm-up, seed, start value) configuration is executed on
    the real `elfi.methods.mcmc.metropolis`.  Leaf oracle: bit-identical with a 12-line reference Metropolis
    replaying the same RandomState(seed) stream (any of four legal draw orders), plus the direct statement
    invariants (count, every returned state is the start or a proposal with a finite answer, each state is the
    previous state or the proposal).
(2) metropolis-targets (mode P): real targets (smooth, hard boundaries, NaN / +inf regions), same oracle with
    the reference calling the same target, finite log-target of every returned state, seed determinism
    (independent of the global numpy generator).
(3) nuts-targets (mode P): count, seed determinism, finite log-target and finite coordinates of every state.
(3b) nuts-trajectories (mode E): NUTS's uniform draws (direction of every doubling, acceptance inside and between
    sub-trees) are the environment, answered from {0.25, 0.75}; complete trees of coin-flip sequences (one iteration,
    <= 3 doublings) and deviation-bounded trees (more iterations / doublings) on the real nuts().  Leaf oracle per
    iteration: every evaluated point is the next leapfrog step at one end of ONE trajectory through (previous state,
    drawn momentum), and the returned state is a point of it inside the slice.
(4) moments: fixed finite deterministic table (regression oracle, NOT exhaustive).
"""
import hashlib
import math

import numpy as np

from .. import explore
from ..canon import jsonable
from ..guard import guarded, elfi_site
from ..report import ok, bad
from ..ref import c09_ref as R

PID = 'C09'
LEVEL = 'model_checking'

INF = math.inf
NAN = math.nan
# answers, simplest first: finite values, then -inf, +inf, NaN.  Choice 0 is the default environment answer.
ALPHABETS = {
    'A7': [-1.0, 0.0, -3.0, 2.0, -INF, INF, NAN],
    # thorough only: also magnitudes at which exp() of the difference over/underflows
    'A9': [-1.0, 0.0, -3.0, 2.0, 800.0, -800.0, -INF, INF, NAN],
}
P0 = {1: [0.5], 2: [0.5, -1.0]}


def _sigma(key, dim):
    if key == 'h':
        return 0.5                                  # python scalar, broadcast
    if key == 'v':
        return np.array([2.0]) if dim == 1 else np.array([1.0, 2.0])
    if key == 'big':
        return np.array([5.0] * dim)
    raise KeyError(key)


def _fmt(a):
    return jsonable(list(a))


# =============================================================================== (1) scripted target
class _TooManyPoints(BaseException):
    """The kernel evaluated more distinct points than 1 + n_samples + warmup + slack (ends the run)."""


def _scripted_body(case):
    from elfi.methods.mcmc import metropolis
    dim, n, w, seed = case['dim'], case['n'], case['w'], case['seed']
    alph = ALPHABETS[case.get('alph', 'A7')]
    start = float(case.get('start', 0.0))
    sig = _sigma(case['sigma'], dim)
    n_steps = n + w

    def body(ch):
        memo = {}
        pts, ans, idx = [], [], []

        def target(x):
            # a log-target is a function of the point: re-evaluating a point gives the same answer; the k-th
            # *new* point gets the k-th scripted answer
            key = np.ascontiguousarray(x).tobytes()
            a = memo.get(key)
            if a is None:
                k = len(pts)
                if k == 0:
                    a = start
                    idx.append(-1)
                else:
                    if k > n_steps + 2:
                        raise _TooManyPoints()
                    c = ch.choose(len(alph), 'answer-%d' % k)
                    a = alph[c]
                    idx.append(c)
                memo[key] = a
                pts.append(np.array(x, dtype=float))
                ans.append(a)
            return a

        obs = {'pts': pts, 'ans': ans, 'idx': idx, 'got': None, 'exc': None}
        with np.errstate(all='ignore'):
            try:
                obs['got'] = metropolis(n, np.array(P0[dim]), target, sig, warmup=w, seed=seed)
            except _TooManyPoints:
                obs['exc'] = ('too-many-points', None, 'kernel evaluated more than %d distinct points' % (n_steps + 3))
            except Exception as e:  # behaviour of the implementation -> verdict with the answer sequence
                site = elfi_site(e.__traceback__)
                if site is None:
                    raise
                obs['exc'] = (type(e).__name__, site, repr(e)[:300])
        return obs
    return body


def _judge_scripted(case, obs, predrawn=None, stats=None):
    """Leaf oracle.  -> None | (signature, detail)."""
    dim, n, w, seed = case['dim'], case['n'], case['w'], case['seed']
    sig = _sigma(case['sigma'], dim)
    n_steps = n + w
    p0 = np.array(P0[dim])
    ans = obs['ans']
    info = {'answers': _fmt(ans), 'n_samples': n, 'warmup': w} if (obs['exc'] is not None or stats is None) else {}
    if obs['exc'] is not None:
        name, site, text = obs['exc']
        if name == 'too-many-points':
            return ('C09:metropolis:evaluates-more-points-than-proposals', dict(info, what=text))
        return ('C09:exception:%s@%s' % (name, site), dict(info, exception=text))
    got = np.asarray(obs['got'])
    if got.shape != (n, dim):
        info.update(answers=_fmt(ans), n_samples=n, warmup=w, returned=_fmt(got))
        return ('C09:metropolis:wrong-number-of-states', dict(info, shape=list(got.shape), expected=[n, dim]))
    pts = obs['pts']
    if len(pts) == 0 or pts[0].tobytes() != p0.tobytes():
        return ('C09:metropolis:start-not-evaluated-first', dict(info, answers=_fmt(ans)))

    # ---- fast path: bit-identical with the reference in draw order A (the order read from the implementation)
    Z, U = predrawn if predrawn is not None else R.predraw_A(seed, dim, n_steps)
    full = list(ans) + [NAN] * (n_steps + 1 - len(ans))     # a missing answer can only be one the kernel never asked
    states, props, acc, tie = R.metropolis_steps(p0, full, sig, Z, U)
    if tie:
        if stats is not None:
            stats['ties_unjudged'] += 1
        return None
    same_props = len(pts) == n_steps + 1 and all(pts[k + 1].tobytes() == props[k].tobytes() for k in range(n_steps))
    if same_props and got.tobytes() == states[w:].tobytes():
        if stats is not None:
            # kernel states / transitions seen (lock-step with the implementation: proposal k reveals state k-1)
            mask = 0
            tcur = -1
            key0 = stats['cfg']
            for k in range(n_steps):
                stats['states'].add((key0, k, mask, tcur))
                stats['edges'].add((key0, k, mask, tcur, obs['idx'][k + 1]))
                if acc[k]:
                    mask |= 1 << k
                    tcur = obs['idx'][k + 1]
            stats['states'].add((key0, n_steps, mask, tcur))
            stats['accepted'] += int(sum(acc))
            stats['rejected_nonfinite'] += sum(1 for k in range(n_steps) if not math.isfinite(full[k + 1]))
            stats['rejected_by_u'] += sum(1 for k in range(n_steps) if math.isfinite(full[k + 1]) and not acc[k])
            stats['outcomes'].add(got.tobytes())
        return None

    # ---- slow path: other legal draw orders
    for order in R.ORDERS[1:]:
        exp, eprops, tie = R.metropolis_ref(n, p0, full, sig, w, seed, order)
        if tie:
            return None
        if (got.tobytes() == exp.tobytes() and len(pts) == n_steps + 1
                and all(pts[k + 1].tobytes() == eprops[k].tobytes() for k in range(n_steps))):
            if stats is not None:
                stats['alt_draw_order'] += 1
                stats['outcomes'].add(got.tobytes())
            return None

    # ---- classify by the direct statement invariants (stream independent)
    info.update(answers=_fmt(ans), n_samples=n, warmup=w, returned=_fmt(got))
    info['reference'] = _fmt(states[w:])
    info['reference_accepts'] = [bool(a) for a in acc]
    info['uniforms'] = _fmt(U)
    info['points_evaluated'] = _fmt(pts)
    valid = {p0.tobytes()}
    invalid = set()
    for k in range(1, len(pts)):
        (valid if math.isfinite(ans[k]) else invalid).add(pts[k].tobytes())
    for i in range(n):
        b = got[i].tobytes()
        if b not in valid:
            if b in invalid:
                a = [ans[k] for k in range(1, len(pts)) if pts[k].tobytes() == b][0]
                kind = 'nan' if a != a else ('+inf' if a > 0 else '-inf')
                return ('C09:metropolis:returned-state-with-%s-log-target' % kind, dict(info, row=i))
            return ('C09:metropolis:state-neither-previous-nor-proposal', dict(info, row=i))
    for i in range(1, n):
        k = w + i + 1            # index of the point proposed at the step producing returned row i
        if got[i].tobytes() != got[i - 1].tobytes() and (k >= len(pts) or got[i].tobytes() != pts[k].tobytes()):
            return ('C09:metropolis:state-neither-previous-nor-proposal', dict(info, row=i))
    if len(pts) != n_steps + 1:
        return ('C09:metropolis:number-of-proposals', dict(info, evaluated=len(pts), expected=n_steps + 1))
    if not same_props:
        k = [k for k in range(n_steps) if pts[k + 1].tobytes() != props[k].tobytes()][0]
        # proposals agree up to step k-1.  If proposal k is (some earlier evaluated point) + sigma * z_k the kernel sits
        # on another state than the reference (an earlier accept decision differs); otherwise the proposal rule differs
        if any(np.allclose(c + sig * Z[k], pts[k + 1], rtol=0, atol=1e-9) for c in pts[:k + 1]):
            return ('C09:metropolis:accept-decision-differs-from-reference', dict(info, step=k))
        return ('C09:metropolis:proposal-not-previous-plus-sigma-normal', dict(info, step=k + 1))
    return ('C09:metropolis:accept-decision-differs-from-reference', info)


def _new_stats(case):
    import collections
    st = collections.Counter()
    st['states'] = set()
    st['edges'] = set()
    st['outcomes'] = set()
    st['cfg'] = (case['dim'], case['sigma'], case['n'], case['w'], case['seed'], case.get('start', 0.0),
                 case.get('alph', 'A7'))
    return st


@guarded('C09')
def run_mtree(case):
    """Complete tree of answer sequences (below case['root']) of one Metropolis configuration."""
    body = _scripted_body(case)
    prefix = list(case.get('root', [])) + [1]
    try:
        explore.determinism_selftest(body, prefix)
    except explore.ReplayDivergence:
        # the scripted target is pure python and deterministic, so two differing replays of the same seed and the
        # same answers are a behaviour of the kernel -- and determinism in the seed is part of this property
        r = run_mdet(dict(case, choices=prefix))
        if not r.get('viol'):
            raise                      # not reproducible: a harness problem, never a verdict
        r.update(witness_kind='mdet', witness_choices=prefix)
        return r
    predrawn = R.predraw_A(case['seed'], case['dim'], case['n'] + case['w'])
    stats = _new_stats(case)

    def check(obs, run):
        return _judge_scripted(case, obs, predrawn, stats)
    st = explore.explore(body, check, root=tuple(case.get('root', [])))
    leaves = st.get('complete', 0)
    res = ok(outcome=None, trivial=False,
             accepted=stats['accepted'], rejected_nonfinite=stats['rejected_nonfinite'],
             rejected_by_u=stats['rejected_by_u'], ties_unjudged=stats['ties_unjudged'],
             alt_draw_order=stats['alt_draw_order'], scripted_choice_points=st['choice_points'])
    res.update(evals=st['executions'], distinct=leaves, states=sorted(stats['states']),
               transitions=len(stats['edges']), validated=leaves, n_outcomes=len(stats['outcomes']),
               max_depth=st['max_depth'])
    if st['violations']:
        (sig, detail), choices = min(st['violations'],
                                     key=lambda vc: (len(vc[1]), sum(1 for c in vc[1] if c), vc[1]))
        res['viol'] = {'sig': sig, 'detail': jsonable(dict(detail, choices=choices,
                                                           n_violating_sequences=len(st['violations'])))}
        res['witness_choices'] = choices
    return res


@guarded('C09')
def run_mdet(case):
    """Two executions of the same seed and the same scripted answers must give the same chain."""
    body = _scripted_body(case)
    a = explore.run_once(body, list(case['choices'])).obs
    np.random.rand(3)                  # the global generator is not an input of the kernel
    b = explore.run_once(body, list(case['choices'])).obs
    if a['exc'] or b['exc']:
        return run_mseq(case)
    if np.asarray(a['got']).tobytes() != np.asarray(b['got']).tobytes() or \
            [p.tobytes() for p in a['pts']] != [p.tobytes() for p in b['pts']]:
        return bad('C09:metropolis:not-deterministic-in-seed',
                   {'answers': _fmt(a['ans']), 'first_run': _fmt(a['got']), 'second_run': _fmt(b['got']),
                    'first_points': _fmt(a['pts']), 'second_points': _fmt(b['pts'])})
    return ok(outcome='deterministic')


@guarded('C09')
def run_mseq(case):
    """Exactly one scripted answer sequence (replays, witnesses)."""
    run = explore.run_once(_scripted_body(case), list(case['choices']))
    v = _judge_scripted(case, run.obs)
    if v:
        return bad(v[0], v[1])
    return ok(outcome=np.asarray(run.obs['got']).tobytes().hex()[:32])


# =============================================================================== real targets
def t_norm(x):
    return -0.5 * (x @ x)                          # np.float64


def g_norm(x):
    return -x


def t_half(x):                                     # product of Exp(1) on the open positive orthant
    return -float(np.sum(x)) if np.all(x > 0) else -INF


def g_half(x):
    return -np.ones_like(x)


def t_box(x):                                      # uniform on (-1, 1)^d
    return 0.0 if np.all(np.abs(x) < 1) else -INF


def g_box(x):
    return np.zeros_like(x)


def t_normbox(x):                                  # N(0, I) truncated to (-0.5, 1.5)^d
    return -0.5 * float(x @ x) if np.all((x > -0.5) & (x < 1.5)) else -INF


def t_nanout(x):                                   # N(0, I) on x > -0.5, NaN outside
    return -0.5 * float(x @ x) if np.all(x > -0.5) else NAN


def g_nanboth(x):
    return -x if np.all(x > -0.5) else np.full_like(x, NAN)


def t_pinf(x):                                     # +inf region (a density singularity): never accepted
    return INF if np.all(x > 1.0) else -0.5 * float(x @ x)


TARGETS = {
    # name: (log-target, gradient, starts per dim)
    'norm': (t_norm, g_norm, {1: [[0.3], [-2.0]], 2: [[0.3, -0.6], [2.0, 2.0]]}),
    'half': (t_half, g_half, {1: [[0.4], [0.01]], 2: [[0.4, 1.5], [0.01, 0.02]]}),
    'box': (t_box, g_box, {1: [[0.2], [-0.99]], 2: [[0.2, -0.5], [0.99, 0.99]]}),
    'normbox': (t_normbox, g_norm, {1: [[0.2], [-0.49]], 2: [[0.2, 0.5], [1.49, -0.49]]}),
    'nanout': (t_nanout, g_norm, {1: [[0.2], [-0.49]], 2: [[0.2, 0.5], [-0.49, 3.0]]}),
    'nanboth': (t_nanout, g_nanboth, {1: [[0.2], [-0.49]], 2: [[0.2, 0.5], [-0.49, 3.0]]}),
    'pinf': (t_pinf, g_norm, {1: [[0.3], [0.99]], 2: [[0.3, 0.3], [0.99, 1.5]]}),
}


def _finite_target_violation(prefix, tname, chain):
    tfn = TARGETS[tname][0]
    for i, x in enumerate(chain):
        if not np.all(np.isfinite(x)):
            return bad('%s:returned-non-finite-coordinates' % prefix, {'row': i, 'state': _fmt(x)})
        with np.errstate(all='ignore'):
            t = float(tfn(x))
        if t != t or t == -INF:
            return bad('%s:returned-state-with-%s-log-target' % (prefix, 'nan' if t != t else '-inf'),
                       {'row': i, 'state': _fmt(x), 'log_target': jsonable(t)})
    return None


# =============================================================================== (2) Metropolis on real targets
@guarded('C09')
def run_mreal(case):
    from elfi.methods.mcmc import metropolis
    tname, dim, n, w, seed = case['target'], case['dim'], case['n'], case['w'], case['seed']
    tfn = TARGETS[tname][0]
    p0 = np.array(TARGETS[tname][2][dim][case.get('start', 0)], dtype=float)
    sig = _sigma(case['sigma'], dim)
    outside = [0]

    def counted(x):
        t = tfn(x)
        outside[0] += not math.isfinite(t)
        return t
    with np.errstate(all='ignore'):
        np.random.seed(12345)
        got = np.asarray(metropolis(n, p0.copy(), counted, sig, warmup=w, seed=seed))
        np.random.seed(54321)
        np.random.rand(7)
        again = np.asarray(metropolis(n, p0.copy(), tfn, sig, warmup=w, seed=seed))
    info = {'returned': _fmt(got)}
    if got.shape != (n, dim):
        return bad('C09:metropolis:wrong-number-of-states', dict(info, shape=list(got.shape), expected=[n, dim]))
    if got.tobytes() != again.tobytes():
        return bad('C09:metropolis:not-deterministic-in-seed', dict(info, second_run=_fmt(again)))
    v = _finite_target_violation('C09:metropolis', tname, got)
    if v:
        return v
    alt = 0
    with np.errstate(all='ignore'):
        for order in R.ORDERS:
            exp, tie = R.metropolis_ref_fn(n, p0, tfn, sig, w, seed, order)
            if tie:
                return ok(outcome='tie', trivial=True, ties_unjudged=1)
            if exp.tobytes() == got.tobytes():
                break
            alt = 1
        else:
            exp, _ = R.metropolis_ref_fn(n, p0, tfn, sig, w, seed, 'A')
            return bad('C09:metropolis:chain-differs-from-reference-on-real-target', dict(info, reference=_fmt(exp)))
    n_distinct = len({r.tobytes() for r in got})
    return ok(outcome=hashlib.md5(got.tobytes()).hexdigest() + str(got.shape), trivial=False,
              mreal_runs_that_moved=int(np.any(got != p0)), mreal_runs_with_repeated_state=int(n_distinct < n),
              mreal_proposals_outside_support=outside[0], alt_draw_order=alt)


# =============================================================================== (3) NUTS on real targets
@guarded('C09')
def run_nuts(case):
    from elfi.methods.mcmc import nuts
    tname, dim, seed = case['target'], case['dim'], case['seed']
    tfn, gfn, starts = TARGETS[tname]
    p0 = np.array(starts[dim][case.get('start', 0)], dtype=float)
    kw = {'n_adapt': case['n_adapt'], 'max_depth': case['max_depth'], 'seed': seed}
    if case.get('stepsize') is not None:
        kw['stepsize'] = case['stepsize']
    if case.get('target_prob') is not None:
        kw['target_prob'] = case['target_prob']
    n_iter = case['n_iter']
    calls = [0, 0]

    def counted(x):
        t = tfn(x)
        calls[0] += 1
        calls[1] += not math.isfinite(t)
        return t
    try:
        with np.errstate(all='ignore'):
            np.random.seed(12345)
            got = np.asarray(nuts(n_iter, p0.copy(), counted, gfn, **kw))
            np.random.seed(54321)
            np.random.rand(7)
            again = np.asarray(nuts(n_iter, p0.copy(), tfn, gfn, **kw))
            # the same target, but its gradient function keeps the arrays it hands out (a constant gradient stored
            # once, a memoised gradient): the sampler reads them, it does not own them
            memo = {}

            def keeping(x):
                k = np.asarray(x, dtype=float).tobytes()
                if k not in memo:
                    memo[k] = (np.array(x, dtype=float, copy=True), np.asarray(gfn(np.array(x, dtype=float, copy=True))))
                return memo[k][1]
            kept = np.asarray(nuts(n_iter, p0.copy(), tfn, keeping, **kw))
    except SystemExit as e:
        return bad('C09:nuts:SystemExit-instead-of-states', {'message': str(e)[:300]})
    info = {'returned': _fmt(got[:6])}
    if got.shape != (n_iter, dim):
        return bad('C09:nuts:wrong-number-of-states', dict(info, shape=list(got.shape), expected=[n_iter, dim]))
    if got.tobytes() != again.tobytes():
        return bad('C09:nuts:not-deterministic-in-seed', dict(info, second_run=_fmt(again[:6])))
    v = _finite_target_violation('C09:nuts', tname, got)
    if v:
        return v
    with np.errstate(all='ignore'):
        for pt, arr in memo.values():
            fresh = np.asarray(gfn(pt.copy()))
            if arr.shape != fresh.shape or not np.array_equal(arr, fresh, equal_nan=True):
                return bad('C09:nuts:gradient-array-handed-out-by-the-target-was-modified',
                           dict(info, point=_fmt(pt), gradient=_fmt(fresh), left_as=_fmt(arr)))
    if kept.shape != got.shape or kept.tobytes() != got.tobytes():
        return bad('C09:nuts:chain-differs-when-the-target-keeps-its-gradient-arrays', dict(info, other=_fmt(kept[:6])))
    return ok(outcome=hashlib.md5(got.tobytes()).hexdigest() + str(got.shape), trivial=False,
              nuts_gradient_arrays_kept=len(memo),
              nuts_runs_that_moved=int(np.any(got != p0)), nuts_distinct_states=len({r.tobytes() for r in got}),
              nuts_states=n_iter, nuts_target_calls=calls[0], nuts_target_calls_outside_support=calls[1])


# =============================================================================== (3b) NUTS trajectories (mode E)
# NUTS's coin flips (direction of each doubling, acceptance inside and between sub-trees) are the environment: every
# uniform draw is a choice from RAND_ANSWERS, momenta and the slice draw come from a real recorded stream.  Every
# complete tree of coin-flip sequences is executed on the real nuts(); per iteration the oracle checks what any
# No-U-Turn sampler does whatever its bookkeeping: the points it evaluates lie on ONE leapfrog trajectory through
# (previous state, drawn momentum), they form a contiguous stretch of it, and the returned state is a point of that
# stretch inside the slice.
RAND_ANSWERS = [0.25, 0.75]


def t_aniso(x):                                    # N(0, diag(1, 9))
    return -0.5 * float(x[0] ** 2 + (x[1] / 3.0) ** 2)


def g_aniso(x):
    return -np.array([x[0], x[1] / 9.0])


TARGETS['aniso'] = (t_aniso, g_aniso, {2: [[0.3, -2.0], [1.0, 4.0]]})


class _NutsEnv:
    """Stands in for the RandomState nuts() creates: uniform draws are choices, the rest is a real recorded stream."""

    def __init__(self, ch, seed):
        self.ch = ch
        self.real = np.random.RandomState(seed)
        self.iters = []          # per momentum draw: {'r0', 'exp', 'evals': [points]}
        self.other = 0

    def _u(self, size=None):
        if size not in (None, (), 1):
            self.other += 1
            return self.real.random_sample(size)
        return RAND_ANSWERS[self.ch.choose(len(RAND_ANSWERS), 'coin')]

    def rand(self, *shape):
        return self._u(shape if shape else None)

    def random_sample(self, size=None):
        return self._u(size)

    random = random_sample

    def uniform(self, low=0.0, high=1.0, size=None):
        return low + (high - low) * self._u(size)

    def _z(self, z):
        z = np.asarray(z, dtype=float)
        self.iters.append({'r0': z.copy().reshape(-1), 'exp': None, 'evals': []})
        return z

    def randn(self, *shape):
        return self._z(self.real.randn(*shape))

    def standard_normal(self, size=None):
        return self._z(self.real.standard_normal(size))

    def normal(self, loc=0.0, scale=1.0, size=None):
        return loc + scale * self._z(self.real.standard_normal(size))

    def exponential(self, scale=1.0, size=None):
        e = self.real.exponential(scale, size)
        if self.iters and self.iters[-1]['exp'] is None and size is None:
            self.iters[-1]['exp'] = float(e)
        return e

    def __getattr__(self, name):
        self.other += 1
        return getattr(self.real, name)


class _NpShim:
    """`np` as seen by elfi.methods.mcmc while a scripted run executes: np.random.RandomState(seed) -> the environment."""

    class _Rnd:
        def __init__(self, env):
            self._env = env

        def RandomState(self, *a, **kw):
            return self._env

        def __getattr__(self, name):
            return getattr(np.random, name)

    def __init__(self, env):
        self.random = _NpShim._Rnd(env)

    def __getattr__(self, name):
        return getattr(np, name)


def _orbit_body(case):
    import elfi.methods.mcmc as mcmc
    tfn, gfn, starts = TARGETS[case['target']]
    dim = case['dim']
    p0 = np.array(starts[dim][case.get('start', 0)], dtype=float)

    def body(ch):
        env = _NutsEnv(ch, case['seed'])

        def rec(x):
            if env.iters:
                env.iters[-1]['evals'].append(np.array(x, dtype=float).reshape(-1))

        def target(x):
            rec(x)
            return tfn(x)

        def grad(x):
            rec(x)
            return gfn(x)
        obs = {'got': None, 'exc': None, 'env': env}
        saved = mcmc.np
        mcmc.np = _NpShim(env)
        try:
            with np.errstate(all='ignore'):
                obs['got'] = np.asarray(mcmc.nuts(case['n_iter'], p0.copy(), target, grad, n_adapt=case['n_adapt'],
                                                  max_depth=case['max_depth'], stepsize=case['stepsize'],
                                                  seed=case['seed']), dtype=float)
        except Exception as e:  # noqa
            site = elfi_site(e.__traceback__)
            if site is None:
                raise
            obs['exc'] = (type(e).__name__, site, repr(e)[:300])
        finally:
            mcmc.np = saved
        return obs
    return body, p0


def _leapfrog(gfn, th, r, s):
    r = r + 0.5 * s * gfn(th)
    th = th + s * r
    r = r + 0.5 * s * gfn(th)
    return th, r


def _first_step(th0, r0, g0, p1):
    """all signed steps s with p1 == th0 + s*(r0 + s/2*g0) (a quadratic per coordinate: up to two in one dimension)"""
    best = None
    cands = []
    d = p1 - th0
    for j in range(len(th0)):
        a, b, c = 0.5 * g0[j], r0[j], -d[j]
        roots = []
        if abs(a) < 1e-300:
            if abs(b) > 1e-300:
                roots = [-c / b]
        else:
            disc = b * b - 4 * a * c
            if disc >= 0:
                q = math.sqrt(disc)
                roots = [(-b + q) / (2 * a), (-b - q) / (2 * a)]
        for s in roots:
            res = float(np.max(np.abs(th0 + s * (r0 + 0.5 * s * g0) - p1)))
            if res <= 1e-9 * (1.0 + float(np.max(np.abs(p1)))) and s != 0 and \
                    not any(abs(s - t) <= 1e-9 * abs(t) for t in cands):
                cands.append(s)
    return sorted(cands, key=abs)


def _judge_orbit(case, obs, p0, stats):
    if obs['exc']:
        return ('C09:exception:%s@%s' % obs['exc'][:2], {'exception': obs['exc'][2]})
    env, got = obs['env'], obs['got']
    tfn, gfn, _ = TARGETS[case['target']]
    n_iter, dim = case['n_iter'], case['dim']
    if got.shape != (n_iter, dim):
        return ('C09:nuts:wrong-number-of-states', {'shape': list(got.shape)})
    if len(env.iters) != n_iter or any(it['exp'] is None for it in env.iters) or env.other:
        stats['unjudged_random_stream_not_recognised'] += 1      # the kernel uses its generator in a way the environment
        return None                                               # does not model: nothing is claimed
    K = 2 ** (case['max_depth'] + 1)
    prev = p0
    for k, it in enumerate(env.iters):
        r0, pts = it['r0'], it['evals']
        info = {'iteration': k + 1, 'previous_state': _fmt(prev), 'momentum': _fmt(r0), 'returned': _fmt(got[k])}
        new = [p for p in pts if not np.array_equal(p, prev)]
        if not new:
            return ('C09:nuts:iteration-without-a-leapfrog-step', info)
        cands = _first_step(prev, r0, gfn(prev), new[0])
        if not cands:
            return ('C09:nuts:first-evaluated-point-is-not-a-leapfrog-step-from-the-current-state',
                    dict(info, point=_fmt(new[0])))
        verdicts = [_judge_iteration(case, it, prev, got[k].reshape(-1), abs(s_), K, info) for s_ in cands]
        good = [v for v in verdicts if not isinstance(v, tuple)]
        if not good:
            return verdicts[0]
        lo, hi, j, n_used = good[0]['ok']
        stats['iterations'] += 1
        stats['trajectory_points'] += n_used
        stats['max_trajectory'] = max(stats['max_trajectory'], n_used)
        stats['backward_stretch_ge_3'] += int(lo <= -3)
        stats['moved'] += int(j != 0)
        stats['outcomes'].add((k, lo, hi, j))
        prev = got[k].reshape(-1)
    return None


def _judge_iteration(case, it, prev, returned, eps, K, info):
    """one iteration against the leapfrog trajectory of step eps through (prev, momentum) -> violation | (lo, hi, j, n)"""
    tfn, gfn, _ = TARGETS[case['target']]
    r0, pts = it['r0'], it['evals']
    if True:
        orbit = {0: (prev, r0)}
        th, r = prev, r0
        for j in range(1, K + 1):
            th, r = _leapfrog(gfn, th, r, eps)
            orbit[j] = (th, r)
        th, r = prev, r0
        for j in range(1, K + 1):
            th, r = _leapfrog(gfn, th, r, -eps)
            orbit[-j] = (th, r)
        scale = 1.0 + max(float(np.max(np.abs(o[0]))) for o in orbit.values())

        def at(p, i):
            return i in orbit and float(np.max(np.abs(orbit[i][0] - p))) <= 1e-8 * scale
        # the trajectory grows by one leapfrog step at either end; a point evaluated again is a point already on it
        # (checked in this order because a trajectory may be periodic: equal positions at different indices)
        lo = hi = 0
        for p in pts:
            if any(at(p, i) for i in range(lo, hi + 1)):
                continue
            if at(p, hi + 1):
                hi += 1
            elif at(p, lo - 1):
                lo -= 1
            else:
                return ('C09:nuts:evaluated-point-is-not-the-next-leapfrog-step-of-the-trajectory',
                        dict(info, point=_fmt(p), stepsize=eps, trajectory_indices_so_far=[lo, hi]))
        js = [i for i in range(lo, hi + 1) if at(returned, i)]
        if not js:
            return ('C09:nuts:returned-state-is-not-a-point-of-the-trajectory', dict(info, indices=[lo, hi]))
        joint0 = float(tfn(prev)) - 0.5 * float(r0 @ r0)

        def in_slice(i):
            th_i, r_i = orbit[i]
            return i == 0 or float(tfn(th_i)) - 0.5 * float(r_i @ r_i) >= joint0 - it['exp'] - 1e-9 * (1.0 + abs(joint0))
        if not any(in_slice(i) for i in js):
            return ('C09:nuts:returned-state-outside-the-slice', dict(info, index=js[0], log_slice=joint0 - it['exp']))
        j = 0 if 0 in js else js[0]
        used = range(lo, hi + 1)
        return {'ok': (lo, hi, j, len(used))}


@guarded('C09')
def run_orbit_tree(case):
    import collections
    body, p0 = _orbit_body(case)
    stats = collections.Counter()
    stats['outcomes'] = set()

    def strip(obs):
        return obs
    explore.determinism_selftest(lambda ch: {'got': _fmt(body(ch)['got'])}, [1, 1])

    def check(obs, run):
        return _judge_orbit(case, obs, p0, stats)
    st = explore.explore(body, check, bound=case.get('bound'))
    res = ok(outcome=None, trivial=False, orbit_iterations=stats['iterations'],
             orbit_trajectory_points=stats['trajectory_points'],
             orbit_backward_stretch_ge_3=stats['backward_stretch_ge_3'], orbit_moved=stats['moved'],
             orbit_unjudged_random_stream_not_recognised=stats['unjudged_random_stream_not_recognised'],
             orbit_choice_points=st['choice_points'], orbit_trees=1, orbit_capped=int(st.get('capped', 0)))
    res.update(evals=st['executions'], distinct=st.get('complete', st['executions']),
               outcome_list=[hashlib.md5(repr((sorted(case.items()), o)).encode()).hexdigest() for o in stats['outcomes']],
               transitions=st['choice_points'], validated=st.get('complete', 0))
    res['max_traj'] = stats['max_trajectory']
    if st['violations']:
        (sig, detail), choices = min(st['violations'],
                                     key=lambda vc: (len(vc[1]), sum(1 for c in vc[1] if c), vc[1]))
        res['viol'] = {'sig': sig, 'detail': jsonable(dict(detail, choices=choices,
                                                           n_violating_sequences=len(st['violations'])))}
        res['witness_choices'] = choices
    return res


@guarded('C09')
def run_orbit_one(case):
    import collections
    body, p0 = _orbit_body(case)
    run = explore.run_once(body, list(case['choices']))
    stats = collections.Counter()
    stats['outcomes'] = set()
    v = _judge_orbit(case, run.obs, p0, stats)
    if v:
        return bad(v[0], v[1])
    return ok(outcome=hashlib.md5(np.asarray(run.obs['got']).tobytes()).hexdigest())


def _orbit_cases(ctx):
    q = ctx.quick
    base = ctx.seed * 1000
    cases = []
    for target, dim in (('norm', 1), ('norm', 2), ('aniso', 2)):
        for step in (0.1, 0.6):
            for seed in ([base, base + 1] if q else [base + k for k in range(4)]):
                for start in (0, 1):
                    if q and start == 1 and target != 'aniso':
                        continue
                    common = {'kind': 'orbit', 'target': target, 'dim': dim, 'stepsize': step, 'seed': seed,
                              'start': start, 'n_adapt': 0}
                    # complete trees: one iteration, up to three doublings
                    cases.append(dict(common, n_iter=1, max_depth=2))
                    if not q:
                        cases.append(dict(common, n_iter=1, max_depth=1))
                    # deeper / longer: at most `bound` coin flips differ from the default answer
                    cases.append(dict(common, n_iter=2, max_depth=2, bound=3 if q else 5))
                    cases.append(dict(common, n_iter=1, max_depth=3, bound=3 if q else 5))
                    if not q:
                        cases.append(dict(common, n_iter=3, max_depth=3, bound=3, n_adapt=1))
    return cases



# =============================================================================== (4) moments (regression oracle)
MOMENT_TARGETS = {
    # name: (target key, true mean, true variance per coordinate)
    'norm': ('norm', 0.0, 1.0),
    'half': ('half', 1.0, 1.0),
}


@guarded('C09')
def run_moments(case):
    from elfi.methods.mcmc import metropolis, nuts
    tkey, mu, var = MOMENT_TARGETS[case['target']]
    tfn, gfn, starts = TARGETS[tkey]
    dim, seed, n = case['dim'], case['seed'], case['n']
    p0 = np.array(starts[dim][0], dtype=float)
    with np.errstate(all='ignore'):
        if case['sampler'] == 'metropolis':
            chain = metropolis(n, p0, tfn, np.array([2.0] * dim) if dim == 1 else np.array([1.6] * dim),
                               warmup=n // 10, seed=seed)
        else:
            warm = n // 2
            chain = nuts(n + warm, p0, tfn, gfn, n_adapt=warm, seed=seed)[warm:]
    chain = np.asarray(chain)
    if chain.shape != (n, dim):
        return bad('C09:moments:%s:wrong-number-of-states' % case['sampler'], {'shape': list(chain.shape)})
    rows = []
    for j in range(dim):
        x = chain[:, j]
        m = float(x.mean())
        se_m = R.mcse(x)
        y = (x - m) ** 2
        v = float(y.mean())
        se_v = R.mcse(y)
        rows.append({'coord': j, 'mean': m, 'mcse_mean': se_m, 'var': v, 'mcse_var': se_v,
                     'ess': R.ess_geyer(x)})
        k = case.get('k', 5.0)
        if abs(m - mu) > k * se_m:
            return bad('C09:moments:%s:mean-off-by-more-than-%g-mcse' % (case['sampler'], k),
                       {'rows': rows, 'true_mean': mu})
        if abs(v - var) > k * se_v:
            return bad('C09:moments:%s:variance-off-by-more-than-%g-mcse' % (case['sampler'], k),
                       {'rows': rows, 'true_var': var})
    zmax = max(max(abs(r['mean'] - mu) / r['mcse_mean'], abs(r['var'] - var) / r['mcse_var']) for r in rows)
    return ok(outcome=hashlib.md5(chain.tobytes()).hexdigest(), trivial=False, moments_rows=1,
              moments_rows_beyond_3_mcse=int(zmax > 3))


RUNNERS = {'mtree': run_mtree, 'mseq': run_mseq, 'mdet': run_mdet, 'mreal': run_mreal, 'nuts': run_nuts, 'moments': run_moments,
           'orbit': run_orbit_tree, 'orbit1': run_orbit_one}


def replay(case):
    return RUNNERS[case['kind']](case)


# =============================================================================== enumeration
def _tree_cases(ctx):
    q = ctx.quick
    base = ctx.seed * 1000
    seeds = [base + k for k in range(4)]
    max_steps = 4 if q else 6
    cases = []
    for dim in (1, 2):
        for sk in ('h', 'v'):
            for w in (0, 1, 2):
                for n in range(1, max_steps - w + 1):
                    for s in (seeds if n + w < 6 else seeds[:1]):
                        for start in ((0.0,) if q else (0.0, -3.0)):
                            if start != 0.0 and n + w > 4:
                                continue
                            c = {'kind': 'mtree', 'dim': dim, 'sigma': sk, 'n': n, 'w': w, 'seed': s, 'start': start,
                                 'alph': 'A7'}
                            if n + w >= 5:      # split big trees below the first answer for the worker pool
                                cases += [dict(c, root=[a]) for a in range(len(ALPHABETS['A7']))]
                            else:
                                cases.append(c)
    if True:
        # larger alphabet (exp over/underflow magnitudes: a jump of the log-target beyond +-709 overflows np.exp) at
        # depth <= 3 (quick) / <= 4 (thorough)
        dmax = 3 if q else 4
        for dim in (1, 2):
            for w in (0, 1, 2):
                for n in range(1, dmax - w + 1):
                    for s in (seeds[:1] if q else seeds[:2]):
                        cases.append({'kind': 'mtree', 'dim': dim, 'sigma': 'v', 'n': n, 'w': w, 'seed': s,
                                      'start': 0.0, 'alph': 'A9'})
    return cases


def _mreal_cases(ctx):
    q = ctx.quick
    base = ctx.seed * 1000
    seeds = [base + k for k in range(4 if q else 12)]
    cases = []
    for t in ('norm', 'half', 'box', 'normbox', 'nanout', 'pinf'):
        for dim in (1, 2):
            for sk in ('h', 'v') if q else ('h', 'v', 'big'):
                for n in (1, 2, 5, 20) if q else (1, 2, 3, 5, 20, 60):
                    for w in (0, 1, 2, 5) if q else (0, 1, 2, 5, 17):
                        for st in (0,) if q else (0, 1):
                            for s in seeds:
                                cases.append({'kind': 'mreal', 'target': t, 'dim': dim, 'sigma': sk, 'n': n, 'w': w,
                                              'start': st, 'seed': s})
    return cases


def _nuts_cases(ctx):
    q = ctx.quick
    base = ctx.seed * 1000
    seeds = [base + k for k in range(4 if q else 8)]
    cases = []
    targets = ('norm', 'half', 'box', 'normbox', 'nanout') + (() if q else ('nanboth',))
    for t in targets:
        for dim in (1, 2):
            for n_iter in (1, 5, 20) if q else (1, 2, 3, 5, 20, 60):
                adapts = [None, 0, 1, n_iter // 2] if q else [None, 0, 1, n_iter // 2, n_iter - 1, n_iter, n_iter + 3]
                seen = set()
                for n_adapt in adapts:
                    if n_adapt in seen:
                        continue
                    seen.add(n_adapt)
                    for md in (0, 2, 5) if q else (0, 1, 2, 5, 8):
                        for st in (0,) if q else (0, 1):
                            for step, tp in ((None, None),) if q else ((None, None), (0.1, None), (1.5, None), (None, 0.9)):
                                # given initial stepsize / other target_prob: first start, 3 seeds only
                                if (step, tp) != (None, None) and st != 0:
                                    continue
                                for s in (seeds if (step, tp) == (None, None) else seeds[:3]):
                                    cases.append({'kind': 'nuts', 'target': t, 'dim': dim, 'n_iter': n_iter,
                                                  'n_adapt': n_adapt, 'max_depth': md, 'start': st, 'stepsize': step,
                                                  'target_prob': tp, 'seed': s})
    return cases


def _moment_cases(ctx):
    q = ctx.quick
    cases = []
    # a fixed table: the seeds do NOT move with VERIF_SEED (regression oracle, not a statistical test)
    for sampler in ('metropolis', 'nuts'):
        for t, dims in (('norm', (1, 2)),) if q else (('norm', (1, 2)), ('half', (1,))):
            for dim in dims:
                for s in range(2 if q else 8):
                    cases.append({'kind': 'moments', 'sampler': sampler, 'target': t, 'dim': dim, 'seed': s, 'n': 2000})
    return cases


def _record_tree(ctx, case, res, section):
    if res.get('viol') and 'witness_choices' in res:
        wcase = {k: v for k, v in case.items() if k != 'root'}
        wcase.update(kind=res.get('witness_kind', 'mseq'), choices=res['witness_choices'])
        case = wcase
    if 'evals' not in res:            # no tree was explored (exception escaped from the kernel / self-test verdict)
        ctx.record(case, res, section)
        return
    n_out = res.pop('n_outcomes', 0)
    ctx.extra['max_choice_depth'] = max(ctx.extra.get('max_choice_depth', 0), res.pop('max_depth', 0))
    ctx.record(case, res, section)
    key = (case['dim'], case['sigma'], case['n'], case['w'], case['seed'], case.get('start'), case.get('alph'),
           tuple(case.get('root', ())))
    for i in range(n_out):
        ctx.outcomes.add((key, i))
    ctx.count(scripted_distinct_chains=n_out, scripted_trees=1)


def run(ctx):
    from .. import par
    only = ctx.only

    def want(name):
        return only is None or name in only

    if want('metropolis-scripted'):
        cases = _tree_cases(ctx)

        def fn(case):
            return case, run_mtree(case)
        for i, (case, res) in enumerate(par.pmap(fn, cases, chunksize=1, ordered=True)):
            if i in (0, len(cases) - 1) or i % max(1, len(cases) // 4) == 0:
                ctx.add_sample({'case': case, 'answer_sequences': res.get('evals')}, key=('tree', i))
            _record_tree(ctx, case, res, 'metropolis-scripted')
    if want('metropolis-targets'):
        cases = _mreal_cases(ctx)
        ctx.run_cases(run_mreal, cases, 'metropolis-targets', sample_every=max(1, len(cases) // 3))
    if want('nuts-targets'):
        cases = _nuts_cases(ctx)
        ctx.run_cases(run_nuts, cases, 'nuts-targets', sample_every=max(1, len(cases) // 3))
    if want('nuts-trajectories'):
        cases = _orbit_cases(ctx)

        def fo(case):
            return case, run_orbit_tree(case)
        for i, (case, res) in enumerate(par.pmap(fo, cases, chunksize=1, ordered=True)):
            if res.get('viol') and 'witness_choices' in res:
                case = dict({k: v for k, v in case.items() if k != 'bound'}, kind='orbit1', choices=res['witness_choices'])
            ctx.extra['nuts_max_trajectory_points'] = max(ctx.extra.get('nuts_max_trajectory_points', 0),
                                                          res.pop('max_traj', 0) if isinstance(res, dict) else 0)
            if i % max(1, len(cases) // 3) == 0:
                ctx.add_sample({'case': case, 'coin_flip_sequences': res.get('evals')}, key=('orbit', i))
            ctx.record(case, res, 'nuts-trajectories')
    if want('moments'):
        cases = _moment_cases(ctx)
        ctx.run_cases(run_moments, cases, 'moments', chunksize=1)

    ctx.rule = (
        'metropolis-scripted: one case = the complete tree of scripted log-target answer sequences (alphabet listed in '
        'assumptions) of a (dim, sigma, n_samples, warm-up, seed, start value) configuration, every leaf one run of the '
        'real metropolis(); evaluations = runs, distinct_nontrivial = distinct answer sequences; states = distinct kernel '
        'states (configuration, step, set of accepted steps, current log-target), transitions = distinct (state, answer). '
        'metropolis-targets / nuts-targets: full product target x dim x configuration x start x seed, one case = one '
        'seeded run (executed twice for determinism); distinct by case content. nuts-trajectories: one case = the tree of '
        'coin-flip sequences of a (target, dim, stepsize, start, seed, n_iter, max_depth) configuration - complete for one '
        'iteration with max_depth <= 2, otherwise all sequences with at most `bound` non-default flips; evaluations = runs '
        'of the real nuts(). moments: fixed table.')
    ctx.assumptions += [
        'scripted answers: A7 = {-1, 0, -3, +2, -inf, +inf, NaN}, and A9 = A7 + {+800, -800} at <= 3 steps (thorough <= 4); '
        'chains of n_samples + warm-up <= %d steps, n_samples >= 1, warm-up 0..2, dim 1..2, sigma in {0.5 scalar, per-'
        'coordinate vector}; start value finite (the statement assumes a valid start)' % (4 if ctx.quick else 6),
        'the scripted log-target is a function of the point (a re-evaluated point gets the same answer; the k-th new '
        'point gets the k-th answer)',
        'reference = textbook random-walk Metropolis replaying RandomState(seed); accepted draw orders: (z,u) per step, '
        'u only when the answer is finite, (u,z) per step, all z then all u; comparison is bitwise',
        'a tie u == ratio (within 1e-12 relative) is left free by the statement: such runs are counted as '
        'ties_unjudged (expected 0) and not judged',
        '+inf log-target: never accepted by Metropolis (statement: "finite"); not constrained for NUTS',
        'n_samples = 0 / n_iter = 0 (empty request) is not explored',
        'real targets return scalars (float / np.float64) as the docstrings ask; size-1 array returns are not in the '
        'alphabet (numpy-2 float(array) drift at _build_tree_nuts belongs to the acquisition callers, C11)',
        'NUTS has no reference chain: count, seed determinism (incl. independence of the global numpy generator), '
        'finite coordinates and finite log-target of every returned state are decided on real seeded runs; '
        'nuts-trajectories adds what every No-U-Turn sampler satisfies whatever its bookkeeping: evaluated points extend '
        'one leapfrog trajectory (step size inferred from the first step of the iteration, identity mass matrix) by one '
        'step at either end, the returned state is a trajectory point with log joint >= log joint of the start minus the '
        'drawn exponential. Targets N(0,1), N(0,I2), N(0,diag(1,9)); given initial step 0.1 / 0.6; the generator nuts() '
        'creates is replaced through the module attribute np of elfi.methods.mcmc; a kernel that uses its generator in '
        'another way than (normal momenta, one exponential, scalar uniforms) is counted unjudged, not reported',
        'MOMENTS IS A REGRESSION ORACLE, NOT EXHAUSTIVE: fixed seeds 0..%d (independent of VERIF_SEED), 2000 kept '
        'iterations, N(0,1), N(0,I2)%s; mean and variance within 5 MCSE (reference ESS: direct autocovariance sums, '
        'Geyer initial positive sequence, capped at n); a statistical sub-claim cannot be decided by enumeration'
        % ((1, '') if ctx.quick else (7, ', Exp(1) on the half line')),
        'numpy.empty is pinned to zeros by the harness',
    ]
