"""C03 Compiled execution equals the dataflow meaning of the user's graph.  Mode P (programs).

All model graphs up to a node count are built on the real ElfiModel API with *term recorder*
operations (real signatures), every requested-output subset and with_values subset inside the
tier's bound is generated through model.generate, and the result is compared with an independent
reference interpreter (vmc/ref/c03_ref.py): value terms, observed twins, discrepancy observed
tuples, batch_size / random_state / meta exactly on declaring nodes, rejection of observed data
depending on stochastic nodes, and per-operation call counts.
"""
import itertools

import numpy as np

from .. import pin
from ..canon import digest
from ..guard import guarded, elfi_site
from ..report import ok, bad
from ..ref import c03_ref as R

PID = 'C03'
LEVEL = 'exploration'

CALLS = {}
OUTCOMES = None      # set of outcome digests collected by the chunk runner


def _bump(name):
    CALLS[name] = CALLS.get(name, 0) + 1


def _norm(x):
    """Normalise a recorded value into a reference term."""
    if isinstance(x, np.random.RandomState):
        return 'RS'
    if isinstance(x, dict):
        return 'META'
    if isinstance(x, (tuple, list)):
        return tuple(_norm(y) for y in x)
    if isinstance(x, np.generic):
        return x.item()
    return x


def mk_op(name, kind, npos, named, meta):
    allowed = set(named) | ({'meta'} if meta else set())

    def rec(args, kw):
        _bump(name)
        return (name, tuple(args), tuple(sorted(kw.items())))
    if kind in 'OM':
        def op(*args, **kw):
            if len(args) != npos or set(kw) != allowed:
                raise TypeError('bad call of %s: %d positional, keywords %r' % (name, len(args), sorted(kw)))
            return rec(args, kw)
    elif kind == 'S':
        def op(*args, batch_size, random_state, **kw):
            if len(args) != npos or set(kw) != allowed:
                raise TypeError('bad call of %s' % name)
            return rec(args, dict(kw, batch_size=batch_size, random_state=random_state))
    elif kind == 'D':
        def op(*args, observed, **kw):
            if len(args) != npos or set(kw) != allowed:
                raise TypeError('bad call of %s' % name)
            return rec(args, dict(kw, observed=observed))
    op.__name__ = 'op_' + name
    return op


class Dist:
    def __init__(self, name, npos):
        self.name = name
        self.npos = npos

    def rvs(self, *params, size=1, random_state=None):
        if len(params) != self.npos:
            raise TypeError('bad call of %s' % self.name)
        _bump(self.name)
        return (self.name, tuple(params), (('batch_size', size[0]), ('random_state', random_state)))


def has_explicit_variant(prog):
    return any(kind in 'OS' and len(pos) >= 2 for _, kind, pos, _, _, _ in prog)


def has_meta_false_variant(prog):
    return any(kind in 'OSD' and not meta for _, kind, _, _, _, meta in prog)


def build(prog, decl='ctor'):
    """decl='ctor': positional parents through the node constructor (declared order = argument order);
    decl='reversed': Operation/Simulator nodes with >= 2 positional parents are created without parents and their
    positional edges are declared one by one with explicit indices, highest index first (model.add_edge(p, c, idx))."""
    import elfi
    m = elfi.ElfiModel(name='m')
    for name, kind, pos, named, obs, meta in prog:
        explicit = decl == 'reversed' and kind in 'OS' and len(pos) >= 2
        # decl='meta-false': nodes that do not use run metadata say so explicitly (node.uses_meta = False, what the
        # public setter writes after a declaration is withdrawn) instead of leaving the flag absent
        ps = [] if explicit else [m[p] for p in pos]
        kw = dict(model=m, name=name)
        named_kws = [k for k, _ in named]
        if kind == 'C':
            node = elfi.Constant(R.const_term(name), **kw)
        elif kind == 'O':
            node = elfi.Operation(mk_op(name, 'O', len(pos), named_kws, meta), *ps, **kw)
        elif kind == 'P':
            node = elfi.Prior(Dist(name, len(ps)), *ps, **kw)
        elif kind == 'S':
            node = elfi.Simulator(mk_op(name, 'S', len(pos), named_kws, meta), *ps,
                                  observed=(R.obs_term(name) if obs else None), **kw)
        elif kind == 'M':
            node = elfi.Summary(mk_op(name, 'M', len(ps), named_kws, meta), *ps,
                                observed=(R.obs_term(name) if obs else None), **kw)
        elif kind == 'D':
            node = elfi.Discrepancy(mk_op(name, 'D', len(ps), named_kws, meta), *ps, **kw)
        if explicit:
            for idx in reversed(range(len(pos))):
                m.add_edge(pos[idx], name, idx)
        for k, p in named:
            m.add_edge(p, name, k)
        if meta:
            node.uses_meta = True
        elif decl == 'meta-false' and kind in 'OSD':
            node.uses_meta = True
            node.uses_meta = False
    return m


def judge(prog, outs, supplied, bs, model=None, decl='ctor'):
    """-> None or (signature, detail)."""
    ref = R.Ref(prog, bs)
    bad_obs = ref.bad_observed()
    try:
        exp_vals, exp_calls, needed_obs = ref.evaluate(outs, supplied)
        exp = 'value'
    except R.Reject as e:
        exp, exp_vals, exp_calls = 'reject', None, None
    m = model if model is not None else build(prog, decl)
    CALLS.clear()
    wv = {n: R.given_term(n) for n in supplied} or None
    got_exc = None
    try:
        res = m.generate(bs, list(outs), with_values=wv, seed=1)
        got = 'value'
    except Exception as e:  # any exception is a rejection
        got, got_exc = 'reject', e
    calls = dict(CALLS)
    what = {'prog': prog, 'outputs': outs, 'with_values': supplied, 'bs': bs, 'decl': decl}
    if exp == 'reject':
        if got == 'value':
            return ('C03:observed-data-depends-on-stochastic-node-but-evaluated', what)
        return None
    if got == 'reject':
        if bad_obs and supplied:
            # the stochastic-dependence check is made when the graph is compiled for the requested outputs, before the
            # supplied values are known: rejecting is allowed when the request needs such observed data unless values
            # are supplied.  Observed data behind a GIVEN observation, or not needed for the outputs at all, is no reason.
            try:
                R.Ref(prog, bs).evaluate(outs, [])
            except R.Reject:
                return None
        site = elfi_site(got_exc.__traceback__) or 'harness'
        return ('C03:valid-graph-rejected:%s@%s' % (type(got_exc).__name__, site),
                dict(what, error=repr(got_exc)[:300]))
    if OUTCOMES is not None:
        OUTCOMES.add(digest(sorted((o, repr(_norm(res[o]))) for o in outs if o in res)))
    for o in outs:
        if o not in res:
            return ('C03:requested-output-missing', dict(what, output=o))
        g = _norm(res[o])
        if g != exp_vals[o]:
            return ('C03:value-differs-from-dataflow-meaning', dict(what, output=o, got=repr(g)[:600],
                                                                  expected=repr(exp_vals[o])[:600]))
    for n in set(calls) | set(exp_calls):
        if calls.get(n, 0) != exp_calls.get(n, 0):
            cls = 'ran-more-than-once' if calls.get(n, 0) > max(1, exp_calls.get(n, 0)) else (
                'unneeded-operation-ran' if calls.get(n, 0) > exp_calls.get(n, 0) else 'needed-operation-did-not-run')
            return ('C03:call-count:' + cls, dict(what, node=n, ran=calls.get(n, 0), expected=exp_calls.get(n, 0)))
    return None


def out_wv_combos(prog, mode):
    outs_all = R.output_names(prog)
    names = [r[0] for r in prog]
    if mode == 'full':
        for outs in R.subsets(outs_all, min_size=1):
            for sup in R.subsets(names):
                yield outs, sup
    elif mode == 'medium':     # singletons, pairs, all; with_values of size <= 1
        seen = set()
        cands = list(R.subsets(outs_all, max_size=2, min_size=1)) + [outs_all]
        for outs in cands:
            if tuple(outs) in seen:
                continue
            seen.add(tuple(outs))
            for sup in R.subsets(names, max_size=1):
                yield outs, sup
    else:                      # light: singletons + all; with_values size <= 1
        cands = [[o] for o in outs_all] + ([outs_all] if len(outs_all) > 1 else [])
        for outs in cands:
            for sup in R.subsets(names, max_size=1):
                yield outs, sup


@guarded('C03')
def run_chunk(case):
    """A slice of the program enumeration; every (outputs, with_values) combination per program."""
    global OUTCOMES
    OUTCOMES = set()
    gen = R.programs(case['n'], case['max_parents'], case['max_named'], case['meta'])
    progs = itertools.islice(gen, case['lo'], case['hi'])
    n = 0
    nprog = 0
    classes = set()
    with pin.pinned(0):
        for prog in progs:
            nprog += 1
            decls = ['ctor'] + (['reversed'] if has_explicit_variant(prog) else []) + \
                (['meta-false'] if (has_meta_false_variant(prog) and case['n'] <= 3) else [])
            for decl in decls:
                model = build(prog, decl)
                for outs, sup in out_wv_combos(prog, case['mode'] if decl == 'ctor' else 'light'):
                    for bs in case['bss']:
                        n += 1
                        v = judge(prog, outs, sup, bs, model=model, decl=decl)
                        if v:
                            r = bad(v[0], v[1])
                            r['evals'] = n
                            return r
            classes.add(''.join(r[1] for r in prog))
    r = ok(outcome=None, programs=nprog)
    r.update(evals=n, distinct=n, kinds=sorted(classes), outcome_list=sorted(OUTCOMES)[:20000])
    OUTCOMES = None
    return r


@guarded('C03')
def run_single(case):
    prog = [tuple(tuple(x) if isinstance(x, list) else x for x in r) for r in case['prog']]
    prog = [(r[0], r[1], tuple(r[2]), tuple(tuple(x) for x in r[3]), bool(r[4]), bool(r[5])) for r in prog]
    with pin.pinned(0):
        v = judge(prog, list(case['outputs']), list(case['with_values']), case.get('bs', 2), decl=case.get('decl', 'ctor'))
    return bad(v[0], v[1]) if v else ok()


# fixed family of larger shapes (layer iii)
def family():
    P, S, M, D, O, C = 'PSMDOC'
    F = []
    F.append([('n2', P, (), (), False, False), ('n0', S, ('n2',), (), True, False), ('n3', M, ('n0',), (), False, False),
              ('n1', D, ('n3',), (), False, False)])                                             # chain
    F.append([('n2', P, (), (), False, False), ('n0', P, ('n2',), (), False, False), ('n3', S, ('n0', 'n2'), (), True, False),
              ('n1', M, ('n3',), (), False, False), ('n5', M, ('n3',), (), False, False),
              ('n4', D, ('n5', 'n1'), (), False, True)])                                         # two summaries, meta
    F.append([('n2', C, (), (), False, False), ('n0', P, ('n2',), (), False, False), ('n3', P, ('n2',), (), False, False),
              ('n1', S, ('n3', 'n0'), (('kw_n2', 'n2'),), True, True), ('n5', M, ('n1',), (), False, False),
              ('n4', D, ('n5',), (), False, False)])                                             # shared constant, named edge
    F.append([('n2', P, (), (), False, False), ('n0', S, ('n2',), (), True, False), ('n3', O, ('n0',), (), False, False),
              ('n1', M, ('n3',), (), False, False), ('n5', D, ('n1',), (), False, False)])      # operation between sim and summary
    F.append([('n2', P, (), (), False, False), ('n0', S, ('n2',), (), True, False), ('n3', M, ('n0',), (), True, False),
              ('n1', M, ('n0', 'n3'), (), False, False), ('n5', D, ('n1', 'n3'), (), False, False),
              ('n4', O, ('n5',), (), False, False)])                                             # diamond, given summary obs
    F.append([('n2', P, (), (), False, False), ('n0', S, ('n2',), (), False, False), ('n3', M, ('n0',), (), False, False),
              ('n1', D, ('n3',), (), False, False)])                                             # unobserved simulator
    F.append([('n2', P, (), (), False, False), ('n0', S, ('n2',), (), True, False), ('n3', M, ('n0', 'n2'), (), False, False),
              ('n1', D, ('n3',), (), False, False)])                                             # summary fed by a prior
    return F


# ---------------------------------------------------------------- run metadata with several batches in flight
def op_meta_index(t, meta):
    return np.full(len(t), meta['batch_index'], dtype=float)


def op_meta_tag(t, meta):
    return np.array([hash((meta['model_name'], meta['master_seed'])) % 1000] * len(t), dtype=float)


def op_times10(a):
    return 10.0 * a


def sim_plus(t, batch_size=1, random_state=None):
    return np.asarray(t, dtype=float) + random_state.randint(0, 3, size=batch_size)


def _meta_model():
    import elfi
    m = elfi.ElfiModel(name='c03meta')
    t = elfi.Prior('randint', 0, 5, model=m, name='t')
    A = elfi.Operation(op_meta_index, t, model=m, name='A')
    A.uses_meta = True
    G = elfi.Operation(op_meta_tag, t, model=m, name='G')
    G.uses_meta = True
    elfi.Operation(op_times10, A, model=m, name='B')
    elfi.Simulator(sim_plus, t, model=m, name='Y')
    return m


@guarded('C03')
def run_pipeline(case):
    """Batches are loaded (metadata, generator) when they are submitted and executed later: whatever the order of
    submit / wait calls, batch i is computed with the metadata of batch i and equals batch i computed alone."""
    import elfi
    from elfi.model.elfi_model import ComputationContext
    from .. import models
    models.native_client()
    bs, seed = case['bs'], case['seed']
    names = ['A', 'B', 'G', 'Y', 't']
    with pin.pinned(0):
        bh = elfi.client.BatchHandler(_meta_model(), context=ComputationContext(batch_size=bs, seed=seed),
                                      output_names=names)
        got = {}
        for op in case['ops']:
            if op == 's':
                bh.submit()
            else:
                batch, i = bh.wait_next()
                got[i] = {k: np.asarray(batch[k], dtype=float).copy() for k in names}
        n = 0
        for i, b in sorted(got.items()):
            n += 1
            alone = elfi.client.BatchHandler(_meta_model(), context=ComputationContext(batch_size=bs, seed=seed),
                                             output_names=names).compute(i)
            what = {'case': case, 'batch': i}
            if not np.array_equal(b['A'], np.full(bs, float(i))) or not np.array_equal(b['B'], np.full(bs, 10.0 * i)):
                return bad('C03:run-metadata-of-another-batch',
                           dict(what, batch_index_seen_by_the_node=b['A'].tolist(), downstream=b['B'].tolist()))
            for k in names:
                if not np.array_equal(b[k], np.asarray(alone[k], dtype=float)):
                    return bad('C03:pipelined-batch-differs-from-the-batch-computed-alone',
                               dict(what, node=k, got=b[k].tolist(), alone=np.asarray(alone[k]).tolist()))
    r = ok(outcome=digest(sorted((i, b['Y'].tolist()) for i, b in got.items())), pipelined_batches=n)
    r.update(evals=1, distinct=1)
    return r


def pipeline_cases(q):
    seqs = []

    def rec(prefix, sub, wait):
        if prefix and sub == wait:
            seqs.append(prefix)
        if len(prefix) >= (6 if q else 8):
            return
        if sub - wait < 3:
            rec(prefix + 's', sub + 1, wait)
        if wait < sub:
            rec(prefix + 'w', sub, wait + 1)
    rec('', 0, 0)
    return [{'kind': 'pipeline', 'ops': sq, 'bs': bs, 'seed': sd} for sq in seqs for bs in (1, 2) for sd in (0, 3)]


RUNNERS = {'chunk': run_chunk, 'single': run_single, 'pipeline': run_pipeline}


def replay(case):
    return RUNNERS[case['kind']](case)


def _count(n, mp, mn, meta):
    return sum(1 for _ in R.programs(n, mp, mn, meta))


def run(ctx):
    q = ctx.quick
    layers = []
    if q:
        layers += [dict(n=1, max_parents=3, max_named=3, meta=True, mode='full', bss=[1, 2]),
                   dict(n=2, max_parents=3, max_named=3, meta=True, mode='full', bss=[2]),
                   dict(n=3, max_parents=2, max_named=1, meta=False, mode='light', bss=[2])]
    else:
        layers += [dict(n=1, max_parents=3, max_named=3, meta=True, mode='full', bss=[1, 2, 3]),
                   dict(n=2, max_parents=3, max_named=3, meta=True, mode='full', bss=[1, 2]),
                   dict(n=3, max_parents=3, max_named=3, meta=True, mode='medium', bss=[2]),
                   dict(n=3, max_parents=2, max_named=1, meta=False, mode='full', bss=[2]),
                   dict(n=4, max_parents=2, max_named=0, meta=False, mode='light', bss=[2]),
                   dict(n=4, max_parents=1, max_named=1, meta=False, mode='light', bss=[2])]
    cases = []
    total_programs = 0
    for L in layers:
        tot = _count(L['n'], L['max_parents'], L['max_named'], L['meta'])
        total_programs += tot
        step = max(1, min(400, tot // 64 + 1))
        for lo in range(0, tot, step):
            cases.append(dict(L, kind='chunk', lo=lo, hi=min(tot, lo + step)))
        ctx.extra.setdefault('layers', []).append(dict(L, programs=tot))

    def post(case, r):
        if r.get('viol') and isinstance(r['viol'].get('detail'), dict) and 'prog' in r['viol']['detail']:
            d = r['viol']['detail']
            return {'kind': 'single', 'prog': d['prog'], 'outputs': d['outputs'], 'with_values': d['with_values'],
                    'bs': d['bs'], 'decl': d.get('decl', 'ctor')}
        return case
    from .. import par

    def fn(case):
        return case, run_chunk(case)
    for i, (case, r) in enumerate(par.pmap(fn, cases, chunksize=1, ordered=True)):
        ctx.record(post(case, r), r, 'layer-n%d-%s' % (case['n'], case['mode']))
    # layer iii: fixed family of 4-6 node shapes x every output subset x with_values subsets <= 2
    fam = family()
    singles = []
    for prog in fam:
        outs_all = R.output_names(prog)
        names = [r[0] for r in prog]
        for outs in R.subsets(outs_all, max_size=(2 if q else None), min_size=1):
            for sup in R.subsets(names, max_size=(1 if q else 2)):
                singles.append({'kind': 'single', 'prog': prog, 'outputs': outs, 'with_values': sup, 'bs': 2})
    ctx.run_cases(run_single, singles, 'family', sample_every=max(1, len(singles) // 4))
    pc = pipeline_cases(q)
    ctx.run_cases(run_pipeline, pc, 'pipelined-metadata')
    ctx.extra['programs'] = total_programs + len(fam)
    ctx.rule = ('programs: every creation sequence of <= n nodes over kinds {Constant, Operation, Prior, Simulator, '
                'Summary, Discrepancy}, ordered parent tuples among earlier nodes, positional/named edge styles, '
                'observation given or not, uses_meta on or off (layers listed in coverage.layers); per program every '
                '(requested outputs incl. observed twins) x (with_values) combination of the layer mode; evaluations = '
                'generate() calls compared with the reference interpreter; distinct by construction')
    ctx.assumptions += [
        'a node has at most one edge from the same parent (the model graph is a simple digraph)',
        'named edges only into Operation/Simulator/Summary nodes (Prior parameters are documented positional-only; '
        'the order of named parents inside a discrepancy\'s observed tuple is not defined by the statement)',
        'uses_meta only on Operation/Simulator/Discrepancy nodes (whether the observed twin of a summary receives '
        'meta is not defined by the statement)',
        'a non-observable parent contributes its value to an observed twin; any exception counts as rejection; a graph is '
        'to be rejected exactly when observed data NEEDED for the requested outputs depends on a stochastic node '
        '(nothing behind a given observation is needed); only when values are supplied through with_values both '
        'rejecting (the check is made at compile time, before the values are known) and evaluating are accepted',
        'pipelined-metadata: one model with two metadata-using operations, every sequence of submit / wait_next calls on a '
        'BatchHandler (in-process client, at most 3 batches in flight, all batches waited for) up to length %d: every '
        'batch must see its own batch index and equal the batch computed alone' % (6 if q else 8),
        'node names are chosen so that creation order differs from name order',
        'edge declaration: positional parents through the constructor, and (Operation/Simulator nodes with >= 2 positional '
        'parents) additionally one by one with explicit indices in descending order via model.add_edge; run-metadata '
        'declaration: absent, True, and explicitly withdrawn (uses_meta = True then False)',
    ]
