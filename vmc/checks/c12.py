"""C12 Distance nodes compute the stated metric; adaptive scales ignore batching.  Modes P + H.

Sections
  distance  (P): every (path, summary layout, observed form, observation, metric, batch size, dtype) inside the
                 tier's bound is built as a real model with a real elfi.Distance node; the runner then pushes every
                 batch of an enumerated batch list (cyclic windows over *all* rows of grid**m, plus the single batch
                 of all rows) through model.generate(with_values=...) and compares with one
                 scipy.spatial.distance.<metric>(u, v, ...) call per row.  path 'inject': summary batches injected,
                 observed values set on the summary nodes; path 'derived': a simulator batch is injected and real
                 summary functions slice it, observed summaries are derived by elfi from the observed data row.
  partition (H): for every data set of n rows over a grid (columns non-constant) and every composition of n into
                 consecutive add_data calls on a real AdaptiveDistance node (fresh, after an earlier completed round,
                 after an aborted round): after every call state['scale'] == np.std(rows added so far this round).
  rounds    (H): BFS over round histories on the real node with canonical-state merging.  Operations:
                 round(data set, composition) = add_data calls + update_distance, abort(rows) = add_data +
                 init_adaptation_round, reset = init_state.  Every transition from every reachable state is executed
                 and checked: scales, w[-1] == 1/scale, node output through model.generate has one more column,
                 earlier columns bit-identical to before, newest == Euclid((s-obs)/scale), a probe round afterwards
                 sees only its own rows.
  seqs      (H): the same without state merging (all operation sequences to a depth over a smaller family); the
                 set of observed outputs must equal that of the merged exploration (merging hides nothing).
  sampler      : small confirmation of the sampler-level corollary (adaptive Rejection and AdaptiveDistanceSMC
                 return discrepancies that are the newest distance of the returned rows).  The exhaustive version
                 is part of C01.
"""
import itertools
from functools import partial

import numpy as np

from .. import models
from .. import par
from ..canon import digest
from ..guard import guarded
from ..report import ok, bad
from ..ref import c12_ref as R

PID = 'C12'
LEVEL = 'model_checking'

RTOL_DIST = 1e-12     # cdist (C loop) vs scipy row function (numpy): algebraically equal formulas, small integers
RTOL_SCALE = 1e-10    # batched Welford vs two-pass np.std
ATOL_SCALE = 1e-12


# ---------------------------------------------------------------- operations of the toy models (module level)
def sim_none(batch_size=1, random_state=None):
    return np.zeros((batch_size, 1))


def ident(y):
    return y


def take(y, kind='s', lo=0):
    """Real summary function of the 'derived' path: a column slice of the simulator output."""
    if kind == 's':
        return y[:, lo]
    return y[:, lo:lo + R.WIDTH[kind]]


_ARG_SHAPES = []


def user_vec(X, Y):
    """User distance with the documented signature distance(X (n x m), Y (1 x m)) -> (n,)."""
    _ARG_SHAPES.append((np.shape(X), np.shape(Y)))
    X = np.asarray(X, dtype=float)
    Y = np.asarray(Y, dtype=float)
    return (np.abs(X - Y) * (1.0 + np.arange(X.shape[-1]))).sum(axis=-1)


def user_col(X, Y):
    """User distance returning an (n,1) column, like cdist does."""
    _ARG_SHAPES.append((np.shape(X), np.shape(Y)))
    X = np.asarray(X, dtype=float)
    Y = np.asarray(Y, dtype=float)
    return (np.max(np.abs(X - Y), axis=-1) + 0.5).reshape(-1, 1)


USER = {'user_vec': user_vec, 'user_col': user_col}


def _dtype(name):
    return {'float': float, 'int': np.int64, 'bool': np.bool_}[name]


# ================================================================ section P: distance nodes
def _build_distance(case):
    import elfi
    layout = case['layout']
    m = R.n_cols(layout)
    obs_row = [float(x) for x in R.OBS[case['obs']][:m]]
    name, kwb, _, _ = R.METRICS[case['metric']]
    dist = name if name is not None else USER[case['metric']]
    model = elfi.ElfiModel(name='c12')
    if case['path'] == 'inject':
        Y = elfi.Simulator(sim_none, model=model, name='Y', observed=np.zeros((1, 1)))
        obs = R.observed_values(layout, obs_row, case['obsform'])
        S = [elfi.Summary(ident, Y, model=model, name='S%d' % i, observed=obs[i]) for i in range(len(layout))]
    else:
        Y = elfi.Simulator(sim_none, model=model, name='Y', observed=np.array([obs_row], dtype=float))
        S = [elfi.Summary(partial(take, kind=c, lo=lo), Y, model=model, name='S%d' % i)
             for i, (c, (lo, _)) in enumerate(zip(layout, R.col_ranges(layout)))]
    elfi.Distance(dist, *S, model=model, name='d', **kwb(m))
    return model, obs_row


def _distance_batches(case):
    if 'rows' in case:
        return [case['rows']]
    m = R.n_cols(case['layout'])
    rows = R.all_rows(case['grid'], m)
    if case['bs'] == 'all':
        return [rows]
    bs = int(case['bs'])
    return R.window_batches(rows, bs, case['stride'] or bs)


@guarded('C12')
def run_distance(case):
    model, obs_row = _build_distance(case)
    layout, m = case['layout'], R.n_cols(case['layout'])
    kwclass = R.METRICS[case['metric']][3]
    dt = _dtype(case.get('dtype', 'float'))
    seen, outs, n = set(), [], 0
    for rows in _distance_batches(case):
        bs = len(rows)
        if case['path'] == 'inject':
            wv = {'S%d' % i: a for i, a in enumerate(R.split_columns(layout, rows, dt))}
        else:
            wv = {'Y': np.array(rows, dtype=dt).reshape(bs, m)}
        del _ARG_SHAPES[:]
        got = model.generate(bs, ['d'], with_values=wv)['d']
        n += 1
        seen.add(tuple(map(tuple, rows)))
        sub = dict({k: v for k, v in case.items() if k not in ('grid', 'stride', 'bs')}, rows=rows)
        exp = R.row_distances(case['metric'], rows, obs_row)
        if not isinstance(got, np.ndarray) or got.shape != (bs,):
            return bad('C12:distance:output-shape-not-(batch_size,)',
                       {'witness_case': sub, 'shape': list(np.shape(got)), 'expected_shape': [bs]})
        if kwclass == 'callable' and any(s != ((bs, m), (1, m)) for s in _ARG_SHAPES):
            return bad('C12:distance:callable-argument-shapes',
                       {'witness_case': sub, 'shapes': [list(map(list, s)) for s in _ARG_SHAPES]})
        if not np.allclose(got, exp, rtol=RTOL_DIST, atol=1e-15):
            return bad('C12:distance:wrong-value:' + kwclass,
                       {'witness_case': sub, 'got': got.tolist(), 'scipy_row_by_row': exp.tolist()})
        outs.append(got)
    r = ok(outcome=digest(outs), batches=n, bs1=int(case.get('bs') == 1),
           scalar_only=int(set(layout) == {'s'}), mixed_widths=int(len(set(layout)) > 1),
           with_kwargs=int(kwclass not in ('plain', 'callable')), callable_metric=int(kwclass == 'callable'))
    r.update(evals=n, distinct=len(seen))
    return r


def distance_cases(ctx):
    q = ctx.quick
    cases = []
    metrics = list(R.METRICS)
    combos = [('inject', 'row'), ('inject', 'flat'), ('derived', 'row')]
    for layout in R.layouts(3):
        m = R.n_cols(layout)
        if q:
            grid = [-1, 0, 2] if m <= 3 else [-1, 2]
        else:
            grid = [-1, 0, 2, 3] if m <= 3 else [-1, 0, 2]
        for path, form in combos:
            # observation C is not integer-valued: integer / boolean typed simulated summaries must not truncate it
            combos_od = [('A', 'float'), ('C', 'int')] if q else [('A', 'float'), ('B', 'int'), ('C', 'int'), ('C', 'float')]
            if m <= 3:
                combos_od.append(('C', 'bool'))
            for obs, dtype in combos_od:
                for metric in metrics:
                    for bs in ([1, 2, 3, 'all'] if q else [1, 2, 3, 4, 'all']):
                        if q and dtype != 'float' and bs == 2:
                            continue
                        cases.append({'kind': 'distance', 'path': path, 'obsform': form, 'layout': layout,
                                      'obs': obs, 'metric': metric, 'dtype': dtype, 'bs': bs,
                                      'grid': [0, 1] if dtype == 'bool' else grid,
                                      'stride': 0 if (q or bs == 4 or (m >= 5 and bs != 1)) else 1})
    return cases


# ================================================================ adaptive distance: common pieces
PRE_ROWS = [[5, 7, 9], [9, 2, 4], [4, 4, 6], [7, 9, 1], [6, 1, 8]]    # an earlier round, far from every grid
PROBE_ROWS = [[8, 1, 3], [2, 6, 7], [5, 5, 2]]
ADAPT_OBS = [2.0, 1.0, 3.0]
TEST_BATCHES = [[[1, 2, 0]], [[1, 0, 2], [2, 5, 5], [-1, 3, 1]]]     # bs 1 and 3
COL_GRIDS = {'g3': [[0, 1, 3], [0, 2, 6], [1, 2, 4]], 'g2': [[0, 3], [1, 2], [2, 5]],
             'g32': [[0, 1, 3], [0, 2], [1, 4]]}


def _rows_over(gridname, m):
    return [list(r) for r in itertools.product(*COL_GRIDS[gridname][:m])]


def _build_adaptive(layout):
    import elfi
    m = R.n_cols(layout)
    model = elfi.ElfiModel(name='c12a')
    Y = elfi.Simulator(sim_none, model=model, name='Y', observed=np.zeros((1, 1)))
    obs = R.observed_values(layout, ADAPT_OBS[:m], 'row')
    S = [elfi.Summary(ident, Y, model=model, name='S%d' % i, observed=obs[i]) for i in range(len(layout))]
    elfi.AdaptiveDistance(*S, model=model, name='d')
    return model


class InputsAltered(Exception):
    pass


def _inputs_checked(fn):
    import functools

    @functools.wraps(fn)
    def wrapper(case):
        try:
            return fn(case)
        except InputsAltered as e:
            return bad('C12:adaptive:add_data-alters-the-summaries-it-was-given', dict(e.args[0], witness_case=case))
    return wrapper


def _add(model, layout, dt, rows):
    """One add_data call through a fresh node reference (as the samplers do)."""
    m = R.n_cols(layout)
    args = R.split_columns(layout, [r[:m] for r in rows], dt)
    before = [a.copy() for a in args]
    model['d'].add_data(*args)
    # the arrays handed over are the batch's summary outputs (the sampler stores them afterwards and recomputes every
    # distance from them): the node reads them, it does not own them
    for a, b in zip(args, before):
        if not np.array_equal(a, b):
            raise InputsAltered({'given': b.tolist(), 'left_as': a.tolist(), 'dtype': str(b.dtype), 'shape': list(b.shape)})


def _scale_ok(model, m, ref):
    s = model['d'].state.get('scale')
    if not isinstance(s, np.ndarray) or s.shape != (m,):
        return False, s
    # same predicate as np.allclose(s, ref, rtol, atol) for finite ref (nan in s fails)
    return bool((np.abs(s - ref) <= ATOL_SCALE + RTOL_SCALE * np.abs(ref)).all()), s


def _classify_scale_failure(layout, dt, rows, prep):
    """Name the class of a wrong scale after `rows` of the current round: wrong already for one add_data call on a
    new node / wrong for one call after the node's prehistory `prep` / wrong only because of the split."""
    m = R.n_cols(layout)
    ref = R.pop_std([r[:m] for r in rows])
    model = _build_adaptive(layout)
    _add(model, layout, dt, rows)
    if not _scale_ok(model, m, ref)[0]:
        return 'C12:adaptive:scale-not-population-std'
    if prep is not None:
        model = _build_adaptive(layout)
        prep(model)
        _add(model, layout, dt, rows)
        if not _scale_ok(model, m, ref)[0]:
            return 'C12:adaptive:scale-contaminated-by-earlier-data'
    return 'C12:adaptive:scale-depends-on-partition'


def _add_round(model, layout, dt, rows, comp, prep, sub, refs=None):
    """add_data calls of one round with the scale oracle after each; -> violation result or None.
    prep: None for a new node, else a function replaying the node's prehistory (only used to classify a failure).
    refs: optional cache {k: np.std(first k rows)} shared between the compositions of one data set."""
    m = R.n_cols(layout)
    k = 0
    for j, c in enumerate(comp):
        _add(model, layout, dt, rows[k:k + c])
        k += c
        if refs is not None and k in refs:
            ref = refs[k]
        else:
            ref = R.pop_std([r[:m] for r in rows[:k]])
            if refs is not None:
                refs[k] = ref
        good, s = _scale_ok(model, m, ref)
        if not good:
            sig = _classify_scale_failure(layout, dt, rows[:k], prep)
            return bad(sig, {'witness_case': sub, 'after_call': j, 'rows_so_far': k,
                             'scale': np.asarray(s).tolist() if s is not None else None, 'np_std': ref.tolist()})
    return None


def _outputs(model, layout, dt):
    """Node output for every test batch through model.generate(with_values=...)."""
    m = R.n_cols(layout)
    out = []
    for rows in TEST_BATCHES:
        rows = [r[:m] for r in rows]
        wv = {'S%d' % i: a for i, a in enumerate(R.split_columns(layout, rows, dt))}
        out.append(model.generate(len(rows), ['d'], with_values=wv)['d'])
    return out


def _state_digest(model):
    """Canonical node state: everything the node keeps outside attr_dict except the (stale between rounds) 'scale'."""
    st = model.get_node('d')
    return digest({k: v for k, v in st.items() if k not in ('attr_dict', 'scale')})


# ================================================================ section: the same data at another scale
def _build_adaptive_scaled(layout, f):
    import elfi
    m = R.n_cols(layout)
    model = elfi.ElfiModel(name='c12s')
    Y = elfi.Simulator(sim_none, model=model, name='Y', observed=np.zeros((1, 1)))
    obs = R.observed_values(layout, [v * f for v in ADAPT_OBS[:m]], 'row')
    S = [elfi.Summary(ident, Y, model=model, name='S%d' % i, observed=obs[i]) for i in range(len(layout))]
    elfi.AdaptiveDistance(*S, model=model, name='d')
    return model


@guarded('C12')
@_inputs_checked
def run_scaled(case):
    """Summaries, observation and test batches multiplied by a binary-exact factor: the adapted scale is multiplied by
    the factor and the distances are unchanged (an absolute tolerance anywhere in the adaptation breaks this)."""
    layout, m = case['layout'], R.n_cols(case['layout'])
    rows = [r[:m] for r in case['rows']]
    outs = {}
    for f in [1.0] + [float(x) for x in case['factors']]:
        model = _build_adaptive_scaled(layout, f)
        k = 0
        for c in case['comp']:
            model['d'].add_data(*R.split_columns(layout, [[v * f for v in r] for r in rows[k:k + c]], float))
            k += c
        scale = np.array(model['d'].state['scale'], dtype=float)
        model['d'].update_distance()
        d = []
        for tb in TEST_BATCHES:
            tb = [[v * f for v in r[:m]] for r in tb]
            wv = {'S%d' % i: a for i, a in enumerate(R.split_columns(layout, tb, float))}
            d.append(np.asarray(model.generate(len(tb), ['d'], with_values=wv)['d'], dtype=float))
        outs[f] = (scale, d)
    s1, d1 = outs[1.0]
    for f, (sf, df) in outs.items():
        if f == 1.0:
            continue
        if sf.shape != s1.shape or not np.allclose(sf, s1 * f, rtol=1e-12, atol=0):
            return bad('C12:adaptive:scale-not-equivariant-under-rescaling-of-the-summaries',
                       {'witness_case': case, 'factor': f, 'scale': sf.tolist(), 'expected': (s1 * f).tolist()})
        # column 0 is the distance under the initial unit weights (it scales with the data), column 1 the adapted one
        def same(a, b):
            return a.shape == b.shape and a.ndim == 2 and a.shape[1] == 2 and \
                np.allclose(a[:, 0], b[:, 0] * f, rtol=1e-12, atol=0) and np.allclose(a[:, 1], b[:, 1], rtol=1e-12, atol=0)
        if not all(same(a, b) for a, b in zip(df, d1)):
            return bad('C12:adaptive:distance-changes-under-common-rescaling',
                       {'witness_case': case, 'factor': f, 'got': [a.tolist() for a in df],
                        'unscaled': [a.tolist() for a in d1]})
    r = ok(outcome=digest([a.tolist() for a in d1]), rescaled_adaptations=len(outs) - 1)
    r.update(evals=len(outs), distinct=len(outs))
    return r


def scaled_cases(ctx):
    cases = []
    for layout in (['ss', 'v'] if ctx.quick else ['ss', 'v', 'sv', 'cs', 's']):
        m = R.n_cols(layout)
        grid = COL_GRIDS['g3']
        for rows in ([list(r) for r in zip(*[grid[j % 3] for j in range(3)])],
                     PRE_ROWS, PRE_ROWS[::-1] + PROBE_ROWS):
            n = len(rows)
            for comp in ([n], [1] * n, [1, n - 1]):
                cases.append({'kind': 'scaled', 'layout': layout, 'rows': rows, 'comp': comp,
                              'factors': [2.0 ** -30, 2.0 ** -12, 2.0 ** 30]})
    return cases


# ================================================================ section H1: partitions of one round
def _pre(model, layout, dt, pre):
    if pre == 'fresh':
        return
    _add(model, layout, dt, PRE_ROWS[:3])
    _add(model, layout, dt, PRE_ROWS[3:])
    if pre == 'after1':
        model['d'].update_distance()
    elif pre == 'aborted':
        model['d'].init_adaptation_round()
    else:
        raise KeyError(pre)


@guarded('C12')
@_inputs_checked
def run_partition(case):
    layout, dt, pre = case['layout'], _dtype(case['dtype']), case['pre']
    m = R.n_cols(layout)
    if 'rows' in case:
        work = [(case['rows'], [case['comp']])]
    else:
        rows1 = _rows_over(case['grid'], m)
        n = case['n']
        work = []
        lead = [rows1[i] for i in case['first']]
        for rest in itertools.product(rows1, repeat=n - len(lead)):
            rows = lead + [list(r) for r in rest]
            work.append((rows, R.compositions(n)))
    evals = nonconst = const_prefix = 0
    finals = []
    model = _build_adaptive(layout)
    for rows, comps in work:
        if not R.nonconstant(rows) and 'rows' not in case:
            continue      # a constant column has scale 0 (update impossible); outside the statement
        nonconst += 1
        last = []
        refs = {}
        for comp in comps:
            model['d'].init_state()     # what the constructor does; a single-sub-case replay starts from a new model
            _pre(model, layout, dt, pre)
            sub = {'kind': 'partition', 'layout': layout, 'dtype': case['dtype'], 'pre': pre, 'rows': rows, 'comp': comp}
            v = _add_round(model, layout, dt, rows, comp,
                           None if pre == 'fresh' else (lambda mm: _pre(mm, layout, dt, pre)), sub, refs)
            evals += 1
            if v:
                return v
            last.append(model['d'].state['scale'])
        finals.append(last[0])
        const_prefix += int(not R.nonconstant(rows[:max(1, len(rows) - 1)]))
    r = ok(outcome=digest(finals), partitions=evals, datasets=nonconst, datasets_with_constant_prefix=const_prefix)
    r.update(evals=evals, distinct=evals)
    return r


def partition_cases(ctx):
    """Explicit plan: (layout, dtype, column grid, n rows, node prehistories)."""
    F, FA, FAB = ['fresh'], ['fresh', 'after1'], ['fresh', 'after1', 'aborted']
    if ctx.quick:
        plan = [('ss', 'float', 'g3', n, FA) for n in (2, 3, 4)] + [('ss', 'float', 'g2', n, FA) for n in (4, 5)]
        plan += [('v', 'int', 'g3', n, FA) for n in (2, 3)] + [('v', 'int', 'g2', n, FA) for n in (4, 5)]
        plan += [('v', 'float', 'g3', n, FA) for n in (2, 3)] + [('c', 'float', 'g3', 3, FA)]
    else:
        plan = []
        for layout, dtype in [('ss', 'float'), ('v', 'int'), ('ss', 'int'), ('v', 'float'), ('cs', 'float')]:
            plan += [(layout, dtype, 'g3', n, FAB) for n in (2, 3, 4)] + [(layout, dtype, 'g2', 5, FA)]
        plan += [('sv', 'float', 'g32', n, FAB) for n in (2, 3, 4)] + [('sv', 'float', 'g2', 5, FA)]
        plan += [('ss', 'float', 'g3', 5, F), ('ss', 'float', 'g2', 6, FA), ('ss', 'float', 'g2', 7, F),
                 ('v', 'int', 'g2', 6, FA)]
    cases = []
    for layout, dtype, grid, n, pres in plan:
        nrows = len(_rows_over(grid, R.n_cols(layout)))
        deep = 2 if nrows ** (n - 1) * 2 ** (n - 1) > 40000 else 1      # split big enumerations by two leading rows
        for pre in pres:
            for first in itertools.product(range(nrows), repeat=min(deep, n - 1)):
                cases.append({'kind': 'partition', 'layout': layout, 'dtype': dtype, 'grid': grid, 'n': n,
                              'pre': pre, 'first': list(first)})
    # biggest cases first (balance of the worker pool); the order has no influence on what is enumerated
    cases.sort(key=lambda c: -(len(_rows_over(c['grid'], R.n_cols(c['layout']))) * 2.0) ** (c['n'] - len(c['first'])))
    return cases


# ================================================================ section H2: round histories
FAMILIES = {   # name -> (column grid, data-set sizes)
    'tiny': ('g2', [2]),
    'small': ('g2', [2, 3]),
    'mid': ('g32', [2, 3]),
    'large': ('g2', [2, 3, 4]),
}


def round_options(fam, m):
    gridname, ns = FAMILIES[fam]
    rows1 = _rows_over(gridname, m)
    ops = [['reset'], ['abort', [rows1[0]]], ['abort', [rows1[-1], rows1[0]]]]
    for n in ns:
        for rows in itertools.product(rows1, repeat=n):
            rows = [list(r) for r in rows]
            if not R.nonconstant(rows):
                continue
            for comp in R.compositions(n):
                ops.append(['round', rows, comp])
    return ops


def _replay_ops(model, layout, dt, hist):
    for op in hist:
        if op[0] == 'round':
            k = 0
            for c in op[2]:
                _add(model, layout, dt, op[1][k:k + c])
                k += c
            model['d'].update_distance()
        elif op[0] == 'abort':
            _add(model, layout, dt, op[1])
            model['d'].init_adaptation_round()
        elif op[0] == 'reset':
            model['d'].init_state()
        else:
            raise KeyError(op[0])


def _n_rounds(hist):
    n = 0
    for op in hist:
        if op[0] == 'reset':
            n = 0
        elif op[0] == 'round':
            n += 1
    return n


def _as_cols(a, bs):
    a = np.asarray(a)
    return a.reshape(bs, -1)


def _initial_check(model, layout, dt, sub):
    m = R.n_cols(layout)
    for rows, o in zip(TEST_BATCHES, _outputs(model, layout, dt)):
        bs = len(rows)
        if not isinstance(o, np.ndarray) or o.shape != (bs,):
            return bad('C12:adaptive:output-shape', {'witness_case': sub, 'shape': list(np.shape(o)), 'expected': [bs]})
        exp = R.scaled_euclid([r[:m] for r in rows], ADAPT_OBS[:m], None)
        if not np.allclose(o, exp, rtol=RTOL_DIST, atol=1e-15):
            return bad('C12:adaptive:first-distance-not-euclidean',
                       {'witness_case': sub, 'got': o.tolist(), 'expected': exp.tolist()})
    return None


def _transition(conf, hist, op, before):
    """Execute `op` from the state reached by `hist` with all oracles. -> (violation or None, state digest, outputs)."""
    layout, dtname = conf
    dt = _dtype(dtname)
    m = R.n_cols(layout)
    sub = {'kind': 'rounds', 'layout': layout, 'dtype': dtname, 'hist': hist, 'op': op}
    model = _build_adaptive(layout)
    _replay_ops(model, layout, dt, hist)
    r_before = _n_rounds(hist)
    prep = (lambda mm: _replay_ops(mm, layout, dt, hist)) if hist else None
    if op[0] == 'round':
        rows, comp = op[1], op[2]
        v = _add_round(model, layout, dt, rows, comp, prep, sub)
        if v:
            return v, None, None
        ref = R.pop_std([r[:m] for r in rows])
        n_w = len(model['d'].state['w'])
        model['d'].update_distance()
        w = model['d'].state['w']
        if len(w) != n_w + 1 or len(w) != r_before + 2:
            return bad('C12:adaptive:update:w-list-length', {'witness_case': sub, 'len_w': len(w)}), None, None
        if not np.allclose(np.asarray(w[-1], dtype=float), 1.0 / ref, rtol=RTOL_SCALE, atol=0):
            return bad('C12:adaptive:update:w-not-inverse-scale',
                       {'witness_case': sub, 'w': np.asarray(w[-1]).tolist(), 'expected': (1.0 / ref).tolist()}), None, None
        after = _outputs(model, layout, dt)
        for tb, ob, oa in zip(TEST_BATCHES, before, after):
            bs = len(tb)
            if not isinstance(oa, np.ndarray) or oa.shape != (bs, r_before + 2):
                return bad('C12:adaptive:output-shape', {'witness_case': sub, 'shape': list(np.shape(oa)),
                                                         'expected': [bs, r_before + 2]}), None, None
            if _as_cols(ob, bs).tobytes() != np.ascontiguousarray(oa[:, :-1]).tobytes():
                return bad('C12:adaptive:earlier-distance-changed',
                           {'witness_case': sub, 'before': _as_cols(ob, bs).tolist(), 'after': oa.tolist()}), None, None
            exp = R.scaled_euclid([r[:m] for r in tb], ADAPT_OBS[:m], ref)
            if not np.allclose(oa[:, -1], exp, rtol=RTOL_SCALE, atol=1e-15):
                return bad('C12:adaptive:newest-distance-not-scaled-euclidean',
                           {'witness_case': sub, 'got': oa[:, -1].tolist(), 'expected': exp.tolist()}), None, None
    elif op[0] == 'abort':
        v = _add_round(model, layout, dt, op[1], [len(op[1])], prep, sub)
        if v:
            return v, None, None
        model['d'].init_adaptation_round()
        after = _outputs(model, layout, dt)
        for ob, oa in zip(before, after):
            if np.shape(ob) != np.shape(oa) or np.asarray(ob).tobytes() != np.asarray(oa).tobytes():
                return bad('C12:adaptive:distance-changed-without-update',
                           {'witness_case': sub, 'before': np.asarray(ob).tolist(), 'after': np.asarray(oa).tolist()}), None, None
    elif op[0] == 'reset':
        model['d'].init_state()
        v = _initial_check(model, layout, dt, sub)
        if v:
            return v, None, None
        after = _outputs(model, layout, dt)
    else:
        raise KeyError(op[0])
    dg = _state_digest(model)
    # round counters reset: a following round must see only its own rows
    probe = [r[:m] for r in PROBE_ROWS]
    _add(model, layout, dt, probe)
    good, s = _scale_ok(model, m, R.pop_std(probe))
    if not good:
        sig = _classify_scale_failure(layout, dt, probe, lambda mm: _replay_ops(mm, layout, dt, hist + [op]))
        return bad(sig, {'witness_case': sub, 'probe_rows': probe, 'scale': np.asarray(s).tolist(),
                    'np_std': R.pop_std(probe).tolist()}), None, None
    return None, dg, after


@guarded('C12')
@_inputs_checked
def run_rounds(case):
    conf = (case['layout'], case['dtype'])
    layout, dt = case['layout'], _dtype(case['dtype'])
    hist = case['hist']
    if 'op' in case:
        ops = [case['op']]
        idx = [0]
    else:
        allops = round_options(case['fam'], R.n_cols(layout))
        idx = list(range(case['lo'], min(case['hi'], len(allops))))
        ops = [allops[i] for i in idx]
    model = _build_adaptive(layout)
    _replay_ops(model, layout, dt, hist)
    if not hist:
        v = _initial_check(model, layout, dt, {'kind': 'rounds', 'layout': layout, 'dtype': case['dtype'],
                                               'hist': [], 'op': ['reset']})
        if v:
            return v
    src = _state_digest(model)
    before = _outputs(model, layout, dt)
    succ, outs, seen = [], set(), set()
    for i, op in zip(idx, ops):
        v, dg, after = _transition(conf, hist, op, before)
        if v:
            return v
        outs.add(digest(after))
        if dg not in seen:
            seen.add(dg)
            succ.append([dg, i])
    r = ok(outcome=digest(sorted(outs)), transitions_checked=len(ops),
           rounds_ops=sum(1 for o in ops if o[0] == 'round'))
    key = digest((conf, case.get('fam')))
    r.update(evals=len(ops), distinct=len(ops), transitions=len(ops), validated=len(ops),
             states=[digest((key, src))] + [digest((key, d)) for d in seen], succ=succ, src=src, outs=sorted(outs))
    return r


@guarded('C12')
@_inputs_checked
def run_seqs(case):
    """All operation sequences of length 1..depth starting with option `first`, no state merging."""
    conf = (case['layout'], case['dtype'])
    layout, dt = case['layout'], _dtype(case['dtype'])
    allops = round_options(case['fam'], R.n_cols(layout))
    n = 0
    outs = set()
    for L in range(1, case['depth'] + 1):
        for tail in itertools.product(range(len(allops)), repeat=L - 1):
            seq = [allops[case['first']]] + [allops[i] for i in tail]
            hist, op = seq[:-1], seq[-1]
            model = _build_adaptive(layout)
            _replay_ops(model, layout, dt, hist)
            before = _outputs(model, layout, dt)
            v, dg, after = _transition(conf, hist, op, before)
            n += 1
            if v:
                return v
            outs.add(digest(after))
    r = ok(outcome=digest(sorted(outs)), sequences=n)
    r.update(evals=n, distinct=n, validated=n, outs=sorted(outs))
    return r


def explore_rounds(ctx, conf, fam, depth, section='rounds', chunk=60):
    """BFS with canonical-state merging; returns (set of output digests, number of states)."""
    layout, dtype = conf
    nops = len(round_options(fam, R.n_cols(layout)))
    allops = round_options(fam, R.n_cols(layout))
    seen = None
    frontier = [[]]
    outs = set()
    for level in range(depth):
        cases = [{'kind': 'rounds', 'layout': layout, 'dtype': dtype, 'fam': fam, 'hist': h, 'lo': lo,
                  'hi': lo + chunk} for h in frontier for lo in range(0, nops, chunk)]

        def fn(case):
            return case, run_rounds(case)
        nxt = []
        for i, (case, res) in enumerate(par.pmap(fn, cases, ordered=True)):
            slim = {k: v for k, v in res.items() if k not in ('succ', 'outs', 'src')}
            ctx.record(case, slim, section)
            if i in (0, len(cases) - 1):
                ctx.add_sample(case, key=(section, conf, fam, level, i))
            if res.get('viol'):
                continue
            if seen is None:
                seen = {res['src']}
            outs.update(res['outs'])
            for dg, oi in res['succ']:
                if dg not in seen:
                    seen.add(dg)
                    nxt.append(case['hist'] + [allops[oi]])
        frontier = nxt
        ctx.count(**{'bfs_level%d_new_states' % (level + 1): len(nxt)})
        if not frontier:
            break
    return outs, len(seen or ())


def explore_seqs(ctx, conf, fam, depth, section='seqs'):
    layout, dtype = conf
    nops = len(round_options(fam, R.n_cols(layout)))
    cases = [{'kind': 'seqs', 'layout': layout, 'dtype': dtype, 'fam': fam, 'first': f, 'depth': depth}
             for f in range(nops)]

    def fn(case):
        return case, run_seqs(case)
    outs = set()
    for i, (case, res) in enumerate(par.pmap(fn, cases, ordered=True, chunksize=1)):
        ctx.record(case, {k: v for k, v in res.items() if k != 'outs'}, section)
        if i in (0, len(cases) - 1):
            ctx.add_sample(case, key=(section, conf, fam, i))
        if not res.get('viol'):
            outs.update(res['outs'])
    return outs


# ================================================================ sampler-level confirmation
def _reference_batches(model, names, bs, seed, n_batches):
    import elfi
    from elfi.model.elfi_model import ComputationContext
    cctx = ComputationContext(batch_size=bs, seed=seed)
    bh = elfi.client.BatchHandler(model, context=cctx, output_names=list(names))
    out = {k: [] for k in names}
    for i in range(n_batches):
        b = bh.compute(i)
        for k in names:
            out[k].append(np.asarray(b[k]))
    return {k: np.concatenate(v) for k, v in out.items()}


@guarded('C12')
@_inputs_checked
def run_sampler(case):
    import elfi
    models.native_client()
    models.reset_calls()
    mk = case.get('model', 'Madapt')
    m, dname, extras = models.build(mk)
    obs = np.array([2.0, 10.0])
    bs, n, seed = case['bs'], case['n_samples'], case['seed']

    def _S(outputs):
        if mk == 'MadaptV':
            return np.asarray(outputs['SV'], dtype=float).reshape(-1, 2)
        return np.column_stack([outputs['S1'], outputs['S2']])
    if case['method'] == 'rejection':
        rej = elfi.Rejection(m, dname, output_names=list(extras), batch_size=bs, seed=seed, max_parallel_batches=1)
        res = rej.sample(n, bar=False, n_sim=int(case['n_sim']))
        calls = models.CALLS.get('sim', 0)
        m2, _, _ = models.build(mk)
        ref = _reference_batches(m2, list(extras), bs, seed, calls)
        allS = _S(ref)
        scale = np.std(allS, axis=0)
        S = _S(res.outputs)
        # the returned summaries are summaries that were simulated (rows of a fresh computation of the consumed batches)
        simulated = {tuple(r) for r in allS.tolist()}
        if any(tuple(r) not in simulated for r in S.tolist()):
            return bad('C12:sampler:returned-summaries-were-never-simulated',
                       {'returned': S.tolist()[:4], 'model': mk})
        exp = R.scaled_euclid(S.tolist(), obs, scale)
        d = np.atleast_2d(np.transpose(np.asarray(res.outputs[dname])))[-1]
        if d.shape != exp.shape or not np.allclose(d, exp, rtol=1e-9, atol=1e-12):
            return bad('C12:sampler:rejection-discrepancy-not-newest-distance-of-row',
                       {'returned_d': d.tolist(), 'd_of_returned_rows': exp.tolist()})
        w = m.get_node(dname)['w']
        if len(w) != 2 or not np.allclose(w[-1], 1 / scale, rtol=1e-9):
            return bad('C12:sampler:rejection-scale-not-std-of-all-simulated-rows',
                       {'w': np.asarray(w[-1]).tolist(), 'expected': (1 / scale).tolist()})
        return ok(outcome=digest(d), sampler_runs=1)
    smc = elfi.AdaptiveDistanceSMC(m, dname, output_names=list(extras), batch_size=bs, seed=seed, max_parallel_batches=1)
    res = smc.sample(n, case['rounds'], quantile=0.5, bar=False)
    ws = m.get_node(dname)['w']
    if len(ws) != case['rounds'] + 1:
        return bad('C12:sampler:smc-number-of-distances', {'len_w': len(ws), 'rounds': case['rounds']})
    ds = []
    for i, pop in enumerate(res.populations):
        S = _S(pop.outputs)
        w = np.asarray(pop.adaptive_distance_w, dtype=float)
        exp = R.scaled_euclid(S.tolist(), obs, 1 / w)
        d = np.atleast_2d(np.transpose(np.asarray(pop.outputs[dname])))[-1]
        if not np.array_equal(w, ws[i + 1]):
            return bad('C12:sampler:smc-population-w-not-node-w', {'population': i})
        if d.shape != exp.shape or not np.allclose(d, exp, rtol=1e-9, atol=1e-12):
            return bad('C12:sampler:smc-discrepancy-not-newest-distance-of-row',
                       {'population': i, 'returned_d': d.tolist(), 'd_of_returned_rows': exp.tolist()})
        ds.append(d)
    return ok(outcome=digest(ds), sampler_runs=1)


# ================================================================ driver
RUNNERS = {'distance': run_distance, 'partition': run_partition, 'scaled': run_scaled, 'rounds': run_rounds, 'seqs': run_seqs,
           'sampler': run_sampler}


def replay(case):
    return RUNNERS[case['kind']](case)


def _want(ctx, name):
    return not ctx.only or name in ctx.only


def run(ctx):
    q = ctx.quick
    base = ctx.seed * 1000

    if _want(ctx, 'distance'):
        cases = distance_cases(ctx)
        ctx.run_cases(run_distance, cases, 'distance', sample_every=max(1, len(cases) // 4))
        ctx.extra['distance_alphabet'] = {
            'layouts': len(R.layouts(3)), 'metrics': list(R.METRICS), 'configurations': len(cases),
            'paths_x_observed_forms': ['inject/row', 'inject/flat', 'derived/row']}

    if _want(ctx, 'partition'):
        cases = partition_cases(ctx)
        ctx.run_cases(run_partition, cases, 'partition', sample_every=max(1, len(cases) // 3), chunksize=1)

    if _want(ctx, 'rescaled'):
        ctx.run_cases(run_scaled, scaled_cases(ctx), 'rescaled')

    if _want(ctx, 'rounds'):
        if q:
            plan = [(('ss', 'float'), 'mid', 2), (('v', 'int'), 'small', 3)]
        else:
            plan = [(('ss', 'float'), 'large', 2), (('v', 'int'), 'mid', 3), (('ss', 'int'), 'small', 4),
                    (('v', 'float'), 'small', 4), (('sv', 'float'), 'small', 3), (('cs', 'float'), 'small', 3)]
        nstates = {}
        for conf, fam, depth in plan:
            _, ns = explore_rounds(ctx, conf, fam, depth)
            nstates['%s/%s/%s/depth%d' % (conf[0], conf[1], fam, depth)] = ns
        ctx.extra['rounds_reachable_states'] = nstates

    if _want(ctx, 'seqs'):
        if q:
            plan = [(('ss', 'float'), 'tiny', 3)]
        else:
            plan = [(('ss', 'float'), 'tiny', 4), (('v', 'int'), 'small', 2), (('sv', 'float'), 'tiny', 3)]
        for conf, fam, depth in plan:
            unmerged = explore_seqs(ctx, conf, fam, depth)
            merged, _ = explore_rounds(ctx, conf, fam, depth, section='rounds-crosscheck')
            if not ctx.viol and unmerged != merged:
                raise RuntimeError('C12 harness: state merging changed the set of observed outputs (%d vs %d) for %r'
                                   % (len(merged), len(unmerged), (conf, fam, depth)))
            ctx.count(merge_crosscheck_outputs=len(unmerged))

    if _want(ctx, 'sampler'):
        seeds = [base + k for k in range(2 if q else 5)]
        cases = [{'kind': 'sampler', 'method': 'rejection', 'bs': bs, 'n_samples': n, 'n_sim': ns, 'seed': s}
                 for bs in (1, 2, 3) for n in (2, 5) for ns in (6, 10) for s in seeds if ns >= n]
        cases += [{'kind': 'sampler', 'method': 'smc', 'bs': bs, 'n_samples': n, 'rounds': r, 'seed': s}
                  for bs in (1, 3) for n in (3, 5) for r in (1, 2, 3) for s in seeds]
        # the same with ONE vector-valued summary (the stacked summaries are then the batch's own output array)
        cases += [dict(c, model='MadaptV') for c in cases]
        ctx.run_cases(run_sampler, cases, 'sampler')

    ctx.rule = (
        'distance: full product path x layout(1-3 summaries over scalar/(bs,1)/(bs,2)) x observed form x observation x '
        'metric x dtype x batch size; per configuration every cyclic window of bs consecutive rows of the enumerated '
        'list grid**m (stride bs in quick; stride 1 in thorough for bs<=3, m<=4) plus the single batch of all rows goes through the real '
        'Distance node; distinct = distinct batches per configuration. partition: every data set over the column grid '
        'with non-constant columns x every composition into add_data calls x node prehistory. rounds: BFS over '
        'round/abort/reset operations with canonical node-state merging, every option executed from every reachable '
        'state; seqs: all operation sequences without merging. rescaled: fixed data sets x compositions, summaries / observation / test batches multiplied by 2^-30, 2^-12, 2^30. non-trivial = every evaluated sub-case.')
    ctx.assumptions += [
        'oracle = one scipy.spatial.distance.<metric>(u, v, ...) call per row (python loops for the two user callables), '
        'compared with rtol %g (C loop of cdist vs numpy row function on integer-valued inputs |x| <= 3)' % RTOL_DIST,
        'metric alphabet: %s; wminkowski does not exist in scipy 1.18 and is excluded' % ', '.join(R.METRICS),
        'value grids per cell: quick {-1,0,2} for m<=3 columns and {-1,2} for m>=4; thorough {-1,0,2,3} for m<=3 and '
        '{-1,0,2} for m>=4; observations A=(2,-1,0,2,0,-1) (on the grid, zero distances occur) and B=(1,-2,3,0,-3,1) '
        '(thorough, with integer-dtype batches); batches are cyclic windows over the complete row list grid**m (every '
        'row occurs; stride 1 puts every row in every batch position: thorough, bs<=3, m<=4) plus the one batch of all '
        'rows, not the full product of rows',
        'user callables additionally must receive X of shape (bs,m) and Y of shape (1,m), the shapes documented for '
        'elfi.Distance',
        'adaptive: scale compared with two-pass np.std(axis=0), rtol %g atol %g; data sets with a constant column are '
        'excluded as whole-round data (scale 0, weights infinite) but occur as prefixes' % (RTOL_SCALE, ATOL_SCALE),
        'update_distance with no data added in the round is outside the statement (scale undefined) and not in the '
        'alphabet; therefore the stale state["scale"] between rounds is dropped from the canonical state '
        '(it is overwritten by the first add_data of the next round)',
        'merged exploration cross-checked against un-merged sequences on a smaller family (equal output sets)',
        'sampler section is a confirmation only (Madapt model, %d seeds); exhaustive sampler-level runs are C01'
        % (2 if q else 5),
    ]
    ctx.extra['explanation'] = ('states = canonical AdaptiveDistance node states (w list, distance functions, store) '
                                'reached per (layout, dtype, family); transitions = operations executed on the real '
                                'node from those states, each with the complete oracle')
