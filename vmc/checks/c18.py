"""C18 vectorize / external_operation behave as per-row application.  Mode P.

Sections
  vectorize : one pool case per (arity, constants mask, dtype); the runner enumerates the full product
              input-kind tuple x batch size x (batch_size given | inferred) x return kind x kwargs variant
              on ONE vectorised callable (so earlier calls are the history of later ones) and compares every
              call with a literal per-row loop written here (reference decides which inputs are rows, the
              batch length, the rejection of mismatching lengths, the stacking by dtype).
  model     : elfi.Simulator(elfi.tools.vectorize(f), parents...) (+ a vectorised Summary with observed data)
              computed through BatchHandler with the in-process client for batch sizes 1..3 and several batch
              indices; oracle = literal loop over the rows of the parent outputs of the same batch; the
              random draws come from a twin model whose simulator is vectorised by hand.
  external  : every command template of a small explicit grammar (token sequences over positional, keyword
              and literal tokens; echo / printf forms; separators; dtypes) is executed in a real subprocess,
              the parsed array is compared with the array of the substituted values; every key a template
              uses is left out once (must raise KeyError, before anything is spawned).
  extseed   : '{seed}' under random_state: repetition with an equal generator gives the same seed (with
              other calls and a reseeded global generator in between), rows of a batch get pairwise different
              seeds, for fresh and consumed generators.
  extvec    : vectorize(external_operation(...)) called directly: row i of the result is the command run on
              row i, index_in_batch reaches the command through meta, seeds differ between rows.
  extmodel  : the same inside a model run (uses_meta as documented), repeated with a fresh context.
"""
import hashlib
import itertools
import traceback

import numpy as np

from .. import models
from ..canon import digest, jsonable
from ..guard import guarded
from ..report import ok, bad

PID = 'C18'
LEVEL = 'exploration'


# =====================================================================================================
# generic helpers
# =====================================================================================================
def _same(x, y):
    """Exact structural equality including types, dtypes and shapes."""
    if type(x) is not type(y):
        return False
    if isinstance(x, np.ndarray):
        if x.dtype != y.dtype or x.shape != y.shape:
            return False
        if x.dtype == object:
            return all(_same(a, b) for a, b in zip(x.ravel().tolist(), y.ravel().tolist()))
        return np.ascontiguousarray(x).tobytes() == np.ascontiguousarray(y).tobytes()
    if isinstance(x, np.generic):
        return x.dtype == y.dtype and x.tobytes() == y.tobytes()
    if isinstance(x, dict):
        return sorted(x, key=repr) == sorted(y, key=repr) and all(_same(x[k], y[k]) for k in x)
    if isinstance(x, (list, tuple)):
        return len(x) == len(y) and all(_same(a, b) for a, b in zip(x, y))
    if isinstance(x, float):
        return x == y or (x != x and y != y)
    return x == y


def _same_value(x, y):
    """Equality of a row argument by shape and value (a numpy scalar and a Python number of the same value are
    both 'the i-th row')."""
    try:
        ax, ay = np.asarray(x), np.asarray(y)
    except Exception:
        return _same(x, y)
    if ax.dtype == object or ay.dtype == object:
        return _same(x, y)
    return ax.shape == ay.shape and np.array_equal(ax, ay)


def _short(o, n=300):
    s = repr(o)
    return s if len(s) <= n else s[:n] + '...'


def _h(o):
    """Cheap digest of an output for the distinct-outcome counters."""
    if isinstance(o, np.ndarray) and o.dtype != object:
        return hashlib.md5(str(o.dtype).encode() + repr(o.shape).encode() + np.ascontiguousarray(o).tobytes()).hexdigest()
    return hashlib.md5(repr(o).encode()).hexdigest()


def _tools():
    import elfi
    return elfi.tools


# =====================================================================================================
# section vectorize (direct calls)
# =====================================================================================================
DTYPES = {'None': None, 'float': float, 'int': int, 'object': object, 'False': False,
          'float32': 'float32', 'str': str}

LOG = []          # calls seen by the recording operation: (args tuple, kwargs dict, draw)


def make_input(kind, k, bs):
    """Input of the given kind for position k; values are distinct per position and row."""
    b = 10.0 * (k + 1)
    if kind == 'py':
        return b + 0.25
    if kind == 'pyint':
        return int(b) + 3
    if kind == 'a0':
        return np.array(b + 0.75)
    if kind == 'v':
        return np.array([b + i + 0.5 for i in range(bs)])
    if kind == 'vi':
        return np.array([int(b) + i for i in range(bs)])
    if kind == 'm2':
        return np.array([[10 * b + 10 * i + 1, 10 * b + 10 * i + 2] for i in range(bs)])
    if kind == 'm1':
        return np.array([[b + i + 0.375] for i in range(bs)])
    if kind == 'list':
        return [b + i + 0.125 for i in range(bs)]
    if kind == 'tuple':
        return tuple(b + i + 0.0625 for i in range(bs))
    if kind == 'str':
        return 's%d' % k
    if kind == 'none':
        return None
    if kind == 'vlong':
        return np.array([b + i + 0.5 for i in range(bs + 1)])
    if kind == 'v1':
        return np.array([b + 0.5])
    raise KeyError(kind)


def _val(x):
    """Number that identifies an argument (weights make element order visible)."""
    if x is None:
        return -1.0
    if isinstance(x, str):
        return 7.0 * len(x) + (ord(x[-1]) if x else 0)
    if isinstance(x, (list, tuple)):
        return 1000.0 + sum((j + 1) * float(v) for j, v in enumerate(x))
    a = np.asarray(x, dtype=float)
    if a.ndim == 0:
        return float(a)
    return float(sum((j + 1) * float(v) for j, v in enumerate(a.ravel())))


def _checksum(args, kw):
    c = 0.0
    for k, a in enumerate(args):
        c += (k + 1) * _val(a)
    meta = kw.get('meta')
    if meta is not None:
        c += 0.001 * (1 + meta.get('index_in_batch', -5)) + 0.01 * meta.get('batch_index', 0)
    draw = None
    rs = kw.get('random_state')
    if rs is not None:
        draw = int(rs.randint(1000))
        c += draw * 1e-6
    if 'extra' in kw:
        c += 0.5 * len(kw['extra'])
    return c, draw


def _record(args, kw, draw):
    LOG.append((tuple(args), {k: (dict(v) if isinstance(v, dict) else v) for k, v in kw.items()
                              if k != 'random_state'}, draw))


def op_num(*args, **kw):
    c, draw = _checksum(args, kw)
    _record(args, kw, draw)
    return c


def op_int(*args, **kw):
    c, draw = _checksum(args, kw)
    _record(args, kw, draw)
    return int(c)


def op_vec2(*args, **kw):
    c, draw = _checksum(args, kw)
    _record(args, kw, draw)
    return np.array([c, -c])


def op_dict(*args, **kw):
    c, draw = _checksum(args, kw)
    _record(args, kw, draw)
    return {'c': c, 'n': len(args)}


def op_ragged(*args, **kw):
    c, draw = _checksum(args, kw)
    _record(args, kw, draw)
    return [c] * (1 + int(c * 2) % 3)


def op_str(*args, **kw):
    c, draw = _checksum(args, kw)
    _record(args, kw, draw)
    return 'r%.3f' % c


def op_none(*args, **kw):
    c, draw = _checksum(args, kw)
    _record(args, kw, draw)
    return None


def op_mixnum(*args, **kw):
    """Python int for some rows, float for others (a clip against an integer constant does this): the stacked result
    type is decided by ALL rows, not by the first one."""
    c, draw = _checksum(args, kw)
    _record(args, kw, draw)
    return int(c) if int(c * 2) % 2 == 0 else c + 0.25


def op_mixstr(*args, **kw):
    """Strings whose length depends on the row."""
    c, draw = _checksum(args, kw)
    _record(args, kw, draw)
    return 'r' + 'x' * (int(c * 2) % 4)


OPS = {'num': op_num, 'int': op_int, 'vec2': op_vec2, 'dict': op_dict, 'ragged': op_ragged, 'str': op_str,
       'none': op_none, 'mixnum': op_mixnum, 'mixstr': op_mixstr}
MIXED = [0]        # calls whose first row has a narrower type than a later row (int before float, short before long)


def _kwargs(variant, seed):
    """Fresh keyword arguments of a variant (fresh dicts / generators on every call)."""
    kw = {}
    if variant in ('meta', 'all'):
        kw['meta'] = {'batch_index': 7, 'model_name': 'm'}
    if variant in ('rs', 'all'):
        kw['random_state'] = np.random.RandomState(seed)
    if variant in ('extra', 'all'):
        kw['extra'] = 'xy'
    return kw


REJECT = 'reject-length'


def ref_vectorize(op, inputs, mask, dtype, batch_size, kwargs):
    """Literal per-row loop.  -> dict(status, const, rows?, out?)"""
    const = set(mask or ())
    lens = []
    for i, x in enumerate(inputs):
        if i in const:
            continue
        if isinstance(x, np.ndarray) and x.ndim > 0:
            lens.append(len(x))
        else:
            const.add(i)
    if batch_size is None:
        if len(set(lens)) > 1:
            return {'status': REJECT, 'const': const}
        bs = lens[0] if lens else 1
    else:
        if any(n != batch_size for n in lens):
            return {'status': REJECT, 'const': const}
        bs = batch_size
    rows = []
    for r in range(bs):
        args = [x if i in const else x[r] for i, x in enumerate(inputs)]
        kw = dict(kwargs)
        if 'meta' in kw:
            kw['meta'] = dict(kw['meta'], index_in_batch=r)
        rows.append(op(*args, **kw))
    res = {'const': const, 'rows': rows, 'bs': bs}
    if rows and ((isinstance(rows[0], int) and any(isinstance(r, float) for r in rows[1:])) or
                 (isinstance(rows[0], str) and any(isinstance(r, str) and len(r) > len(rows[0]) for r in rows[1:]))):
        MIXED[0] += 1
    if dtype is False:
        out = np.empty(bs, dtype=object)
        for r in range(bs):
            out[r] = rows[r]
        res.update(status='value', out=out)
        return res
    try:
        res.update(status='value', out=np.array(rows, dtype=dtype))
    except Exception as e:  # numpy refuses to stack these outputs
        res.update(status='convert-raises', exc=type(e).__name__)
    return res


def _cmp_logs(got, exp, const):
    """Compare the calls seen by the operation as sets (order is not part of the statement)."""
    def match(a, b):
        (aa, akw, ad), (ba, bkw, bd) = a, b
        if len(aa) != len(ba):
            return 'row-args'
        for i, (x, y) in enumerate(zip(aa, ba)):
            if i in const:
                if not _same(x, y):
                    return 'constant'
            elif not _same_value(x, y):
                return 'row-args'
        am, bm = akw.get('meta'), bkw.get('meta')
        if (am is None) != (bm is None):
            return 'kwargs'
        if am is not None:
            if am.get('index_in_batch') != bm.get('index_in_batch'):
                return 'meta-index'
            if not _same(am, bm):
                return 'kwargs'
        a2 = {k: v for k, v in akw.items() if k not in ('meta', 'batch_size')}
        b2 = {k: v for k, v in bkw.items() if k not in ('meta', 'batch_size')}
        if not _same(a2, b2):
            return 'kwargs'
        if ad != bd:
            return 'random-state'
        return None

    why = None
    for side_a, side_b in ((exp, got), (got, exp)):
        for a in side_a:
            reasons = [match(a, b) for b in side_b]
            if None not in reasons:
                # the most specific reason among the candidates: prefer the one of the closest call
                order = ['meta-index', 'constant', 'kwargs', 'random-state', 'row-args']
                rs = sorted(set(reasons), key=order.index) if reasons else ['row-args']
                why = rs[0]
                return why
    return why


_LOG_SIG = {'meta-index': 'C18:vectorize:meta-index-in-batch', 'constant': 'C18:vectorize:constant-not-passed-through',
            'kwargs': 'C18:vectorize:kwargs-not-passed-through', 'random-state': 'C18:vectorize:random-state-stream',
            'row-args': 'C18:vectorize:row-args-mismatch'}


def _vec_call(vs, sub):
    """One call of the vectorised callable `vs` for sub-case `sub` + reference.  -> (sig|None, detail, outdigest)"""
    bs = sub['bs']
    inputs = [make_input(kd, k, bs) for k, kd in enumerate(sub['kinds'])]
    ref_inputs = [make_input(kd, k, bs) for k, kd in enumerate(sub['kinds'])]
    dtype = DTYPES[sub['dtype']]
    op = OPS[sub['ret']]
    given = bs if sub['bsmode'] == 'given' else None

    del LOG[:]
    exp = ref_vectorize(op, ref_inputs, sub['mask'], dtype, given, _kwargs(sub['kw'], sub['seed']))
    exp_log = list(LOG)

    del LOG[:]
    kw = _kwargs(sub['kw'], sub['seed'])
    if given is not None:
        kw['batch_size'] = given
    try:
        got = vs(*inputs, **kw)
        raised = None
    except Exception as e:  # noqa
        got = None
        raised = e
    got_log = list(LOG)
    del LOG[:]

    detail = {'sub': sub, 'expected_status': exp['status']}
    handed = MASKS.get(id(vs), (None, None))[1]
    if handed is not None and list(handed) != list(sub['mask']):
        return 'C18:vectorize:constants-argument-mutated', dict(detail, constants_now=list(handed)), None
    if exp['status'] == REJECT:
        if raised is None:
            return 'C18:vectorize:length-mismatch-accepted', dict(detail, got=_short(got)), 'rej'
        return None, None, 'rej:' + type(raised).__name__
    if raised is not None and exp['status'] == 'value':
        return ('C18:vectorize:raises-on-valid-input:' + type(raised).__name__,
                dict(detail, exception=_short(raised), expected=_short(exp['out']),
                     trace=''.join(traceback.format_exception(type(raised), raised, raised.__traceback__))[-1200:]), None)
    # the calls the operation saw
    if raised is None or len(got_log) == len(exp_log):
        why = _cmp_logs(got_log, exp_log, exp['const'])
        if why is None and len(got_log) != len(exp_log):
            why = 'row-args'
        if why:
            if len(got_log) != len(exp_log) and why == 'row-args':
                return ('C18:vectorize:wrong-batch-length',
                        dict(detail, calls=len(got_log), expected_calls=len(exp_log)), None)
            return _LOG_SIG[why], dict(detail, got_calls=_short(got_log, 600), expected_calls=_short(exp_log, 600)), None
    if exp['status'] == 'convert-raises':
        if raised is not None:
            return None, None, 'conv:' + type(raised).__name__
        # the statement is satisfied by any array whose i-th entry is the i-th output
        if not isinstance(got, np.ndarray) or len(got) != exp['bs'] or \
                not all(_same_value(got[i], exp['rows'][i]) or _same(got[i], exp['rows'][i]) for i in range(exp['bs'])):
            return 'C18:vectorize:output-mismatch', dict(detail, got=_short(got), rows=_short(exp['rows'])), None
        return None, None, 'conv-ok:' + _h(got)
    out = exp['out']
    if not isinstance(got, np.ndarray):
        return 'C18:vectorize:output-not-array', dict(detail, got=_short(got)), None
    if len(got) != len(out):
        return 'C18:vectorize:wrong-batch-length', dict(detail, got=_short(got), expected=_short(out)), None
    if not _same(got, out):
        return 'C18:vectorize:output-mismatch', dict(detail, got=_short(got), got_dtype=str(got.dtype),
                                                       expected=_short(out), expected_dtype=str(out.dtype)), None
    return None, None, _h(got)


MASKS = {}        # id(vectorised callable) -> (callable, the constants object handed to vectorize)


def _vectorized(sub):
    mask = sub['mask']
    kw = {}
    if mask is not None:
        # a private copy: the callable under test must not be able to change the case
        kw['constants'] = tuple(mask) if sub.get('mask_as') == 'tuple' else list(mask)
    dtype = DTYPES[sub['dtype']]
    if dtype is not None:
        kw['dtype'] = dtype
    vs = _tools().vectorize(OPS[sub['ret']], **kw)
    MASKS[id(vs)] = (vs, kw.get('constants'))
    return vs


def _subcases(case):
    a = case['arity']
    for kinds in itertools.product(case['kinds'], repeat=a):
        for bs in case['bs']:
            if 'v1' in kinds and bs == 1:
                continue
            for bsmode in ('given', 'inferred'):
                for ret in case['rets']:
                    for kwv in case['kws']:
                        yield {'kind': 'vec1', 'arity': a, 'mask': case['mask'], 'dtype': case['dtype'],
                               'kinds': list(kinds), 'bs': bs, 'bsmode': bsmode, 'ret': ret, 'kw': kwv,
                               'seed': case['seed']}


@guarded('C18')
def run_vec(case):
    """All sub-cases of one (arity, mask, dtype) on shared vectorised callables (one per return kind)."""
    shared = {}
    n = 0
    outs = set()
    rejects = convs = 0
    done = []
    MIXED[0] = 0
    for sub in _subcases(case):
        vs = shared.get(sub['ret'])
        if vs is None:
            vs = shared[sub['ret']] = _vectorized(sub)
        sig, detail, od = _vec_call(vs, sub)
        n += 1
        if sig:
            # does a fresh callable show the same?  (otherwise the history matters)
            sig2, detail2, _ = _vec_call(_vectorized(sub), sub)
            if sig2 is not None:
                return bad(sig2, detail2)
            # shortest history: one earlier call of this enumeration that is enough
            for e in done:
                if e['ret'] != sub['ret']:
                    continue
                v2 = _vectorized(sub)
                _vec_call(v2, e)
                if _vec_call(v2, sub)[0]:
                    return bad('C18:vectorize:history-dependence',
                               {'witness': {'kind': 'vecseq', 'subs': [e, sub]}, 'after_history': detail})
            return bad('C18:vectorize:history-dependence',
                       {'witness': {'kind': 'vec', 'note': 'no single earlier call suffices; replay the pool case'},
                        'after_history': detail, 'calls_before': n - 1})
        outs.add(od)
        rejects += od.startswith('rej')
        convs += od.startswith('conv')
        done.append(sub)
    r = ok(outcome=digest(sorted(outs)), vec_calls=n, vec_length_rejections=rejects, vec_numpy_refuses_stack=convs,
           vec_distinct_outputs_per_case_sum=len(outs), vec_first_row_narrower_than_a_later_row=MIXED[0] // 2)
    r.update(evals=n, distinct=n)
    return r


@guarded('C18')
def run_vec1(case):
    """Replay of exactly one sub-case on a fresh vectorised callable."""
    sig, detail, od = _vec_call(_vectorized(case), case)
    if sig:
        return bad(sig, detail)
    return ok(outcome=od)


@guarded('C18')
def run_vecseq(case):
    """Replay of a short call history on one vectorised callable."""
    subs = [s for s in case['subs'] if s is not None]
    vs = _vectorized(subs[0])
    for i, sub in enumerate(subs):
        sig, detail, od = _vec_call(vs, sub)
        if sig:
            return bad('C18:vectorize:history-dependence' if i else sig, detail)
    return ok(outcome='seq')


# =====================================================================================================
# section model (vectorize inside a model run)
# =====================================================================================================
def _row_core(args):
    c = 0.0
    for k, a in enumerate(args):
        c += (k + 1) * _val(a)
    return c


def mrow_num(*args, random_state=None, meta=None):
    u = random_state.random_sample()
    c = _row_core(args)
    if meta is not None:
        c += 100.0 * meta.get('index_in_batch', -7) + 1000.0 * meta['batch_index']
    return c + u


def mrow_vec(*args, random_state=None, meta=None):
    u = random_state.random_sample()
    mi, bi = (-1, -1) if meta is None else (meta.get('index_in_batch', -7), meta['batch_index'])
    return np.array([_row_core(args), u, mi, bi])


def mrow_obj(*args, random_state=None, meta=None):
    u = random_state.random_sample()
    mi, bi = (-1, -1) if meta is None else (meta.get('index_in_batch', -7), meta['batch_index'])
    return {'c': _row_core(args), 'u': u, 'mi': mi, 'bi': bi}


def twin_sim(*args, batch_size=1, random_state=None, meta=None):
    """Hand-vectorised twin: only the draws (one per row, in row order)."""
    return random_state.random_sample(size=batch_size)


def srow_num(y):
    return 2.0 * y + 1.0


def srow_vec(y):
    return np.array([y[0] + y[1], y[2] - y[3]])


def srow_obj(y):
    return y['c'] + y['u']


MROWS = {'num': (mrow_num, srow_num), 'vec': (mrow_vec, srow_vec), 'obj': (mrow_obj, srow_obj)}


def _observed(ret):
    if ret == 'num':
        return np.array([1.5])
    if ret == 'vec':
        return np.array([[1.0, 0.5, 0.0, 0.0]])
    o = np.empty(1, dtype=object)
    o[0] = {'c': 1.0, 'u': 0.5, 'mi': 0, 'bi': 0}
    return o


CONST_ARR = [1.0, 2.0, 4.0]


def _build_model(case, twin):
    """-> (model, parent names, constants mask, constant values by position)"""
    import elfi
    v = case['variant']
    m = elfi.ElfiModel(name='c18_' + v)
    parents, mask, consts = [], None, {}
    if v == 'a0':
        pass
    elif v == 'p1':
        parents = [elfi.Prior('uniform', 0, 4, model=m, name='t1')]
    elif v == 'p2':
        t1 = elfi.Prior('uniform', 0, 4, model=m, name='t1')
        parents = [t1, elfi.Prior('normal', t1, 1, model=m, name='t2')]
    elif v == 'p1c':
        parents = [elfi.Prior('uniform', 0, 4, model=m, name='t1'), 2.5]
        consts = {1: 2.5}
    elif v == 'p1ca':
        # an array constant has to be declared in the mask (its length is not the batch length)
        parents = [elfi.Prior('uniform', 0, 4, model=m, name='t1'), elfi.Constant(np.array(CONST_ARR), model=m, name='k')]
        mask = [1]
        consts = {1: np.array(CONST_ARR)}
    elif v == 'cp1':
        parents = [elfi.Constant(np.array(CONST_ARR), model=m, name='k'), elfi.Prior('uniform', 0, 4, model=m, name='t1'),
                   'abc']
        mask = (0,)
        consts = {0: np.array(CONST_ARR), 2: 'abc'}
    elif v == 'pm':
        parents = [elfi.Prior('uniform', 0, 4, model=m, name='t1', size=2), elfi.Prior('uniform', 1, 2, model=m, name='t2')]
    elif v == 'cc':
        parents = [2.5, 7]
        consts = {0: 2.5, 1: 7}
    else:
        raise KeyError(v)
    ret = case['ret']
    rowf, srow = MROWS[ret]
    dtype = DTYPES[case['dtype']]
    tools = elfi.tools
    vk = {}
    if mask is not None:
        vk['constants'] = mask
    if dtype is not None:
        vk['dtype'] = dtype
    op = twin_sim if twin else tools.vectorize(rowf, **vk)
    sim = elfi.Simulator(op, *parents, model=m, name='sim', observed=None if twin else _observed(ret))
    if case['meta']:
        sim.uses_meta = True
    if not twin:
        sk = {'dtype': dtype} if dtype is not None and ret != 'obj' else {}
        elfi.Summary(tools.vectorize(srow, **sk), sim, model=m, name='S')
    pnames = [p.name if hasattr(p, 'name') else None for p in parents]
    return m, pnames, consts


def _compute(model, names, bs, seed, index):
    import elfi
    from elfi.model.elfi_model import ComputationContext
    ctx = ComputationContext(batch_size=bs, seed=seed)
    bh = elfi.client.BatchHandler(model, context=ctx, output_names=list(names))
    return bh.compute(index)


@guarded('C18')
def run_model(case):
    models.native_client()
    bs, seed, bi, ret = case['bs'], case['seed'], case['batch_index'], case['ret']
    dtype = DTYPES[case['dtype']]
    m, pnames, consts = _build_model(case, twin=False)
    real = [p for p in pnames if p is not None and p not in ('k',)]
    batch = _compute(m, real + ['sim', 'S'], bs, seed, bi)
    mt, _, _ = _build_model(case, twin=True)
    tb = _compute(mt, real + ['sim'], bs, seed, bi)
    for p in real:
        if not _same(np.asarray(batch[p]), np.asarray(tb[p])):
            raise RuntimeError('harness: twin model draws different parents (%s)' % p)
    u = np.asarray(tb['sim'])
    if u.shape != (bs,):
        raise RuntimeError('harness: twin draws have shape %r' % (u.shape,))
    # literal loop
    rows = []
    for r in range(bs):
        args = []
        for k, p in enumerate(pnames):
            if k in consts:
                args.append(consts[k])
            else:
                args.append(batch[p][r])
        c = _row_core(args)
        mi, b2 = (r, bi) if case['meta'] else (-1, -1)
        if ret == 'num':
            if case['meta']:
                c += 100.0 * mi + 1000.0 * b2
            rows.append(c + float(u[r]))
        elif ret == 'vec':
            rows.append(np.array([c, float(u[r]), mi, b2]))
        else:
            rows.append({'c': c, 'u': float(u[r]), 'mi': mi, 'bi': b2})
    detail = {'case': case}
    sim = batch['sim']
    if not isinstance(sim, np.ndarray) or len(sim) != bs:
        return bad('C18:model:wrong-batch-length', dict(detail, got=_short(sim)))
    srow = MROWS[ret][1]
    if dtype is False:
        exp = np.empty(bs, dtype=object)
        for r in range(bs):
            exp[r] = rows[r]
    else:
        exp = np.array(rows, dtype=dtype)
    if not _same(sim, exp):
        # which part differs?
        if ret != 'num' and case['meta']:
            gm = [(_g['mi'] if ret == 'obj' else _g[2]) for _g in sim]
            if [int(x) for x in gm] != list(range(bs)):
                return bad('C18:model:meta-index-in-batch', dict(detail, got_index=_short(gm)))
        return bad('C18:model:simulator-output-mismatch', dict(detail, got=_short(sim), expected=_short(exp)))
    # vectorised summary of the simulated batch and of the observed data
    S = batch['S']
    srows = [srow(sim[r]) for r in range(bs)]
    sexp = np.array(srows, dtype=dtype if (dtype is not None and ret != 'obj') else None)
    if not _same(np.asarray(S), sexp):
        return bad('C18:model:summary-output-mismatch', dict(detail, got=_short(S), expected=_short(sexp)))
    sobs = m['S'].observed
    oexp = np.array([srow(_observed(ret)[0])], dtype=dtype if (dtype is not None and ret != 'obj') else None)
    if not _same(np.asarray(sobs), oexp):
        return bad('C18:model:observed-summary-mismatch', dict(detail, got=_short(sobs), expected=_short(oexp)))
    return ok(outcome=_h(sim), model_runs=1, model_rows=bs)


# =====================================================================================================
# section external
# =====================================================================================================
TOKENS = ['{0}', '{1}', '{batch_size}', '{seed}', '{batch_index}', '{index_in_batch}', '7']
KEYWORDS = ['batch_size', 'seed', 'batch_index', 'index_in_batch']
FORMS = {
    # name: (separator handed to external_operation, command builder)
    'echo': (' ', lambda toks: 'echo ' + ' '.join(toks)),
    'echo-wide': (' ', lambda toks: 'echo   ' + '    '.join(toks) + '  '),
    'printf-comma': (',', lambda toks: "printf '%s' '" + ','.join(toks) + "'"),
    'printf-comma-nl': (',', lambda toks: "printf '%s\\n' '" + ','.join(toks) + "'"),
    'printf-semi': (';', lambda toks: "printf '%s' '" + ';'.join(toks) + "'"),
    'printf-space': (' ', lambda toks: "printf '%s' '" + ' '.join(toks) + "'"),
}
XDTYPES = {'None': None, 'int8': 'int8', 'float': 'float', 'int64': 'int64', 'float32': 'float32',
           'np:int32': 'np:int32', 'np:float64': 'np:float64'}


def _xdtype(name):
    v = XDTYPES[name]
    if isinstance(v, str) and v.startswith('np:'):
        return np.dtype(v[3:])
    return v


def _is_int(name):
    return 'int' in name


def ref_sub_seed(key0, index):
    """(index+1)-th distinct value of the RandomState(key0) uint32 stream below 2**31 (documented derivation)."""
    seen = []
    rs = np.random.RandomState(key0)
    while len(seen) < index + 1:
        v = int(rs.randint(2 ** 31, dtype='uint32'))
        if v not in seen:
            seen.append(v)
    return seen[-1]


def _values(case):
    """The inputs of an external call: positional values and keyword values."""
    if _is_int(case['dtype']):
        pos = [3, -4]
    else:
        pos = [2.5, -3] if case.get('posv', 'a') == 'a' else [np.float64(0.1) + 0.2, np.array(1e-3)]
    kwv = {'batch_size': 2, 'seed': 11, 'batch_index': 5, 'index_in_batch': 1}
    return pos, kwv


def _call_kwargs(case, kwv, omit=()):
    """Keyword arguments of the call for the supply mode. -> (kwargs, derived seed or None)"""
    mode = case['mode']
    kw = {}
    derived = None
    if mode == 'kw':
        for k, v in kwv.items():
            if k not in omit:
                kw[k] = v
    else:  # 'meta': batch_index/index_in_batch through the meta dict, seed from random_state
        meta = {k: kwv[k] for k in ('batch_index', 'index_in_batch') if k not in omit}
        meta['model_name'] = 'm'
        kw['meta'] = meta
        if 'batch_size' not in omit:
            kw['batch_size'] = kwv['batch_size']
        if 'seed' not in omit:
            rs = np.random.RandomState(case['seed'])
            kw['random_state'] = rs
            derived = 'pending'
    return kw, derived


def _ext_op(case):
    sep, build = FORMS[case['form']]
    cmd = build(case['tokens'])
    tools = _tools()
    kw = {}
    dt = _xdtype(case['dtype'])
    if dt is not None:
        kw['process_result'] = dt
    if sep != ' ' or case.get('sep_explicit'):
        kw['sep'] = sep
    return tools.external_operation(cmd, **kw), cmd


@guarded('C18')
def run_ext(case):
    op, cmd = _ext_op(case)
    pos, kwv = _values(case)
    toks = case['tokens']
    detail = {'case': case, 'command': cmd}
    n_sub = 0
    # ---- every used key left out once: must raise before anything runs
    for t in sorted(set(toks)):
        if not t.startswith('{'):
            continue
        key = t[1:-1]
        if key.isdigit():
            args = pos[:int(key)]
            kw, _ = _call_kwargs(case, kwv)
        else:
            args = pos
            kw, _ = _call_kwargs(case, kwv, omit=(key,))
        n_sub += 1
        try:
            r = op(*args, **kw)
        except KeyError:
            if key.isdigit():
                pass   # any exception is fine for a missing positional input
        except (IndexError, ValueError, TypeError, LookupError) as e:
            if not key.isdigit():
                return bad('C18:external:missing-keyword-not-KeyError', dict(detail, missing=key, got=_short(e)))
        else:
            return bad('C18:external:missing-input-accepted', dict(detail, missing=key, got=_short(r)))
    # ---- the full call
    kw, derived = _call_kwargs(case, kwv)
    seed_val = kwv['seed']
    derived = derived and '{seed}' in toks
    if derived:
        # oracle for the value of {seed} under random_state is in section extseed; here the value is taken
        # from a second template-free observation with an equal generator
        probe = _tools().external_operation('echo {seed}', process_result='int64')
        seed_val = int(probe(random_state=np.random.RandomState(case['seed']),
                             meta={'index_in_batch': kwv['index_in_batch']})[0])
    got = op(*pos, **kw)
    vals = []
    for t in toks:
        if not t.startswith('{'):
            vals.append(int(t))
        elif t[1:-1].isdigit():
            vals.append(pos[int(t[1:-1])])
        elif t == '{seed}':
            vals.append(seed_val)
        else:
            vals.append(kwv[t[1:-1]])
    dt = _xdtype(case['dtype'])
    exp = np.array([float(v) if dt is None else v for v in vals], dtype=float if dt is None else dt)
    if not isinstance(got, np.ndarray):
        return bad('C18:external:output-not-array', dict(detail, got=_short(got)))
    if got.dtype != exp.dtype:
        return bad('C18:external:dtype-mismatch', dict(detail, got=str(got.dtype), expected=str(exp.dtype)))
    if got.shape != exp.shape or not np.array_equal(got, exp):
        return bad('C18:external:parse-mismatch', dict(detail, got=_short(got), expected=_short(exp)))
    r = ok(outcome=_h(got), ext_processes=1 + (1 if derived else 0), ext_missing_key_calls=n_sub)
    r.update(evals=1 + n_sub, distinct=1 + n_sub)
    return r


@guarded('C18')
def run_extseed(case):
    """{seed} under random_state, direct calls with index_in_batch through meta."""
    tools = _tools()
    op = tools.external_operation('echo {seed}', process_result='int64')
    other = tools.external_operation('echo {seed} {0}', process_result='int64')
    s, consumed, bs = case['seed'], case['consumed'], case['bs']

    def gen():
        rs = np.random.RandomState(s)
        if consumed:
            rs.random_sample(size=consumed)
        return rs

    detail = {'case': case}
    n = 0
    first = []
    for r in range(bs):
        first.append(int(op(random_state=gen(), meta={'index_in_batch': r, 'batch_index': 3})[0]))
        n += 1
    # something else in between: another operation, another generator, a reseeded global generator
    other(5, random_state=np.random.RandomState(s + 17), meta={'index_in_batch': 1})
    np.random.seed(s + 1)
    n += 1
    second = []
    for r in reversed(range(bs)):
        second.append(int(op(random_state=gen(), meta={'index_in_batch': r, 'batch_index': 3})[0]))
        n += 1
    second.reverse()
    # one generator object shared by the rows of a batch (as in a model run); repeated with an equal one
    shared = gen()
    third = [int(op(random_state=shared, meta={'index_in_batch': r})[0]) for r in range(bs)]
    shared = gen()
    fourth = [int(op(random_state=shared, meta={'index_in_batch': r})[0]) for r in range(bs)]
    n += 2 * bs
    detail.update(first=first, second=second, shared_generator=third, shared_generator_again=fourth)
    if first != second or third != fourth:
        return bad('C18:external:seed-not-function-of-generator', detail)
    if len(set(first)) != bs or len(set(third)) != bs:
        return bad('C18:external:seed-equal-between-rows', detail)
    # without a row index (not vectorised): one seed, again deterministic
    a = int(op(random_state=gen())[0])
    b = int(op(random_state=gen())[0])
    n += 2
    if a != b:
        return bad('C18:external:seed-not-function-of-generator', dict(detail, no_index=[a, b]))
    key0 = int(gen().get_state()[1][0])
    formula = int(all(first[r] == ref_sub_seed(key0, r) for r in range(bs)))
    r = ok(outcome=digest(first), ext_processes=n, seed_matches_documented_sub_seed_formula=formula,
           seed_formula_compared=1, seed_rows=bs,
           seed_derivation_leaves_generator_untouched=int(first == third))
    r.update(evals=n, distinct=n)
    return r


VTOKENS = ['{0}', '{1}', '{seed}', '{batch_index}', '{index_in_batch}']


@guarded('C18')
def run_extvec(case):
    """vectorize(external_operation(template)) called directly."""
    tools = _tools()
    sep, build = FORMS[case['form']]
    cmd = build(case['tokens'])
    xk = {}
    dt = _xdtype(case['dtype'])
    if dt is not None:
        xk['process_result'] = dt
    if sep != ' ':
        xk['sep'] = sep
    op = tools.vectorize(tools.external_operation(cmd, **xk))
    bs, s = case['bs'], case['seed']
    isint = _is_int(case['dtype'])
    x0 = np.array([(3 + 2 * i) if isint else (0.5 + 1.25 * i) for i in range(bs)])
    x1 = -4 if isint else -1.5
    detail = {'case': case, 'command': cmd}

    def call():
        kw = {'random_state': np.random.RandomState(s), 'meta': {'batch_index': 6, 'model_name': 'm'}}
        if case['bsmode'] == 'given':
            kw['batch_size'] = bs
        return op(x0, x1, **kw)

    got = call()
    again = call()
    ntok = len(case['tokens'])
    if not isinstance(got, np.ndarray) or got.shape != (bs, ntok):
        return bad('C18:extvec:wrong-shape', dict(detail, got=_short(got), expected_shape=[bs, ntok]))
    edt = np.dtype(float) if dt is None else np.dtype(dt)
    if got.dtype != edt:
        return bad('C18:extvec:dtype-mismatch', dict(detail, got=str(got.dtype), expected=str(edt)))
    if not _same(got, again):
        return bad('C18:external:seed-not-function-of-generator', dict(detail, got=_short(got), again=_short(again)))
    seeds = None
    for j, t in enumerate(case['tokens']):
        col = got[:, j]
        if t == '{0}':
            e = x0
        elif t == '{1}':
            e = np.full(bs, x1)
        elif t == '{batch_index}':
            e = np.full(bs, 6)
        elif t == '{index_in_batch}':
            e = np.arange(bs)
        else:
            seeds = col
            continue
        if not np.array_equal(col, e.astype(edt)):
            sig = 'C18:extvec:index-in-batch-mismatch' if t == '{index_in_batch}' else 'C18:extvec:row-mismatch'
            return bad(sig, dict(detail, token=t, got=_short(col), expected=_short(e)))
    if seeds is not None and len(set(seeds.tolist())) != bs:
        return bad('C18:external:seed-equal-between-rows', dict(detail, seeds=_short(seeds)))
    r = ok(outcome=_h(got), ext_processes=2 * bs, extvec_with_seed=int(seeds is not None))
    r.update(evals=2, distinct=1)
    return r


def _ext_model(case, uses_meta=True):
    import elfi
    tools = elfi.tools
    sep, build = FORMS[case['form']]
    cmd = build(case['tokens'])
    xk = {} if sep == ' ' else {'sep': sep}
    m = elfi.ElfiModel(name='c18x')
    t = elfi.Prior('uniform', 0, 4, model=m, name='t1')
    if case['vectorized']:
        op = tools.vectorize(tools.external_operation(cmd, **xk))
        sim = elfi.Simulator(op, t, 123, model=m, name='sim')
    else:
        op = tools.external_operation(cmd, **xk)
        sim = elfi.Simulator(op, 123, -2.5, model=m, name='sim')
    if uses_meta:
        sim.uses_meta = True
    return m, cmd


@guarded('C18')
def run_extmodel(case):
    models.native_client()
    bs, s, bi = case['bs'], case['seed'], case['batch_index']
    m, cmd = _ext_model(case)
    detail = {'case': case, 'command': cmd}
    toks = case['tokens']
    needs_meta = any(t in toks for t in ('{batch_index}', '{index_in_batch}'))
    nproc = 0
    if needs_meta:
        # without uses_meta the keys are not available: documented to fail (KeyError)
        m0, _ = _ext_model(case, uses_meta=False)
        try:
            r = _compute(m0, ['sim'], bs, s, bi)
        except KeyError:
            pass
        else:
            return bad('C18:external:missing-input-accepted', dict(detail, got=_short(r), uses_meta=False))
    names = ['t1', 'sim'] if case['vectorized'] else ['sim']
    got = _compute(m, names, bs, s, bi)
    m2, _ = _ext_model(case)
    again = _compute(m2, names, bs, s, bi)
    sim = np.asarray(got['sim'])
    if case['vectorized']:
        nproc += 2 * bs
        if sim.shape != (bs, len(toks)):
            return bad('C18:extmodel:wrong-shape', dict(detail, got=_short(sim)))
        exp = {'{0}': np.asarray(got['t1'], dtype=float), '{1}': np.full(bs, 123.0),
               '{batch_index}': np.full(bs, float(bi)), '{index_in_batch}': np.arange(bs, dtype=float)}
    else:
        nproc += 2
        if sim.shape != (len(toks),):
            return bad('C18:extmodel:wrong-shape', dict(detail, got=_short(sim)))
        sim = sim[None, :]
        exp = {'{0}': np.array([123.0]), '{1}': np.array([-2.5]), '{batch_size}': np.array([float(bs)]),
               '{batch_index}': np.array([float(bi)])}
    if not _same(np.asarray(got['sim']), np.asarray(again['sim'])):
        return bad('C18:external:seed-not-function-of-generator',
                   dict(detail, got=_short(got['sim']), again=_short(again['sim'])))
    seeds = None
    for j, t in enumerate(toks):
        if t == '{seed}':
            seeds = sim[:, j]
        elif t.startswith('{'):
            if not np.array_equal(sim[:, j], exp[t]):
                sig = 'C18:extmodel:index-in-batch-mismatch' if t == '{index_in_batch}' else 'C18:extmodel:row-mismatch'
                return bad(sig, dict(detail, token=t, got=_short(sim[:, j]), expected=_short(exp[t])))
        elif not np.all(sim[:, j] == float(t)):
            return bad('C18:extmodel:row-mismatch', dict(detail, token=t, got=_short(sim[:, j])))
    if seeds is not None and case['vectorized'] and len(set(seeds.tolist())) != bs:
        return bad('C18:external:seed-equal-between-rows', dict(detail, seeds=_short(seeds)))
    r = ok(outcome=_h(sim), ext_processes=nproc, extmodel_runs=2)
    r.update(evals=2, distinct=1)
    return r


@guarded('C18')
def run_extbig(case):
    """Integers that a float64 cannot represent: the requested integer type must be parsed exactly."""
    tools = _tools()
    dt = case['dtype']
    pr = np.dtype(dt[3:]) if dt.startswith('np:') else dt
    vals = [int(v) for v in case['values']]
    if case['supply'] == 'pos':
        cmd = 'echo ' + ','.join('{%d}' % i for i in range(len(vals)))
        op = tools.external_operation(cmd, process_result=pr, sep=',')
        got = op(*vals)
    else:
        names = ['v%d' % i for i in range(len(vals))]
        cmd = 'echo ' + ','.join('{%s}' % n for n in names)
        op = tools.external_operation(cmd, process_result=pr, sep=',')
        got = op(**dict(zip(names, vals)))
    got = np.asarray(got)
    exp = np.array(vals, dtype=np.dtype(dt[3:] if dt.startswith('np:') else dt))
    if got.dtype != exp.dtype:
        return bad('C18:external:dtype-mismatch', {'case': case, 'got': str(got.dtype), 'expected': str(exp.dtype)})
    if got.shape != exp.shape or [int(v) for v in got.tolist()] != vals:
        return bad('C18:external:large-integer-output-not-parsed-exactly',
                   {'case': case, 'command': cmd, 'got': [int(v) for v in np.ravel(got).tolist()], 'expected': vals})
    return ok(outcome=digest((dt, vals)), subprocess_calls=1)


RUNNERS = {'vec': run_vec, 'vec1': run_vec1, 'vecseq': run_vecseq, 'model': run_model, 'ext': run_ext,
           'extseed': run_extseed, 'extvec': run_extvec, 'extmodel': run_extmodel, 'extbig': run_extbig}


def replay(case):
    return RUNNERS[case['kind']](case)


# =====================================================================================================
# enumeration
# =====================================================================================================
def _masks(arity, q):
    """None, every subset of positions, and one mask with an index beyond the arity."""
    out = [None]
    for r in range(arity + 1):
        for c in itertools.combinations(range(arity), r):
            out.append(list(c))
    out.append([arity + 2])
    return out


def _templates(q):
    """Token sequences: all of length 1 and 2; length 3: sorted selections (quick) / all (thorough);
    plus the template that uses every token."""
    seqs = [[t] for t in TOKENS] + [list(p) for p in itertools.product(TOKENS, repeat=2)]
    if q:
        seqs += [list(c) for c in itertools.combinations(TOKENS, 3)]
    else:
        seqs += [list(p) for p in itertools.product(TOKENS, repeat=3)]
        seqs += [list(c) for c in itertools.combinations(TOKENS, 4)]
    seqs.append(list(TOKENS))
    return seqs


def run(ctx):
    q = ctx.quick
    base = ctx.seed * 1000

    def section(runner, cases, name, **kw):
        if ctx.only and name not in ctx.only:
            return
        ctx.run_cases(runner, cases, name, **kw)

    # ---------------------------------------------------------------- vectorize, direct
    k7 = ['py', 'a0', 'v', 'm2', 'list', 'str', 'vlong']
    if q:
        std = dict(bs=[1, 2, 3], rets=['num', 'vec2', 'dict', 'mixnum', 'mixstr'], kws=['none', 'meta', 'all'])
        plan = {0: dict(std, kinds=['py']), 1: dict(std, kinds=k7), 2: dict(std, kinds=k7),
                3: dict(kinds=['py', 'v', 'm2', 'list', 'vlong'], bs=[1, 2, 3], rets=['num', 'vec2'],
                        kws=['none', 'all'])}
        dts = ['None', 'float', 'int', 'object', 'False']
    else:
        full = ['py', 'pyint', 'a0', 'v', 'vi', 'm2', 'm1', 'list', 'tuple', 'str', 'none', 'vlong', 'v1']
        std = dict(bs=[1, 2, 3, 4], rets=['num', 'int', 'vec2', 'dict', 'ragged', 'str', 'none', 'mixnum', 'mixstr'],
                   kws=['none', 'meta', 'rs', 'extra', 'all'])
        plan = {0: dict(std, kinds=['py']), 1: dict(std, kinds=full), 2: dict(std, kinds=full, bs=[1, 2, 3]),
                3: dict(kinds=['py', 'a0', 'v', 'm2', 'list', 'str', 'vlong'], bs=[1, 2, 3],
                        rets=['num', 'vec2', 'ragged'], kws=['none', 'meta', 'all']),
                4: dict(kinds=['py', 'v', 'm2', 'vlong'], bs=[1, 2], rets=['num', 'vec2'], kws=['none', 'all'])}
        dts = ['None', 'float', 'int', 'object', 'False', 'float32', 'str']
    cases = []
    for a, pl in sorted(plan.items()):
        for mi, mask in enumerate(_masks(a, q)):
            for dt in dts:
                c = {'kind': 'vec', 'arity': a, 'mask': mask, 'dtype': dt, 'kinds': pl['kinds'], 'bs': pl['bs'],
                     'rets': pl['rets'], 'kws': pl['kws'], 'seed': base + (a + mi) % 5}
                cases.append(c)
    ctx.extra['vectorize_alphabet'] = {
        'by_arity': {str(k): v for k, v in plan.items()}, 'dtypes': dts,
        'masks': 'None + every subset of positions + one index beyond arity',
        'batch_size': ['given', 'inferred'], 'pool_cases': len(cases)}
    # heavy cases first so the pool balances
    cases.sort(key=lambda c: -len(c['kinds']) ** c['arity'])
    section(run_vec, cases, 'vectorize', chunksize=1)

    # ---------------------------------------------------------------- vectorize inside a model
    variants = ['a0', 'p1', 'p2', 'p1c', 'p1ca', 'cp1', 'pm', 'cc']
    mbs = [1, 2, 3] if q else [1, 2, 3, 4, 5]
    mbi = [0, 2] if q else [0, 1, 2, 5]
    mseeds = [base + k for k in range(2 if q else 5)]
    cases = []
    for v in variants:
        for ret, dlist in (('num', ['None', 'float'] if q else ['None', 'float', 'float32', 'object']),
                           ('vec', ['None'] if q else ['None', 'float', 'object']),
                           ('obj', ['False'])):
            for dt in dlist:
                for meta in (False, True):
                    for bs in mbs:
                        for bi in mbi:
                            for s in mseeds:
                                cases.append({'kind': 'model', 'variant': v, 'ret': ret, 'dtype': dt, 'meta': meta,
                                              'bs': bs, 'batch_index': bi, 'seed': s})
    ctx.extra['model_alphabet'] = {'variants': variants, 'batch_sizes': mbs, 'batch_indices': mbi, 'seeds': mseeds,
                                   'cases': len(cases)}
    section(run_model, cases, 'model', sample_every=max(1, len(cases) // 4))

    # ---------------------------------------------------------------- external, direct
    temps = _templates(q)
    forms = ['echo', 'printf-comma'] if q else ['echo', 'echo-wide', 'printf-comma', 'printf-comma-nl', 'printf-semi',
                                                 'printf-space']
    # thorough: a second set of positional values (numpy scalar, 0-d array) for the non-integer types, `echo` form
    posv_forms = ['echo']
    xdts = ['None', 'int8', 'float'] if q else ['None', 'int8', 'float', 'int64', 'float32', 'np:int32', 'np:float64']
    cases = []
    skipped = 0
    for ti, toks in enumerate(temps):
        for form in forms:
            for dt in xdts:
                for mode in ('kw', 'meta'):
                    if mode == 'meta' and '{seed}' in toks and dt in ('int8', 'float32'):
                        skipped += 1     # a derived seed does not fit the requested type
                        continue
                    c = {'kind': 'ext', 'tokens': toks, 'form': form, 'dtype': dt, 'mode': mode,
                         'seed': base + ti % 4}
                    if not q and not _is_int(dt) and form in posv_forms:
                        for pv in ('a', 'b'):
                            cases.append(dict(c, posv=pv))
                    else:
                        cases.append(c)
    ctx.extra['external_alphabet'] = {'tokens': TOKENS, 'templates': len(temps), 'forms': forms, 'dtypes': xdts,
                                      'supply_modes': ['kw', 'meta+random_state'], 'cases': len(cases),
                                      'skipped_seed_does_not_fit_dtype': skipped}
    section(run_ext, cases, 'external', sample_every=max(1, len(cases) // 4))

    # ---------------------------------------------------------------- integers beyond 2**53
    big = {'int64': [2 ** 53 + 1, -(2 ** 53 + 1), 2 ** 63 - 1, -(2 ** 63) + 1, 2 ** 62 + 3],
           'uint64': [2 ** 53 + 1, 2 ** 64 - 1, 2 ** 63 + 5]}
    cases = []
    for dt, vs in big.items():
        for form in (dt, 'np:' + dt):
            for supply in ('pos', 'kw'):
                for k in range(1, len(vs) + 1):
                    cases.append({'kind': 'extbig', 'dtype': form, 'supply': supply, 'values': vs[:k]})
                    if not q:
                        cases.append({'kind': 'extbig', 'dtype': form, 'supply': supply, 'values': vs[::-1][:k]})
    section(run_extbig, cases, 'extbig')

    # ---------------------------------------------------------------- seeds
    cases = [{'kind': 'extseed', 'seed': base + k, 'consumed': c, 'bs': bs}
             for k in range(4 if q else 12) for c in ((0, 3) if q else (0, 1, 3, 700)) for bs in ((3,) if q else (2, 3, 5))]
    section(run_extseed, cases, 'extseed')

    # ---------------------------------------------------------------- vectorize(external), direct
    vt = [[t] for t in VTOKENS] + [list(p) for p in itertools.product(VTOKENS, repeat=2)] + [list(VTOKENS)]
    if not q:
        vt += [list(p) for p in itertools.permutations(VTOKENS, 3)]
    cases = []
    for ti, toks in enumerate(vt):
        for form in (['echo'] if q else ['echo', 'printf-comma']):
            for dt in (['None'] if q else ['None', 'int64']):
                for bs in ([1, 3] if q else [1, 2, 3]):
                    for bsmode in (('inferred',) if q else ('given', 'inferred')):
                        cases.append({'kind': 'extvec', 'tokens': toks, 'form': form, 'dtype': dt, 'bs': bs,
                                      'bsmode': bsmode if bs != 3 or not q else 'given', 'seed': base + ti % 3})
    ctx.extra['extvec_alphabet'] = {'tokens': VTOKENS, 'templates': len(vt), 'cases': len(cases)}
    section(run_extvec, cases, 'extvec')

    # ---------------------------------------------------------------- external inside a model
    cases = []
    vtemps = [list(VTOKENS), ['{index_in_batch}', '{seed}', '{0}'], ['{0}', '{seed}']]
    ntemps = [['1', '{0}', '{batch_size}', '{seed}'], ['{1}', '{batch_index}', '{batch_size}']]
    for toks in vtemps:
        for form in (['echo'] if q else ['echo', 'printf-comma']):
            for bs in [1, 2, 3]:
                for bi in ([0, 2] if q else [0, 1, 2, 4]):
                    for s in ([base] if q else [base, base + 1, base + 2]):
                        cases.append({'kind': 'extmodel', 'vectorized': True, 'tokens': toks, 'form': form, 'bs': bs,
                                      'batch_index': bi, 'seed': s})
    for toks in ntemps:
        for bs in [1, 2, 3]:
            for bi in [0, 2]:
                cases.append({'kind': 'extmodel', 'vectorized': False, 'tokens': toks, 'form': 'echo', 'bs': bs,
                              'batch_index': bi, 'seed': base})
    section(run_extmodel, cases, 'extmodel')

    ctx.rule = (
        'vectorize: one case per (arity, constants mask, dtype); inside it the full product input-kind tuple x batch '
        'size x batch_size given/inferred x return kind x kwargs variant is called on the real vectorised callable '
        'and compared with a literal per-row loop (every sub-case is a distinct input combination, none trivial). '
        'model: product model variant x return kind x dtype x uses_meta x batch size x batch index x seed, each one '
        'real BatchHandler.compute. external: every token sequence of the template grammar x command form x dtype x '
        'supply mode, one real subprocess each, plus one call per used key with that key left out. '
        'distinct by case content; outcomes = digests of the returned arrays')
    ctx.assumptions += [
        'an input is a row input iff it is a numpy array with ndim >= 1 and not named in `constants`; lists, tuples, '
        'strings, None, Python scalars and 0-d arrays are constants (the rule the docstring/error message describe)',
        'constants must reach the operation with identical type and value; row arguments are compared by shape and '
        'value; the order of the per-row calls is not constrained (calls are compared as sets), the keyword '
        '`batch_size` is neither required nor forbidden in the per-row call',
        'when numpy itself refuses to stack the per-row outputs for the requested dtype (reference np.array raises) '
        'either an exception or any array with the right entries is accepted',
        'mismatching lengths must raise some exception (type not constrained)',
        'model section: the per-row random draws are taken from a twin model whose simulator is vectorised by hand '
        '(random_sample(size=bs) == bs successive random_sample() calls of numpy RandomState)',
        'external: commands are `echo`/`printf` of /bin/sh; values whose text does not fit the requested type '
        '(derived seeds with int8/float32, non-integers with integer types) are excluded; `{batch_size}` is not '
        'used under vectorize (vectorize consumes batch_size)',
        'seed oracle is the statement only (equal generator state and row -> equal seed regardless of calls in '
        'between; pairwise different between the rows of a batch, with the row index supplied through meta as '
        'documented); agreement with the documented derivation get_sub_seed(state key 0, index_in_batch) is reported '
        'as counter seed_matches_documented_sub_seed_formula, not judged',
        'missing keyword input must raise KeyError; a missing positional input may raise any exception',
    ]
