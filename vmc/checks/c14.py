"""C14 Editing, copying and saving a model preserves its structure and meaning.  Mode H.

BFS over edit histories on real ElfiModel objects, lock-step with a dict-graph reference model.
Every history (= every prefix of every longer history) is rebuilt from scratch and its end state
is compared with the reference; invariants are evaluated in every state; copies and loaded models
must generate the same seeded outputs; the original must stay unchanged by anything done to a copy.
"""
import itertools
import os
import shutil
import tempfile

import numpy as np

from .. import pin
from ..canon import digest, canon
from ..guard import guarded
from ..report import ok, bad

PID = 'C14'
LEVEL = 'model_checking'


# ---------------------------------------------------------------- operations of the toy nodes (module level: they pickle)
def op_sum(*args, **kw):
    tot = 0.0
    for a in args:
        tot = tot + np.asarray(a, dtype=float)
    for k in sorted(kw):
        if k not in ('batch_size', 'random_state', 'meta'):
            tot = tot + 2.0 * np.asarray(kw[k], dtype=float)
    return tot


def op_sim(*args, batch_size=1, random_state=None, **kw):
    base = op_sum(*args, **kw)
    return base + random_state.randint(0, 3, size=batch_size)


def op_ident(*args, **kw):
    return op_sum(*args, **kw)


def op_disc(*args, observed=None, **kw):
    o = 0.0
    for x in observed:
        o = o + np.asarray(x, dtype=float)
    return np.abs(op_sum(*args, **kw) - o)


OPS = {'sum': op_sum, 'sim': op_sim, 'ident': op_ident, 'disc': op_disc}


# ---------------------------------------------------------------- reference model
class RefModel:
    """nodes: name -> dict(kind, what, pos=[(param, parent|('const', value))], named={kw: parent}, param=bool)."""

    def __init__(self):
        self.nodes = {}
        self.observed = {}

    def clone(self):
        import copy
        r = RefModel()
        r.nodes = copy.deepcopy(self.nodes)
        r.observed = dict(self.observed)
        return r

    def add(self, name, kind, what, pos, named=None, param=False, obs=None):
        self.nodes[name] = dict(kind=kind, what=what, pos=[(i, p) for i, p in enumerate(pos)], named=dict(named or {}),
                                param=param)
        if obs is not None:
            self.observed[name] = obs

    def children(self, x):
        out = []
        for n, d in self.nodes.items():
            if any(p == x for _, p in d['pos']) or x in d['named'].values():
                out.append(n)
        return out

    def descendants(self, x):
        out = set()
        for c in self.children(x):
            out |= {c} | self.descendants(c)
        return out

    def remove(self, x):
        del self.nodes[x]
        self.observed.pop(x, None)
        for n, d in self.nodes.items():
            d['pos'] = [(i, p) for i, p in d['pos'] if p != x]
            d['named'] = {k: p for k, p in d['named'].items() if p != x}

    def become(self, x, y):
        ny = self.nodes[y]
        self.nodes[x] = dict(kind=ny['kind'], what=ny['what'], pos=list(ny['pos']), named=dict(ny['named']),
                             param=ny['param'])
        self.observed.pop(x, None)
        if y in self.observed:
            self.observed[x] = self.observed.pop(y)
        del self.nodes[y]          # y has no children (alphabet restriction)

    def parameter_names(self):
        return sorted(n for n, d in self.nodes.items() if d['param'])

    def table(self):
        t = {}
        for n, d in self.nodes.items():
            t[n] = (d['kind'], repr(d['what']), tuple(sorted((i, repr(p)) for i, p in d['pos'])),
                    tuple(sorted(d['named'].items())), d['param'])
        return t, {k: repr(np.asarray(v).tolist()) for k, v in self.observed.items()}


# ---------------------------------------------------------------- reading the real model into the same table form
def real_table(m):
    g = m.source_net
    t = {}
    problems = []
    for n in g.nodes:
        if n.startswith('_'):
            continue
        st = g.nodes[n].get('attr_dict')
        if st is None:
            problems.append('node %s has no state' % n)
            continue
        cls = st.get('_class').__name__
        if '_output' in st:
            what = repr(st['_output'])
        elif 'distribution' in st:
            what = repr(st['distribution'])
        else:
            fn = st.get('_operation')
            what = repr(next((k for k, v in OPS.items() if v is fn), getattr(fn, '__name__', str(fn))))
        pos = []
        named = []
        for p in g.predecessors(n):
            param = g[p][n].get('param')
            if p.startswith('_'):
                ps = g.nodes[p].get('attr_dict', {})
                pv = ('const', ps.get('_output'))
            else:
                pv = p
            if isinstance(param, int):
                pos.append((param, repr(pv)))
            else:
                named.append((param, pv))
        t[n] = (cls, what, tuple(sorted(pos)), tuple(sorted(named)), '_parameter' in st)
    obs = {k: repr(np.asarray(v).tolist()) for k, v in m.observed.items()}
    return t, obs, problems


def invariants(m):
    import networkx as nx
    g = m.source_net
    out = []
    if not nx.is_directed_acyclic_graph(g):
        out.append('graph has a cycle')
    for u, v in g.edges:
        if 'attr_dict' not in g.nodes[u] or 'attr_dict' not in g.nodes[v]:
            out.append('dangling edge endpoint: %s->%s' % (u, v))
    for n in g.nodes:
        if n.startswith('_') and g.degree(n) == 0:
            out.append('orphan private constant %s' % n)
    for k in m.observed:
        if not g.has_node(k):
            out.append('observed data for missing node %s' % k)
    return out


# ---------------------------------------------------------------- seed models
def seed_model(kind):
    import elfi
    m = elfi.ElfiModel(name='seed_' + kind)
    r = RefModel()
    if kind == 'empty':
        return m, r
    t = elfi.Prior('uniform', 0, 4, model=m, name='t')
    r.add('t', 'Prior', 'uniform', [('const', 0), ('const', 4)], param=True)
    if kind == 'M2':
        u = elfi.Prior('norm', t, 1, model=m, name='u')
        r.add('u', 'Prior', 'norm', ['t', ('const', 1)], param=True)
        Y = elfi.Simulator(op_sim, t, u, model=m, name='Y', observed=np.array([2.0]))
        r.add('Y', 'Simulator', 'sim', ['t', 'u'], obs=np.array([2.0]))
    else:
        Y = elfi.Simulator(op_sim, t, model=m, name='Y', observed=np.array([2.0]))
        r.add('Y', 'Simulator', 'sim', ['t'], obs=np.array([2.0]))
    S = elfi.Summary(op_ident, Y, model=m, name='S')
    r.add('S', 'Summary', 'ident', ['Y'])
    elfi.Discrepancy(op_disc, S, model=m, name='d')
    r.add('d', 'Discrepancy', 'disc', ['S'])
    return m, r


# ---------------------------------------------------------------- history execution
class World:
    def __init__(self, seedkind, workdir):
        self.m, self.r = seed_model(seedkind)
        self.workdir = workdir
        self.orig = None          # (model, ref, digest at copy time) once a copy was taken
        self.counter = 0
        self.events = []          # things to check at the end that depend on the step (copy/load equality)
        self.fail = None          # violation decided while applying an operation
        self.unmodelled = False   # an edit without a meaning in the reference was accepted: invariants only, no successors

    def fresh(self):
        self.counter += 1
        return 'x%d' % self.counter

    def named(self):
        return sorted(self.r.nodes)

    def enabled(self):
        r = self.r
        names = self.named()
        if self.unmodelled:
            return []
        ops = [('addC',)]
        for p in names:
            ops.append(('addO', p))
        if len(names) >= 2:
            ops.append(('addO2', names[0], names[-1]))
            ops.append(('addOn', names[-1], names[0]))     # one positional + one named parent
        ops.append(('addP',))
        for p in names:
            if r.nodes[p]['param']:
                ops.append(('addPh', p))
        for p in names:
            if r.nodes[p]['kind'] in ('Simulator', 'Summary'):
                ops.append(('addM', p))
        for x in names:
            for y in names:
                if x != y and not r.children(y) and y not in r.descendants(x):
                    ops.append(('become', x, y))
        # a node cannot take over the parents of itself or of one of its own descendants without closing a cycle: such a
        # become has no dataflow meaning; whatever the model does with it, it has to remain a consistent acyclic graph
        for x in names:
            for y in [x] + sorted(r.descendants(x)):
                ops.append(('become_cyc', x, y))
        for x in names:
            ops.append(('remove', x))
        if self.orig is None:
            ops.append(('copy',))
        ops.append(('saveload',))
        if self.orig is not None:
            ops.append(('set_params', 'none'))
            if names:
                ops.append(('set_params', names[0]))
            for p in names:
                if r.nodes[p]['kind'] in ('Simulator', 'Summary'):
                    ops.append(('set_obs', p))
                    break
        return ops

    def apply(self, op):
        import elfi
        m, r = self.m, self.r
        k = op[0]
        if k == 'addC':
            n = self.fresh()
            elfi.Constant(3.0, model=m, name=n)
            r.add(n, 'Constant', 3.0, [])
        elif k == 'addO':
            n = self.fresh()
            elfi.Operation(op_sum, m[op[1]], model=m, name=n)
            r.add(n, 'Operation', 'sum', [op[1]])
        elif k == 'addO2':
            n = self.fresh()
            elfi.Operation(op_sum, m[op[1]], m[op[2]], model=m, name=n)
            r.add(n, 'Operation', 'sum', [op[1], op[2]])
        elif k == 'addOn':
            n = self.fresh()
            elfi.Operation(op_sum, m[op[1]], model=m, name=n)
            m.add_edge(op[2], n, 'kw')
            r.add(n, 'Operation', 'sum', [op[1]], named={'kw': op[2]})
        elif k == 'addP':
            n = self.fresh()
            elfi.Prior('uniform', 1, 2, model=m, name=n)
            r.add(n, 'Prior', 'uniform', [('const', 1), ('const', 2)], param=True)
        elif k == 'addPh':
            n = self.fresh()
            elfi.Prior('norm', m[op[1]], 1, model=m, name=n)
            r.add(n, 'Prior', 'norm', [op[1], ('const', 1)], param=True)
        elif k == 'addM':
            n = self.fresh()
            elfi.Summary(op_ident, m[op[1]], model=m, name=n)
            r.add(n, 'Summary', 'ident', [op[1]])
        elif k == 'become':
            m[op[1]].become(m[op[2]])
            r.become(op[1], op[2])
        elif k == 'become_cyc':
            before = model_digest(m)
            try:
                m[op[1]].become(m[op[2]])
            except Exception as e:
                if model_digest(m) != before:
                    self.fail = ('C14:refused-become-altered-the-model', {'exception': type(e).__name__})
            else:
                self.unmodelled = True
        elif k == 'remove':
            m.remove_node(op[1])
            r.remove(op[1])
        elif k == 'copy':
            kopy = m.copy()
            self.events.append(('same-generate', 'copy', m, kopy))
            self.orig = (m, r.clone(), model_digest(m))
            self.m = kopy
        elif k == 'saveload':
            m.save(prefix=self.workdir)
            loaded = type(m).load(m.name, prefix=self.workdir)
            self.events.append(('same-generate', 'saveload', m, loaded))
            self.events.append(('same-table', 'saveload', m, loaded))
            self.m = loaded
        elif k == 'set_params':
            names = [] if op[1] == 'none' else [op[1]]
            m.parameter_names = names
            for n, d in r.nodes.items():
                d['param'] = n in names
        elif k == 'set_obs':
            m.observed[op[1]] = np.array([7.0])
            r.observed[op[1]] = np.array([7.0])
        else:
            raise KeyError(op)


def model_digest(m):
    """Structural digest of a model (graph, node states, observed data) without its name."""
    g = m.source_net
    nodes = {n: g.nodes[n] for n in g.nodes}
    edges = sorted((u, v, repr(sorted(d.items()))) for u, v, d in g.edges(data=True))
    return digest((nodes, edges, {k: np.asarray(v) for k, v in m.observed.items()}), opaque_by_id=False)


def gen_obs(m):
    """Seeded generate of all named nodes; exceptions are part of the observation."""
    outs = sorted(n for n in m.source_net.nodes if not n.startswith('_'))
    if not outs:
        return 'empty'
    try:
        res = m.generate(2, outs, seed=5)
        return digest({k: np.asarray(v) for k, v in res.items()})
    except Exception as e:
        return 'raises:' + type(e).__name__


def judge(seedkind, hist, workdir):
    """Run the history; return (violation or None, world)."""
    from elfi.clients import native  # noqa
    import elfi.client
    elfi.client.set_client(native.Client())
    pin.reset()
    w = World(seedkind, workdir)
    for op in hist:
        w.apply(tuple(op))
    what = {'seed_model': seedkind, 'history': [list(o) for o in hist]}
    last = hist[-1][0] if hist else 'init'
    if w.fail:
        return (w.fail[0], dict(what, **w.fail[1])), w
    if w.unmodelled:
        inv = invariants(w.m)
        if inv:
            return ('C14:invariant:' + '-'.join(inv[0].split(' ')[:3]) + ':after-' + last, dict(what, problems=inv)), w
        return None, w
    # agreement with the reference
    t, obs, problems = real_table(w.m)
    rt, robs = w.r.table()
    if problems:
        return ('C14:inconsistent-graph:' + problems[0].split(' ')[0], dict(what, problems=problems)), w
    if set(t) != set(rt):
        return ('C14:node-set-differs:after-' + last, dict(what, real=sorted(t), ref=sorted(rt))), w
    for n in sorted(t):
        if t[n] != rt[n]:
            fields = ['class', 'operation', 'positional-parents', 'named-parents', 'parameter-flag']
            which = next(f for f, a, b in zip(fields, t[n], rt[n]) if a != b)
            return ('C14:%s-differs:after-%s' % (which, last), dict(what, node=n, real=repr(t[n]), ref=repr(rt[n]))), w
    if obs != robs:
        return ('C14:observed-data-differs:after-' + last, dict(what, real=obs, ref=robs)), w
    if w.m.parameter_names != w.r.parameter_names():
        return ('C14:parameter_names-differ:after-' + last, dict(what, real=w.m.parameter_names,
                                                                  ref=w.r.parameter_names())), w
    inv = invariants(w.m)
    if inv:
        cls = '-'.join(inv[0].split(' ')[:3])      # class of the broken invariant without node names
        return ('C14:invariant:' + cls + ':after-' + last, dict(what, problems=inv)), w
    # copy / load events
    for ev in w.events:
        if last in ('copy', 'saveload') and ev[3] is w.m:
            if ev[0] == 'same-generate':
                a, b = gen_obs(ev[2]), gen_obs(ev[3])
                if a != b:
                    return ('C14:%s-generates-different-output' % ev[1], dict(what, original=a, other=b)), w
            else:
                ta, tb = real_table(ev[2])[:2], real_table(ev[3])[:2]
                if ta != tb:
                    return ('C14:%s-structure-differs' % ev[1], what), w
    # the original must not be altered by anything done to the copy
    if w.orig is not None:
        om, oref, odig = w.orig
        if model_digest(om) != odig:
            ot, oobs, _ = real_table(om)
            ort, orobs = oref.table()
            if om.parameter_names != oref.parameter_names():
                cls = 'parameter-flags'
            elif oobs != orobs:
                cls = 'observed-data'
            elif ot != ort:
                cls = 'nodes'
            else:
                cls = 'state'
            return ('C14:original-altered-through-copy:%s:by-%s' % (cls, last), what), w
    return None, w


def state_key(w):
    t, obs, _ = real_table(w.m)
    return digest((t, obs, w.orig is not None, model_digest(w.orig[0]) if w.orig else None, w.counter))


@guarded('C14')
def run_bfs(case):
    """All histories below one first operation (a sub-tree of the BFS) up to the depth."""
    seedkind, depth = case['seed_model'], case['depth']
    root = tempfile.mkdtemp(prefix='vmc_c14_', dir=os.environ.get('VMC_SCRATCH', '/var/tmp'))
    n = 0
    states = set()
    transitions = 0
    try:
        with pin.pinned(0):
            frontier = [[tuple(o) for o in case['prefix']]]
            level = len(case['prefix'])
            seen = set()
            while frontier and level <= depth:
                nxt = []
                for hist in frontier:
                    v, w = judge(seedkind, hist, root)
                    n += 1
                    transitions += 1
                    if v:
                        r = bad(v[0], v[1])
                        r['evals'] = n
                        return r
                    k = state_key(w)
                    states.add(k)
                    if level < depth and (k not in seen or not case.get('dedup', True)):
                        seen.add(k)
                        for op in w.enabled():
                            if op[0] == 'become_cyc' and level + 1 == depth and not case.get('cyc_last', True):
                                continue     # thorough: cycle-closing replacements from every state below the last level
                            nxt.append(hist + [op])
                frontier = nxt
                level += 1
    finally:
        shutil.rmtree(root, ignore_errors=True)
    r = ok()
    r.update(evals=n, distinct=n, states=[digest((seedkind, s)) for s in states], transitions=transitions, validated=n,
             outcome_list=[digest(('model-state', s)) for s in states])
    return r


@guarded('C14')
def run_one(case):
    root = tempfile.mkdtemp(prefix='vmc_c14_', dir=os.environ.get('VMC_SCRATCH', '/var/tmp'))
    try:
        with pin.pinned(0):
            hist = [tuple(o) for o in case['history']]
            for n in range(0, len(hist) + 1):
                v, w = judge(case['seed_model'], hist[:n], root)
                if v:
                    return bad(v[0], v[1])
    finally:
        shutil.rmtree(root, ignore_errors=True)
    return ok()


RUNNERS = {'bfs': run_bfs, 'history': run_one}


def replay(case):
    return RUNNERS[case['kind']](case)


def run(ctx):
    q = ctx.quick
    depth = 3 if q else 4
    cases = []
    root = tempfile.mkdtemp(prefix='vmc_c14_', dir=os.environ.get('VMC_SCRATCH', '/var/tmp'))
    try:
        for sk in ('empty', 'M1', 'M2'):
            with pin.pinned(0):
                v, w = judge(sk, [], root)
                first = w.enabled()
            cases.append({'kind': 'bfs', 'seed_model': sk, 'prefix': [], 'depth': 0})
            for op in first:
                # split the second level as well so that the work spreads over the pool
                with pin.pinned(0):
                    v2, w2 = judge(sk, [op], root)
                cases.append({'kind': 'bfs', 'seed_model': sk, 'prefix': [list(op)], 'depth': 1})
                if v2:
                    continue
                for op2 in w2.enabled():
                    cases.append({'kind': 'bfs', 'seed_model': sk, 'prefix': [list(op), list(op2)], 'depth': depth,
                                  'cyc_last': depth <= 3})
    finally:
        shutil.rmtree(root, ignore_errors=True)

    def post(case, r):
        if r.get('viol') and isinstance(r['viol'].get('detail'), dict) and 'history' in r['viol']['detail']:
            d = r['viol']['detail']
            return {'kind': 'history', 'seed_model': d['seed_model'], 'history': d['history']}
        return case
    from .. import par

    def fn(case):
        return case, run_bfs(case)
    for i, (case, r) in enumerate(par.pmap(fn, cases, ordered=True)):
        ctx.record(post(case, r), r, 'histories')
        if i % max(1, len(cases) // 5) == 0:
            ctx.add_sample(case, key=i)
    ctx.extra['depth'] = depth
    ctx.rule = ('BFS over edit histories up to depth %d from seed models {empty, M1, M2}: add Constant/Operation(1-2 '
                'parents, positional or named)/Prior(constant or hierarchical)/Summary, become (replacement childless, not a '
                'descendant; and the cycle-closing become of a node with itself or a descendant, judged on the invariants only), remove, copy (continue on the copy), save+load, and on a copy set parameter_names / assign '
                'observed data; canonical-state dedup inside each sub-tree; every history is a distinct case' % depth)
    ctx.assumptions += [
        'become(x, y) is explored for replacement nodes y without children that are not descendants of x (the documented use: '
        'the statement does not say what happens to other children of the replacement)',
        'cycle-closing become (replacement = the node itself or a descendant): judged on the invariants only (refused without '
        'altering the model, or an acyclic consistent graph); at depth 4 these operations are applied in every state up to depth 2, like in the quick tier',
        'reference model: dict graph written from the statement (vmc/checks/c14.py RefModel)',
        'seeded generate is compared right after copy() / save()+load(); exceptions are part of the observation',
        'random private node names are pinned (uuid4 counter)',
    ]
