"""C04 Sampler results do not depend on worker scheduling or parallelism.  Mode E.

The client is the environment (vmc/sched.py): before every client API call any queued task
may be completed, in any order; is_ready answers truthfully for the chosen completion state.
Every complete schedule of each driver is executed on the real sampler; the leaf oracle compares
the result bit-for-bit with the sequential reference (max_parallel_batches=1, lazy client) and
monitors check ordering, the outstanding bound and client emptiness.
"""
import os
import numpy as np

from .. import explore, models, pin
from ..canon import digest, jsonable
from ..guard import guarded
from ..report import ok, bad
from ..sched import ScheduledClient, sampler_state

PID = 'C04'
LEVEL = 'model_checking'

DRIVERS = {
    # name: (sampler, model, batch_size, n_samples, objective kwargs)
    'rej-nsim': ('rej', 'M1', 2, 3, {'n_sim': 8}),
    'rej-nsim-odd': ('rej', 'M2', 3, 2, {'n_sim': 10}),
    'rej-quant': ('rej', 'M1', 2, 2, {'quantile': 0.25}),
    'rej-thr': ('rej', 'M1', 2, 2, {'threshold': 0.8}),
    'rej-thr-rare': ('rej', 'M1', 1, 2, {'threshold': 0.0}),
    'smc-thr': ('smc', 'M1c', 2, 3, {'thresholds': [1.5, 0.8]}),
    'smc-quant': ('smc', 'M1c', 2, 3, {'quantiles': [0.5, 0.5]}),
    'smc-thr3': ('smc', 'M1c', 2, 2, {'thresholds': [2.0, 1.0, 0.6]}),
    'adsmc': ('adsmc', 'Madapt', 2, 2, {'rounds': 2, 'quantile': 0.5}),
    # adaptive-threshold SMC: the density-ratio fit needs >= 100 particles, so batches are large (the schedule tree
    # depends on the number of batches only)
    'atsmc': ('atsmc', 'M1c', 100, 100, {'max_iter': 2}),
    'rej-nsim-8b': ('rej', 'M1', 1, 3, {'n_sim': 8}),
    'rej-thr-8b': ('rej', 'M1', 1, 3, {'threshold': 0.5}),
}


def make_body(case):
    import elfi
    kind, model, bs, n, obj = DRIVERS[case['driver']]
    mpb = case['mpb']
    cores = case.get('cores', 2)
    seed = case['seed']
    iso = case.get('iso', 'shared')
    default = case.get('default', 'lazy')

    def body(ch):
        pin.reset()
        models.reset_calls()
        m, dname, extras = models.build(model)
        cl = ScheduledClient(ch, cores=cores, isolation=iso, default=default)
        elfi.client.set_client(cl)
        if kind == 'rej':
            s = elfi.Rejection(m, dname, output_names=list(extras), batch_size=bs, seed=seed,
                               max_parallel_batches=mpb)
        elif kind == 'adsmc':
            s = elfi.AdaptiveDistanceSMC(m, dname, output_names=list(extras), batch_size=bs, seed=seed,
                                         max_parallel_batches=mpb)
        elif kind == 'atsmc':
            s = elfi.AdaptiveThresholdSMC(m, dname, output_names=list(extras), batch_size=bs, seed=seed,
                                          max_parallel_batches=mpb, q_threshold=0.9)
        else:
            s = elfi.SMC(m, dname, output_names=list(extras), batch_size=bs, seed=seed,
                         max_parallel_batches=mpb)
        eff_mpb = mpb or cores
        # the adaptive distance node of the sampler's model copy changes while the run proceeds: models are then
        # part of the canonical state at every choice point (no per-object digest caching for them)
        imm = ('Sample', 'SmcSample', 'ModelPrior') if kind == 'adsmc' else None
        cl.state_fn = (lambda c, where: sampler_state(s, c, where, immutable_types=imm)) if imm else \
            (lambda c, where: sampler_state(s, c, where))
        consumed = []
        orig_update = s.update

        def update(batch, batch_index):
            consumed.append(batch_index)
            return orig_update(batch, batch_index)
        s.update = update
        res = s.sample(n, bar=False, **obj)
        out = {k: np.asarray(v) for k, v in res.outputs.items()}
        obs = {
            'outputs': out, 'threshold': res.threshold, 'n_sim': res.n_sim, 'n_batches': res.n_batches,
        }
        if kind in ('smc', 'adsmc', 'atsmc'):
            obs['pops'] = [({k: np.asarray(v) for k, v in p.outputs.items()}, np.asarray(p.weights), p.threshold,
                            p.n_sim, np.asarray(p.cov)) for p in res.populations]
            obs['weights'] = np.asarray(res.weights)
        mon = list(cl.monitor)
        if consumed != list(range(len(consumed))):
            mon.append('batches not consumed in strict index order: %r' % (consumed,))
        if cl.max_outstanding > eff_mpb:
            mon.append('outstanding tasks %d > max_parallel_batches %d' % (cl.max_outstanding, eff_mpb))
        if cl.tasks or cl.done:
            mon.append('tasks left in the client on return: queued %r finished %r' % (sorted(cl.tasks), sorted(cl.done)))
        return {'result': digest(obs, opaque_by_id=False), 'monitor': mon, 'log': digest(cl.log),
                'max_outstanding': cl.max_outstanding, 'consumed': len(consumed),
                'brief': jsonable({'d': out[dname], 'n_sim': res.n_sim, 'threshold': res.threshold})}
    return body


_REF = {}


def reference(case):
    key = (case['driver'], case['seed'])
    if key not in _REF:
        ref_case = dict(case, mpb=1, iso='shared', default='lazy', cores=1)
        run = explore.run_once(make_body(ref_case), [])
        _REF[key] = run.obs
    return _REF[key]


@guarded('C04')
def run_tree(case):
    """Explore the complete schedule tree (optionally pruned / deviation bounded) of one configuration."""
    with pin.pinned(case.get('uuid_offset', 0)):
        ref = reference(case)
        if ref['monitor']:
            # the sequential run (max_parallel_batches=1, lazy client) itself breaks a monitor
            import re
            return bad('C04:monitor:' + re.sub(r'[0-9\[\]\(\),\' ]+', '-', ref['monitor'][0])[:70].strip('-') + ':sequential',
                       {'monitor': ref['monitor'], 'schedule': [], 'case': dict(case, mpb=1)})
        body = make_body(case)
        explore.determinism_selftest(body, case.get('selftest_prefix', [1, 0, 1]) if case['mpb'] != 1 else [])
        logs = set()
        outcomes = set()
        maxout = [0]
        first_bad = []

        def check(obs, run):
            logs.add(obs['log'])
            outcomes.add(obs['result'])
            maxout[0] = max(maxout[0], obs['max_outstanding'])
            if obs['monitor']:
                return ('monitor', obs['monitor'][0], obs['brief'])
            if obs['result'] != ref['result']:
                return ('result', 'differs from sequential reference', {'got': obs['brief'], 'ref': ref['brief']})
            return None
        st = explore.explore(body, check, bound=case.get('bound'), prune=case.get('prune', True),
                             max_executions=case.get('max_executions', TREE_CAP))
    res = {'viol': None, 'outcome': None, 'trivial': st['executions'] <= 1,
           'cnt': {'executions': st['executions'], 'complete': st.get('complete', 0), 'pruned': st.get('pruned', 0),
                   'choice_points': st['choice_points'], 'capped': int(st['capped']),
                   'distinct_event_logs': len(logs)},
           'evals': st['executions'], 'distinct': len(logs),
           'transitions': st.get('transitions', 0) + st['executions'], 'validated': st.get('complete', 0),
           'n_states': st.get('states', 0), 'max_outstanding': maxout[0], 'n_outcomes': len(outcomes),
           'max_depth': st['max_depth'], 'outcomes': sorted(outcomes)}
    if st['violations']:
        # minimal: fewest deviations, then shortest, then lexicographic
        v, choices = min(st['violations'], key=lambda vc: (sum(1 for c in vc[1] if c), len(vc[1]), vc[1]))
        kind, what, detail = v
        sig = 'C04:%s:%s' % (kind, what.split(':')[0].split(' %')[0][:60]) if kind == 'monitor' else 'C04:result-depends-on-schedule'
        if kind == 'monitor':
            import re
            sig = 'C04:monitor:' + re.sub(r'[0-9\[\]\(\),\' ]+', '-', what)[:70].strip('-')
        res['viol'] = {'sig': sig, 'detail': jsonable({'what': what, 'detail': detail, 'schedule': choices,
                                                       'n_violating_schedules': len(st['violations'])})}
        res['witness_schedule'] = choices
    return res


@guarded('C04')
def run_schedule(case):
    """Replay exactly one schedule (a choice list) and judge it: used for replays and witnesses."""
    with pin.pinned(case.get('uuid_offset', 0)):
        ref = reference(case)
        run = explore.run_once(make_body(case), case['schedule'])
    obs = run.obs
    if obs['monitor']:
        import re
        return bad('C04:monitor:' + re.sub(r'[0-9\[\]\(\),\' ]+', '-', obs['monitor'][0])[:70].strip('-'),
                   {'monitor': obs['monitor'], 'brief': obs['brief']})
    if obs['result'] != ref['result']:
        return bad('C04:result-depends-on-schedule', {'got': obs['brief'], 'ref': ref['brief']})
    return ok(outcome=obs['result'])


@guarded('C04')
def run_freerun(case):
    """Free-running cross-check on the real multiprocessing client (adds no schedule coverage)."""
    import elfi
    import elfi.clients.multiprocessing as mpc
    kind, model, bs, n, obj = DRIVERS[case['driver']]
    with pin.pinned(0):
        ref = reference(case)
    try:
        client = mpc.Client(num_processes=case['procs'])
    except Exception as e:  # pool cannot be started in this sandbox
        return ok(outcome='skipped', trivial=True, freerun_skipped=1)
    try:
        elfi.client.set_client(client)
        pin.install(0)
        pin.reset()
        m, dname, extras = models.build(model)
        cls = elfi.Rejection if kind == 'rej' else elfi.SMC
        s = cls(m, dname, output_names=list(extras), batch_size=bs, seed=case['seed'],
                max_parallel_batches=case['mpb'])
        res = s.sample(n, bar=False, **obj)
        out = {k: np.asarray(v) for k, v in res.outputs.items()}
        obs = {'outputs': out, 'threshold': res.threshold, 'n_sim': res.n_sim, 'n_batches': res.n_batches}
        if kind == 'smc':
            obs['pops'] = [({k: np.asarray(v) for k, v in p.outputs.items()}, np.asarray(p.weights), p.threshold,
                            p.n_sim, np.asarray(p.cov)) for p in res.populations]
            obs['weights'] = np.asarray(res.weights)
        left = len(getattr(client, 'tasks', {}))
    finally:
        pin.uninstall()
        try:
            client.reset()
            client.pool.terminate()
        except Exception:
            pass
        models.native_client()
    if digest(obs, opaque_by_id=False) != ref['result']:
        return bad('C04:freerun-differs-from-sequential', {'driver': case['driver'], 'mpb': case['mpb']})
    if left:
        return bad('C04:freerun-task-left', {'left': left})
    return ok(outcome=ref['result'], freerun=1)


def _leaf_verdict(obs, ref):
    if obs['monitor']:
        return ('monitor', obs['monitor'][0], obs['brief'])
    if obs['result'] != ref['result']:
        return ('result', 'differs from sequential reference', {'got': obs['brief'], 'ref': ref['brief']})
    return None


@guarded('C04')
def run_node(case):
    """Wave-parallel exploration: execute exactly one node (prefix) of an unpruned tree, return its children."""
    with pin.pinned(case.get('uuid_offset', 0)):
        ref = reference(case)
        run, kids = explore.expand_one(make_body(case), case['prefix'], bound=case.get('bound'))
    v = _leaf_verdict(run.obs, ref)
    return {'viol': None if not v else {'sig': 'C04:result-depends-on-schedule' if v[0] == 'result' else 'C04:monitor',
                                        'detail': jsonable({'what': v[1], 'detail': v[2], 'schedule': run.choices})},
            'kids': kids, 'log': run.obs['log'], 'outcome': run.obs['result'], 'schedule': run.choices}


@guarded('C04')
def run_subtree(case):
    """Explore (unpruned) the complete subtree below case['prefix'] including the prefix execution itself."""
    with pin.pinned(case.get('uuid_offset', 0)):
        ref = reference(case)
        logs = set()
        outcomes = set()

        def check(obs, run):
            logs.add(obs['log'])
            outcomes.add(obs['result'])
            return _leaf_verdict(obs, ref)
        st = explore.explore(make_body(case), check, bound=case.get('bound'), prune=False, root=case['prefix'],
                             max_executions=case.get('max_executions', SUBTREE_CAP))
    res = {'viol': None, 'executions': st['executions'], 'logs': sorted(logs), 'outcomes': sorted(outcomes),
           'capped': st['capped'], 'choice_points': st['choice_points']}
    if st['violations']:
        v, choices = min(st['violations'], key=lambda vc: (sum(1 for c in vc[1] if c), len(vc[1]), vc[1]))
        res['viol'] = {'sig': 'C04:result-depends-on-schedule' if v[0] == 'result' else 'C04:monitor',
                       'detail': jsonable({'what': v[1], 'detail': v[2], 'schedule': choices})}
        res['witness_schedule'] = choices
    return res


def explore_in_waves(ctx, case, split_levels=2, section='unpruned-wave-trees'):
    """Complete unpruned tree of one configuration, spread over the worker pool: the first `split_levels` levels of
    the execution tree are run node by node, every node of the next level is the root of a subtree task."""
    from .. import par
    frontier = [[]]
    n_exec = 0
    logs = set()
    outcomes = set()
    capped = False
    first_viol = None
    for level in range(split_levels):
        nodes = [dict(case, kind='node', prefix=p) for p in frontier]

        def fn(c):
            return c, run_node(c)
        nxt = []
        for c, r in par.pmap(fn, nodes, ordered=True):
            n_exec += 1
            if r.get('viol'):
                first_viol = first_viol or (dict(case, kind='schedule', schedule=r.get('schedule', c['prefix'])), r)
                continue
            logs.add(r['log'])
            outcomes.add(r['outcome'])
            nxt += r['kids']
        frontier = nxt
    subs = [dict(case, kind='subtree', prefix=p) for p in frontier]

    def fn2(c):
        return c, run_subtree(c)
    for c, r in par.pmap(fn2, subs, chunksize=1, ordered=True):
        if 'executions' not in r:
            first_viol = first_viol or (c, r)
            continue
        n_exec += r['executions']
        logs.update(r['logs'])
        outcomes.update(r['outcomes'])
        capped = capped or r['capped']
        if r.get('viol'):
            first_viol = first_viol or (dict(case, kind='schedule', schedule=r['witness_schedule']), r)
    res = {'viol': first_viol[1]['viol'] if first_viol else None, 'outcome': None, 'trivial': False, 'cnt': {
        'executions': n_exec, 'complete': n_exec, 'pruned': 0, 'capped': int(capped), 'distinct_event_logs': len(logs),
        'choice_points': 0}, 'evals': n_exec, 'distinct': len(logs), 'transitions': n_exec, 'validated': n_exec,
        'outcomes': sorted(outcomes), 'n_outcomes': len(outcomes)}
    rec_case = first_viol[0] if first_viol else dict(case, kind='tree', prune=False)
    for k in ('prefix',):
        rec_case.pop(k, None)
    ctx.record(rec_case, res, section)
    for o in outcomes:
        ctx.outcomes.add((case['driver'], case['seed'], o))
    ctx.extra.setdefault('trees', []).append({'driver': case['driver'], 'mpb': case['mpb'], 'iso': case.get('iso', 'shared'),
                                              'default': 'lazy', 'prune': False, 'bound': case.get('bound'),
                                              'seed': case['seed'], 'executions': n_exec, 'pruned': 0,
                                              'event_logs': len(logs), 'outcomes': len(outcomes), 'capped': bool(capped),
                                              'mode': 'wave-parallel'})
    if capped:
        ctx.exhaustive = False
    return res


# (lowest, highest) number of batches the sequential run of a driver may consume for a seed to be used
BATCH_WINDOW = {'rej-thr': (2, 5), 'rej-thr-rare': (3, 6), 'smc-thr': (4, 9), 'smc-quant': (4, 6), 'smc-thr3': (4, 6),
                'adsmc': (4, 9), 'rej-thr-8b': (6, 8), 'atsmc': (7, 11)}

# The size of a schedule tree depends on how many batches the seeded run consumes (threshold objectives: on the draws), so
# it grows by orders of magnitude for some seeds.  Every tree has an execution cap; a tree that hits it is reported as
# capped (evidence: trees[].capped, exhaustive=false) with what was covered below the cap.
TREE_CAP = int(os.environ.get('VMC_C04_TREE_CAP', 150000))
SUBTREE_CAP = int(os.environ.get('VMC_C04_SUBTREE_CAP', 40000))

RUNNERS = {'tree': run_tree, 'schedule': run_schedule, 'freerun': run_freerun, 'node': run_node, 'subtree': run_subtree}


def replay(case):
    return RUNNERS[case['kind']](case)


def _record_tree(ctx, case, res, section):
    if 'executions' not in (res.get('cnt') or {}):   # an exception escaped from the code under test
        ctx.record(case, res, section)
        return res
    ctx.n_states += res.pop('n_states', 0)
    ctx.extra['max_simultaneously_outstanding'] = max(ctx.extra.get('max_simultaneously_outstanding', 0),
                                                      res.get('max_outstanding', 0))
    ctx.extra['max_choice_depth'] = max(ctx.extra.get('max_choice_depth', 0), res.get('max_depth', 0))
    if res.get('viol') and 'witness_schedule' in res:
        # replayable artefact = the single failing schedule, not the whole tree
        case = dict(case, kind='schedule', schedule=res['witness_schedule'])
        for k in ('prune', 'bound', 'max_executions'):
            case.pop(k, None)
    ctx.record(case, res, section)
    for o in res.get('outcomes', ()):
        ctx.outcomes.add((case['driver'], case['seed'], o))
    per = ctx.extra.setdefault('trees', [])
    per.append({'driver': case['driver'], 'mpb': case['mpb'], 'iso': case.get('iso', 'shared'),
                'default': case.get('default', 'lazy'), 'prune': case.get('prune', True), 'bound': case.get('bound'),
                'seed': case['seed'], 'executions': res['cnt']['executions'], 'pruned': res['cnt']['pruned'],
                'event_logs': res['cnt']['distinct_event_logs'], 'outcomes': res.get('n_outcomes'),
                'capped': bool(res['cnt']['capped'])})
    if res['cnt']['capped']:
        ctx.exhaustive = False
    return res


def run(ctx):
    from .. import par
    q = ctx.quick
    seed0 = ctx.seed * 1000 + 3
    cases = []
    # (1) pruned full trees
    drivers = ['rej-nsim', 'rej-nsim-odd', 'rej-quant', 'rej-thr', 'rej-thr-rare', 'smc-thr', 'smc-quant']
    for d in drivers:
        for mpb in (1, 2, 3, 4):
            if d.startswith('smc') and mpb > 3 and q:
                continue
            cases.append({'kind': 'tree', 'driver': d, 'mpb': mpb, 'seed': seed0, 'prune': True})
    for d in ('rej-thr', 'rej-thr-rare', 'rej-nsim-odd'):
        for s_ in (seed0 + 1, seed0 + 2):
            cases.append({'kind': 'tree', 'driver': d, 'mpb': 3, 'seed': s_, 'prune': True})
    # adaptive-distance SMC (the distance node of the sampler's model adapts between rounds)
    for mpb in (1, 2) if q else (1, 2, 3):
        cases.append({'kind': 'tree', 'driver': 'adsmc', 'mpb': mpb, 'seed': seed0, 'prune': True})
    # adaptive-threshold SMC (each execution fits density ratios, ~0.4 s): one pruned tree in the quick tier
    cases.append({'kind': 'tree', 'driver': 'atsmc', 'mpb': 2, 'seed': seed0, 'prune': True, 'max_executions': 1500})
    # cores decide when max_parallel_batches is not given
    for d in ('rej-nsim', 'rej-thr'):
        for cores in (1, 2, 3):
            cases.append({'kind': 'tree', 'driver': d, 'mpb': None, 'cores': cores, 'seed': seed0, 'prune': True})
    # pickled isolation (worker processes see a copy of the loaded net)
    for d in ('rej-thr', 'smc-thr'):
        cases.append({'kind': 'tree', 'driver': d, 'mpb': 2, 'seed': seed0, 'prune': True, 'iso': 'pickled'})
    # (2) unpruned full trees as the independent confirmation that pruning hides no outcome
    for d in ('rej-nsim', 'rej-thr', 'rej-quant'):
        cases.append({'kind': 'tree', 'driver': d, 'mpb': 2, 'seed': seed0, 'prune': False})
    cases.append({'kind': 'tree', 'driver': 'smc-thr', 'mpb': 2, 'seed': seed0, 'prune': False, 'bound': 2 if q else 3})
    if not q:
        for d in ('rej-nsim', 'rej-quant'):
            cases.append({'kind': 'tree', 'driver': d, 'mpb': 3, 'seed': seed0, 'prune': False})
        cases.append({'kind': 'tree', 'driver': 'rej-thr', 'mpb': 3, 'seed': seed0, 'prune': False, 'bound': 5})
        cases.append({'kind': 'tree', 'driver': 'rej-thr', 'mpb': 3, 'seed': seed0, 'prune': False, 'bound': 4,
                      'default': 'eager'})
        for d in ('smc-thr3', 'rej-nsim-8b', 'rej-thr-8b'):
            for mpb in (2, 3, 4):
                cases.append({'kind': 'tree', 'driver': d, 'mpb': mpb, 'seed': seed0, 'prune': True})
        for d in drivers:
            for s in (seed0 + 1, seed0 + 2):
                cases.append({'kind': 'tree', 'driver': d, 'mpb': 3, 'seed': s, 'prune': True})
            cases.append({'kind': 'tree', 'driver': d, 'mpb': 3, 'seed': seed0, 'prune': True, 'iso': 'pickled'})
        # adaptive-threshold SMC (each execution fits density ratios: ~0.5 s), pruned trees
        for mpb in (1, 3):
            cases.append({'kind': 'tree', 'driver': 'atsmc', 'mpb': mpb, 'seed': seed0, 'prune': True,
                          'max_executions': 1500})
        for d in ('smc-thr', 'smc-quant'):
            cases.append({'kind': 'tree', 'driver': d, 'mpb': 2, 'seed': seed0, 'prune': False, 'bound': 4})
            cases.append({'kind': 'tree', 'driver': d, 'mpb': 3, 'seed': seed0, 'prune': False, 'bound': 3,
                          'default': 'eager'})

    # The schedule tree of a threshold / quantile-round objective grows exponentially with the number of batches the seeded
    # run consumes, and that number varies from 1 to 50 between seeds.  The k-th seed of a driver is therefore the k-th seed
    # >= the base seed whose sequential run consumes a number of batches inside the driver's window (stated in evidence).
    chosen = {}

    def seed_of(d, k):
        lo, hi = BATCH_WINDOW.get(d, (0, 10 ** 9))
        got = chosen.setdefault(d, [])
        s_ = (got[-1][0] + 1) if got else seed0
        while len(got) <= k:
            with pin.pinned(0):
                r = reference({'driver': d, 'seed': s_, 'mpb': 1})
            nb = int(r['brief']['n_sim']) // DRIVERS[d][2] if not r['monitor'] and r['brief'].get('n_sim') else lo
            if lo <= nb <= hi:
                got.append((s_, nb))
            s_ += 1
            if s_ > seed0 + 60 * (len(got) + 1):
                # no seed of this driver consumes a number of batches inside the window (a behaviour of the tree under
                # test, not of the harness): fall back to the plain seed sequence, the execution caps bound the trees
                got.append((seed0 + len(got), nb))
                ctx.extra.setdefault('batch_window_not_met', []).append(d)
        return got[k][0]
    models.native_client()
    for c in cases:
        c['seed'] = seed_of(c['driver'], c['seed'] - seed0)
    ctx.extra['seeds_by_driver'] = {d: [{'seed': a, 'batches_of_sequential_run': b} for a, b in v]
                                    for d, v in sorted(chosen.items())}
    ctx.extra['batch_window_by_driver'] = {d: list(v) for d, v in BATCH_WINDOW.items()}

    def fn(case):
        return case, run_tree(case)
    results = list(par.pmap(fn, cases, chunksize=1, ordered=True))
    by_key = {}
    for case, res in results:
        _record_tree(ctx, case, res, 'schedule-trees')
        ctx.add_sample({'case': case, 'executions': res['cnt'].get('executions'), 'distinct_event_logs':
                        res['cnt'].get('distinct_event_logs')}, key=(case['driver'], case['mpb'], case.get('prune')))
        if 'outcomes' in res:
            by_key[(case['driver'], case['mpb'], case['seed'], case.get('iso', 'shared'), case.get('prune', True),
                    case.get('bound'))] = res
    # pruning soundness: the pruned and the unpruned tree of the same configuration see the same outcome set
    for (d, mpb, s, iso, prune, bound), res in by_key.items():
        if prune is False and bound is None:
            other = by_key.get((d, mpb, s, iso, True, None))
            if other is not None and not res.get('viol') and not other.get('viol'):
                if set(other['outcomes']) != set(res['outcomes']):
                    raise AssertionError('pruned and unpruned exploration disagree on the outcome set for %s mpb=%s'
                                         % (d, mpb))
                ctx.count(pruning_cross_checks=1)
    # (2b) thorough: complete UNPRUNED trees at max_parallel_batches=3 (threshold mode: ~10^5 schedules), wave-parallel
    if not q:
        for d in ('rej-thr-rare', 'rej-nsim-odd', 'smc-quant'):
            wres = explore_in_waves(ctx, {'driver': d, 'mpb': 3, 'seed': seed_of(d, 0)}, split_levels=2)
            other = by_key.get((d, 3, seed_of(d, 0), 'shared', True, None))
            if other is not None and not wres.get('viol') and not other.get('viol'):
                if set(other['outcomes']) != set(wres['outcomes']):
                    raise AssertionError('pruned and unpruned exploration disagree on the outcome set for %s mpb=3' % d)
                ctx.count(pruning_cross_checks=1)
    # (3) free-running cross-check with real worker processes
    if not q:
        fr = [{'kind': 'freerun', 'driver': d, 'mpb': mpb, 'procs': 2, 'seed': seed_of(d, 0)}
              for d in ('rej-nsim', 'rej-thr', 'smc-thr') for mpb in (1, 2, 3, 5)]
        for case in fr:
            ctx.record(case, run_freerun(case), 'freerun')
    ctx.rule = ('one case = the complete schedule tree of a (driver, max_parallel_batches, isolation, seed) '
                'configuration; evaluations = executions of the real sampler under the scripted client; '
                'distinct_nontrivial = distinct client event logs (submit/run/is_ready/get/remove sequences) summed over '
                'configurations; a single result outcome per configuration is the expected verdict')
    ctx.assumptions += [
        'environment model: tasks complete one at a time at client API calls; is_ready is truthful; in-process '
        '(shared) and pickled isolation; no task failures',
        'visited-state pruning merges executions whose canonical (sampler, client, pending call) state is equal; '
        'cross-checked against the unpruned tree for mpb=2 drivers (same outcome sets)',
        'AdaptiveDistanceSMC is explored with one driver, AdaptiveThresholdSMC with one driver (100 particles, batches of 100, 2 rounds; mpb 2 in quick, 1-3 in thorough); the dask/ipyparallel clients are not',
        'result equality is bitwise on outputs, thresholds, n_sim, n_batches and SMC population tables',
        'seeds: the k-th seed of a driver is the k-th seed >= 1000*VERIF_SEED+3 whose sequential run consumes a number of '
        'batches inside the window of the driver (coverage.batch_window_by_driver; chosen seeds in coverage.seeds_by_driver): '
        'tree size is exponential in that number; every tree additionally has an execution cap (trees[].capped)',
    ]
