"""C02 Seeded runs are pure functions of (model, seed, configuration).  Modes H + P.

histories : every sequence (up to a depth) of unrelated prior computations executed in the same process
            before a measured seeded call; the measured observation must be bit-identical to the baseline
            obtained without any history.
programs  : every small DAG of recording stochastic/deterministic nodes, every dependency-respecting
            insertion order: identical outputs for all insertion orders, and generator discipline -
            the stochastic nodes of a batch consume ONE generator as a chain (state after node k ==
            state before node k+1) in one fixed order, whose initial state depends only on (seed, index).
clients   : the same measured calls on the real multiprocessing client (free-running cross-check).
"""
import itertools
import os

import numpy as np

from .. import models, pin
from ..canon import digest
from ..guard import guarded
from ..report import ok, bad

PID = 'C02'
LEVEL = 'exploration'


# ------------------------------------------------------------------ measured calls
def _sample_obs(res):
    out = {k: np.asarray(v) for k, v in res.outputs.items()}
    obs = [out, res.threshold, res.n_sim, res.n_batches]
    if hasattr(res, 'populations'):
        obs.append([({k: np.asarray(v) for k, v in p.outputs.items()}, np.asarray(p.weights), p.threshold)
                    for p in res.populations])
    return obs


def measured(call, seed, bs, ctxobj=None):
    """Execute one measured call and return its observation (plain data)."""
    import elfi
    name = call[0]
    if name == 'generate':
        m, d, extras = models.build(call[1])
        outputs = call[2]
        wv = None
        if call[3]:
            wv = {'t': np.arange(bs, dtype=float)} if call[1] in ('M1', 'M1c') else {'zb': np.arange(bs)}
        res = m.generate(bs, outputs if outputs else None, with_values=wv, seed=seed)
        # privately (randomly) named constants are outside the quantifier ("named nodes")
        return {k: v for k, v in res.items() if not k.startswith('_')}
    if name == 'compute':
        from elfi.model.elfi_model import ComputationContext
        m, d, extras = models.build(call[1])
        bh = elfi.client.BatchHandler(m, context=ComputationContext(batch_size=bs, seed=seed),
                                      output_names=[d] + m.parameter_names + extras)
        for j in call[3]:         # batches computed first on the same handler (shares executor / sub-seed caches)
            bh.compute(j)
        b = bh.compute(call[2])
        return b
    if name == 'rejection':
        m, d, extras = models.build(call[1])
        r = elfi.Rejection(m, d, output_names=extras, batch_size=bs, seed=seed)
        return _sample_obs(r.sample(3, n_sim=4 * bs, bar=False))
    if name == 'rejection_again':
        # the SAME model object was used by an earlier sampler run (samplers work on a copy of the user's model)
        m, d, extras = models.build(call[1])
        elfi.Rejection(m, d, output_names=extras, batch_size=bs, seed=11).sample(2, n_sim=3 * bs, bar=False)
        r = elfi.Rejection(m, d, output_names=extras, batch_size=bs, seed=seed)
        return _sample_obs(r.sample(3, n_sim=4 * bs, bar=False))
    if name == 'smc':
        m, d, extras = models.build('M1c')
        s = elfi.SMC(m, d, output_names=extras, batch_size=bs, seed=seed)
        return _sample_obs(s.sample(3, thresholds=[1.5, 0.9], bar=False))
    raise KeyError(call)


MEASURED = [
    ('generate', 'M1', [], False), ('generate', 'M1', ['d'], False), ('generate', 'M2', ['S2', 'd'], False),
    ('generate', 'M2', ['d', 'Y'], True), ('generate', 'M1', ['d', 'S'], True),
    ('compute', 'M1', 0, []), ('compute', 'M1', 2, []), ('compute', 'M2', 5, []), ('compute', 'M1', 1, [0]),
    ('compute', 'M1', 1, [5, 0]), ('compute', 'M2', 2, [5]), ('compute', 'M1', 0, [2]),
    # the SAME batch index computed before on the same handler (a recomputation must not see a consumed generator)
    ('compute', 'M1', 1, [1]), ('compute', 'M1', 0, [0, 0]), ('compute', 'M2', 2, [2]), ('compute', 'M1', 2, [2, 5, 2]),
    ('rejection', 'M1'), ('rejection', 'M2'), ('smc',),
    ('rejection_again', 'M1'), ('rejection_again', 'M2'), ('rejection_again', 'Madapt'),
]

# ------------------------------------------------------------------ history operations
HIST_OPS = ['np_seed0', 'np_seed7', 'np_consume', 'gen_other_seed', 'gen_global', 'gen_other_model', 'rej_same',
            'compile_twice', 'sub_seed_other']


def do_hist_op(op, bs):
    import elfi
    if op == 'np_seed0':
        np.random.seed(0)
    elif op == 'np_seed7':
        np.random.seed(7)
    elif op == 'np_consume':
        np.random.random_sample(5)
        np.random.randint(10, size=3)
    elif op == 'gen_other_seed':
        m, d, e = models.build('M1')
        m.generate(bs, ['d', 'S'], seed=99)
    elif op == 'gen_global':
        m, d, e = models.build('M1')
        m.generate(bs + 1, None, seed=None)
    elif op == 'gen_other_model':
        m, d, e = models.build('M2')
        m.generate(2, ['d'], seed=5)
    elif op == 'rej_same':
        m, d, e = models.build('M1')
        elfi.Rejection(m, d, batch_size=bs, seed=11).sample(2, n_sim=2 * bs, bar=False)
    elif op == 'sub_seed_other':
        # what BOLFI chain seeding and external operations do: a derived seed for another master seed, no cache given
        from elfi.utils import get_sub_seed
        get_sub_seed(97, 0)
    elif op == 'compile_twice':
        m, d, e = models.build('M2')
        c = elfi.client.get_client()
        c.compile(m.source_net, ['d'])
        c.compile(m.source_net, ['d', 'S1'])
    else:
        raise KeyError(op)


BASELINE = {}


def _call_class(call):
    if call[0] == 'rejection_again' and call[1] == 'Madapt':
        return 'rejection_again:model-with-an-adaptive-distance'
    return call[0]


def _canonical_call(call):
    # a batch computed after other batches on the same handler must equal the batch computed alone
    call = tuple(call)
    if call[0] == 'compute':
        return (call[0], call[1], call[2], [])
    if call[0] == 'rejection_again':
        return ('rejection', call[1])
    return call


def baseline_key(call, seed, bs):
    return digest((_canonical_call(call), seed, bs))


def compute_baselines(seeds, bss):
    """Computed in the parent right after import (no history), inherited by forked workers."""
    models.native_client()
    for call in MEASURED:
        for seed in seeds:
            for bs in bss:
                with pin.pinned(0):
                    BASELINE[baseline_key(call, seed, bs)] = digest(measured(_canonical_call(call), seed, bs),
                                                                    opaque_by_id=False)


@guarded('C02')
def run_history(case):
    """One history followed by every measured call x seed x bs."""
    models.native_client()
    hist = case['history']
    n = 0
    first = None
    outcomes = set()
    for call in MEASURED:
        for seed in case['seeds']:
            for bs in case['bss']:
                with pin.pinned(case.get('uuid_offset', 0)):
                    for op in hist:
                        do_hist_op(op, bs)
                    got = digest(measured(call, seed, bs), opaque_by_id=False)
                n += 1
                outcomes.add(got)
                if got != BASELINE[baseline_key(call, seed, bs)]:
                    v = bad('C02:result-depends-on-history:%s' % _call_class(call),
                            {'history': hist, 'call': call, 'seed': seed, 'bs': bs, 'uuid_offset': case.get('uuid_offset', 0)})
                    if _call_class(call) == call[0]:
                        return v              # report at once (the remaining calls are not judged)
                    first = first or v        # a class of its own: keep judging the other calls
    r = first if first is not None else ok(outcome=None)
    r.update(evals=n, distinct=n if hist else 0, n_outcomes=len(outcomes))
    return r


@guarded('C02')
def run_history_single(case):
    models.native_client()
    call = tuple(tuple(x) if isinstance(x, list) else x for x in case['call'])
    call = tuple(list(x) if isinstance(x, tuple) else x for x in call)
    with pin.pinned(0):
        base = digest(measured(_canonical_call(call), case['seed'], case['bs']), opaque_by_id=False)
    with pin.pinned(case.get('uuid_offset', 0)):
        for op in case['history']:
            do_hist_op(op, case['bs'])
        got = digest(measured(call, case['seed'], case['bs']), opaque_by_id=False)
    if got != base:
        return bad('C02:result-depends-on-history:%s' % _call_class(call), case)
    return ok()


# ------------------------------------------------------------------ programs: insertion order + generator discipline
REC = []


def _rs_digest(rs):
    s = rs.get_state()
    return digest((s[1], s[2], s[3], s[4]))


class RecDist:
    """Prior distribution that records the generator it was handed."""

    def __init__(self, name, k):
        self.name = name
        self.k = k

    def rvs(self, *params, size=1, random_state=None):
        before = _rs_digest(random_state)
        x = random_state.random_sample(tuple(size) + (self.k,))
        REC.append((self.name, before, _rs_digest(random_state), id(random_state)))
        return x.sum(axis=1) + _base(params)


def rec_sim(*params, batch_size=1, random_state=None, _name=None, _k=1):
    before = _rs_digest(random_state)
    x = random_state.random_sample((batch_size, _k))
    REC.append((_name, before, _rs_digest(random_state), id(random_state)))
    return x.sum(axis=1) + _base(params)


def _base(params):
    # parents may have length batch_size or 1 (a parentless operation): plain broadcasting
    return sum(np.asarray(p, dtype=float).reshape(-1) for p in params) if params else 0.0


def rec_op(*params):
    return _base(params) * 2.0 if params else np.zeros(1)


NAMES = ['c', 'a', 'd', 'b']      # index -> name; creation orders are permuted separately


def dags(n, max_parents=2):
    """All DAGs on nodes 0..n-1 whose edges go from lower to higher index (every DAG up to relabelling)."""
    def rec(i, parents):
        if i == n:
            yield [tuple(p) for p in parents]
            return
        for k in range(0, min(max_parents, i) + 1):
            for ps in itertools.permutations(range(i), k):
                yield from rec(i + 1, parents + [ps])
    yield from rec(0, [])


def topo_orders(parents):
    n = len(parents)
    for perm in itertools.permutations(range(n)):
        pos = {v: i for i, v in enumerate(perm)}
        if all(pos[p] < pos[v] for v in range(n) for p in parents[v]):
            yield perm


def build_prog(parents, kinds, order, names):
    import elfi
    from functools import partial
    m = elfi.ElfiModel(name='prog')
    for v in order:
        ps = [m[names[p]] for p in parents[v]]
        nm = names[v]
        k = v + 1
        if kinds[v] == 'P':
            elfi.Prior(RecDist(nm, k), *ps, model=m, name=nm)
        elif kinds[v] == 'S':
            elfi.Simulator(partial(rec_sim, _name=nm, _k=k), *ps, model=m, name=nm)
        else:
            elfi.Operation(rec_op, *ps, model=m, name=nm)
    return m


def chain_order(rec):
    """Arrange the recorded stochastic calls into the chain they form on one generator, or None."""
    if not rec:
        return [], None
    ids = {r[3] for r in rec}
    if len(ids) != 1:
        return None, 'several generator objects'
    afters = {r[2] for r in rec}
    starts = [r for r in rec if r[1] not in afters]
    if len(starts) != 1:
        return None, 'draws do not form one chain'
    by_before = {r[1]: r for r in rec}
    if len(by_before) != len(rec):
        return None, 'two nodes started from the same generator state'
    order = []
    cur = starts[0]
    while cur is not None:
        order.append(cur[0])
        cur = by_before.get(cur[2])
    if len(order) != len(rec):
        return None, 'draws do not form one chain'
    return order, starts[0][1]


@guarded('C02')
def run_program(case):
    models.native_client()
    parents = [tuple(p) for p in case['parents']]
    kinds = case['kinds']
    names = case['names']
    n = 0
    ref = None
    for order in topo_orders(parents):
        for seed, bi, bs in case['runs']:
            import elfi
            from elfi.model.elfi_model import ComputationContext
            with pin.pinned(0):
                m = build_prog(parents, kinds, order, names)
                del REC[:]
                outs = [names[v] for v in range(len(parents))]
                if bi == 0:
                    res = m.generate(bs, outs, seed=seed)
                else:
                    bh = elfi.client.BatchHandler(m, context=ComputationContext(batch_size=bs, seed=seed),
                                                  output_names=outs)
                    res = bh.compute(bi)
            n += 1
            rec = list(REC)
            what = {'parents': case['parents'], 'kinds': kinds, 'names': names, 'insertion_order': list(order),
                    'seed': seed, 'batch_index': bi, 'bs': bs}
            if len(rec) != sum(1 for k in kinds if k in 'PS'):
                return bad('C02:stochastic-node-call-count', dict(what, calls=[r[0] for r in rec]))
            ch, start = chain_order(rec)
            if ch is None:
                return bad('C02:generator-discipline:' + start.replace(' ', '-'), what)
            pos = {nm: i for i, nm in enumerate(ch)}
            for v in range(len(parents)):
                for p in parents[v]:
                    if names[v] in pos and names[p] in pos and pos[names[p]] > pos[names[v]]:
                        return bad('C02:generator-order-violates-dependencies', dict(what, chain=ch))
            key = (seed, bi, bs)
            obs = (digest({k: np.asarray(v) for k, v in res.items()}), tuple(ch), start)
            if ref is None:
                ref = {}
            if key not in ref:
                ref[key] = (obs, list(order))
            elif ref[key][0] != obs:
                cls = 'draw-order' if ref[key][0][1] != obs[1] else ('initial-generator-state' if ref[key][0][2] != obs[2]
                                                                    else 'outputs')
                return bad('C02:depends-on-insertion-order:' + cls, dict(what, other_order=ref[key][1]))
    # initial generator state must differ between batch indices and seeds (one generator per (seed, index))
    starts = {}
    for key, (obs, _) in ref.items():
        starts.setdefault(obs[2], set()).add((key[0], key[1]))
    if any(k is not None and len(v) > 1 for k, v in starts.items()):
        return bad('C02:same-generator-state-for-different-(seed,index)', {'parents': case['parents'], 'kinds': kinds})
    r = ok(outcome=digest(sorted((k, v[0]) for k, v in ref.items())))
    r.update(evals=n, distinct=n)
    return r


# ------------------------------------------------------------------ clients
@guarded('C02')
def run_client(case):
    import elfi
    import elfi.clients.multiprocessing as mpc
    try:
        client = mpc.Client(num_processes=case['procs'])
    except Exception:
        return ok(outcome='skipped', trivial=True, mp_skipped=1)
    n = 0
    try:
        elfi.client.set_client(client)
        for call in case['calls']:
            call = tuple(call)
            for seed in case['seeds']:
                for bs in case['bss']:
                    with pin.pinned(0):
                        got = digest(measured(call, seed, bs), opaque_by_id=False)
                    n += 1
                    if got != BASELINE[baseline_key(call, seed, bs)]:
                        return bad('C02:result-depends-on-client:%s' % call[0], {'call': call, 'seed': seed, 'bs': bs})
    finally:
        try:
            client.pool.terminate()
        except Exception:
            pass
        models.native_client()
    r = ok()
    r.update(evals=n, distinct=n)
    return r


def run_hashseed(case):
    """Replay: recompute the outcome table under the given hash seeds in fresh interpreters and compare."""
    import json
    import shutil
    import subprocess
    import sys
    import tempfile
    tmp = tempfile.mkdtemp(dir=os.environ.get('VMC_SCRATCH', '/var/tmp'))
    try:
        tables = []
        for hs in case.get('hash_seeds', ['0', '1']):
            path = os.path.join(tmp, 'h%s.json' % hs)
            subprocess.run([sys.executable, '-W', 'ignore', '-m', 'vmc.checks.c02'], check=True,
                           env=dict(os.environ, PYTHONHASHSEED=hs, VMC_C02_DUMP=path),
                           cwd=os.path.dirname(os.path.dirname(os.path.dirname(os.path.abspath(__file__)))))
            tables.append(json.load(open(path)))
    finally:
        shutil.rmtree(tmp, ignore_errors=True)
    diff = sorted({k for b in tables[1:] for k in tables[0] if tables[0].get(k) != b.get(k)})
    return bad('C02:depends-on-hash-seed', {'cases': diff[:3], 'n_differing': len(diff)}) if diff else ok()


RUNNERS = {'history': run_history, 'history1': run_history_single, 'program': run_program, 'client': run_client,
           'hashseed': run_hashseed}


def replay(case):
    if case['kind'] in ('history', 'client') and not BASELINE:
        compute_baselines(case.get('seeds', [0]), case.get('bss', [2]))
    return RUNNERS[case['kind']](case)


def run(ctx):
    q = ctx.quick
    base = ctx.seed * 1000
    seeds = [0, 2 ** 31 - 1, base + 1] if q else [0, 1, 2 ** 31 - 1, base + 1, base + 2, base + 3]
    bss = [1, 3] if q else [1, 2, 3]
    compute_baselines(seeds, bss)
    depth = 2 if q else 3
    hists = [[]]
    for L in range(1, depth + 1):
        hists += [list(h) for h in itertools.product(HIST_OPS, repeat=L)]
    cases = [{'kind': 'history', 'history': h, 'seeds': seeds, 'bss': bss, 'uuid_offset': (i % 3)} for i, h in enumerate(hists)]

    def post(case, r):
        if r.get('viol') and isinstance(r['viol'].get('detail'), dict) and 'call' in r['viol']['detail']:
            d = r['viol']['detail']
            return {'kind': 'history1', 'history': d['history'], 'call': d['call'], 'seed': d['seed'], 'bs': d['bs'],
                    'uuid_offset': d.get('uuid_offset', 0)}
        return case
    from .. import par

    def fn(case):
        return case, run_history(case)
    for case, r in par.pmap(fn, cases, ordered=True):
        ctx.record(post(case, r), r, 'histories')
    ctx.add_sample({'history': hists[-1], 'measured_calls': [list(map(str, c)) for c in MEASURED[:4]]}, key='h')
    # programs
    pcases = []
    nmax = 3 if q else 4
    for n in range(1, nmax + 1):
        for parents in dags(n):
            kind_sets = itertools.product('PSO', repeat=n) if n <= 3 else itertools.product('PS', repeat=n)
            for kinds in kind_sets:
                kinds = ''.join(kinds)
                if sum(1 for k in kinds if k in 'PS') < min(2, n):
                    continue
                if any(kinds[v] == 'P' and any(kinds[p] == 'S' for p in parents[v]) for v in range(n)):
                    pass    # a prior fed by a simulator is unusual but legal for the executor
                names = NAMES[:n]
                runs = [(seeds[0], 0, 2), (seeds[-1], 0, 1), (seeds[0], 3, 2)] if q else \
                    [(s, bi, bs) for s in seeds[:3] for bi in (0, 1, 5) for bs in (1, 2)]
                pcases.append({'kind': 'program', 'parents': [list(p) for p in parents], 'kinds': kinds,
                               'names': names, 'runs': runs})
    ctx.run_cases(run_program, pcases, 'programs', sample_every=max(1, len(pcases) // 4))
    # clients
    ccases = [{'kind': 'client', 'procs': 2, 'calls': [list(c) for c in MEASURED if c[0] in (('generate', 'compute', 'rejection') if q else
                                                                                         ('generate', 'compute', 'rejection', 'smc'))],
               'seeds': seeds[:2] if q else seeds, 'bss': bss}]
    for case in ccases:
        ctx.record(case, run_client(case), 'clients')
    ctx.rule = ('histories: all sequences of length <= %d over %d unrelated prior computations, each followed by every '
                'measured call (%d) x seed x batch_size, compared with the no-history baseline; programs: all DAGs of <= %d '
                'recording nodes x kind assignments x all dependency-respecting insertion orders x (seed, batch index, '
                'batch_size); clients: measured calls on the real multiprocessing client' % (depth, len(HIST_OPS), len(MEASURED), nmax))
    ctx.assumptions += [
        'baselines are computed in the parent process right after import (no history) and inherited by forked workers',
        'random node/model names (uuid4) are pinned with three different counter offsets across histories: results must not depend on them',
        'generator discipline is observed as a chain of generator states (state after one node == state before the '
        'next) on one generator object; the derivation of the per-batch seed itself is not constrained here (C15)',
        'the model_name meta field is not part of any observation',
    ]
    if True:
        # dict/set iteration order: repeat a fixed outcome table (measured calls + all recording programs of <= 3 nodes)
        # in fresh interpreters under different string-hash seeds and compare (quick: 4 processes, thorough: 8)
        import subprocess
        import sys
        import json
        import tempfile
        tmp = tempfile.mkdtemp(dir=os.environ.get('VMC_SCRATCH', '/var/tmp'))
        try:
            hseeds = ['0', '1', '2', '3'] if q else ['0', '1', '2', '3', '4', '5', '6', '7']
            procs = []
            for hs in hseeds:
                path = os.path.join(tmp, 'h%s.json' % hs)
                env = dict(os.environ, PYTHONHASHSEED=hs, VMC_C02_DUMP=path)
                procs.append((path, subprocess.Popen(
                    [sys.executable, '-W', 'ignore', '-m', 'vmc.checks.c02'], env=env,
                    cwd=os.path.dirname(os.path.dirname(os.path.dirname(os.path.abspath(__file__)))))))
            tables = []
            for path, pr in procs:
                if pr.wait() != 0:
                    raise RuntimeError('hash-seed table subprocess failed')
                tables.append(json.load(open(path)))
            a = tables[0]
            diff = sorted({k for b in tables[1:] for k in a if a.get(k) != b.get(k)})
            if diff:
                ctx.record({'kind': 'hashseed', 'keys': diff[:3], 'hash_seeds': hseeds},
                           bad('C02:depends-on-hash-seed', {'cases': diff[:3], 'n_differing': len(diff)}), 'hashseed')
            else:
                ctx.record({'kind': 'hashseed', 'hash_seeds': hseeds},
                           dict(ok(), evals=len(a) * len(hseeds), distinct=len(a)), 'hashseed')
                ctx.count(hashseed_table_entries=len(a))
        finally:
            import shutil
            shutil.rmtree(tmp, ignore_errors=True)


def _dump_table(path):
    """Outcome table of a fixed sub-family (programs + measured calls) for the PYTHONHASHSEED comparison."""
    import json
    import logging
    logging.disable(logging.WARNING)
    pin.deterministic_empty()
    models.native_client()
    table = {}
    seeds = [0, 5]
    for call in MEASURED:
        for seed in seeds:
            with pin.pinned(0):
                table[repr((call, seed))] = digest(measured(call, seed, 2), opaque_by_id=False)
    # several naming schemes: the iteration order of a set of names under one hash seed is the same for every program
    # that uses the same names, so one scheme alone could coincide between two hash seeds
    schemes = [NAMES, ['theta', 'alpha', 'sim', 'beta'], ['n10', 'n2', 'x', 'm'], ['Q', 'p', 'Zed', 'k1']]
    for n in range(1, 4):
        for parents in dags(n):
            for kinds in itertools.product('PS', repeat=n):
                for si, names in enumerate(schemes):
                    case = {'parents': [list(p) for p in parents], 'kinds': ''.join(kinds), 'names': names[:n],
                            'runs': [(0, 0, 2), (5, 2, 1)]}
                    r = run_program(case)
                    table[repr((case['parents'], case['kinds'], si))] = r.get('outcome') or repr(r.get('viol'))
    with open(path, 'w') as f:
        json.dump(table, f, sort_keys=True)


if __name__ == '__main__':
    _dump_table(os.environ['VMC_C02_DUMP'])
