"""C08 The joint model prior equals the product of the conditional prior densities.  Mode P.

A case is one (model, requested parameter list, part).  Models are plain data (vmc/ref/c08_ref.py): every
assignment of distribution templates (constant / parameter-valued arguments, 0..4 arguments, distribution
given by name / scipy object / frozen object / elfi alias / hand-written ScipyLikeDistribution) to every
graph shape with 1-3 parameters (independent, chain, fork, collider, full, mixed) x naming permutations
(alphabetical order vs topological order) - requested lists: default, every permutation, every ancestrally
closed subset in every order.  The runner builds the real ElfiModel and the real ModelPrior once and
evaluates, per part,

  density : pdf and logpdf on the complete grid V^dim (interior, exact support end points, outside, +-inf)
            against the direct product of scipy.stats densities with the parents substituted,
  shapes  : scalar / 0-d / (1,) / (n,) / (n,1) / list / (dim,) / (1,dim) / (n,dim) / nested list / strided
            view / Fortran order / integer dtype inputs: shape rule and the same values as the reference,
  rvs     : sizes None,1,3 x RandomState seeds (+ global generator): shape rule, finite, positive density
            under elfi's own pdf and under the reference,
  grad    : gradient_logpdf (default / scalar / per-dimension stepsize; point, batch, integer input) against
            the closed-form derivative of the reference at interior points.
"""
import itertools

import numpy as np

from ..canon import digest
from ..guard import guarded, elfi_site
from ..report import ok, bad
from ..ref import c08_ref as R

PID = 'C08'
LEVEL = 'exploration'

RTOL_PDF = 1e-12       # same scipy factors, different multiplication order
TOL_LOG = 1e-9         # sum of scipy logpdfs vs log of the product of scipy pdfs
TOL_GRAD = 2e-6        # central difference (h <= 1e-4) vs closed form on the well-conditioned interior grid
MARGIN = 0.01          # >= 100 h : gradient points keep this distance from every support end point
SIG_L5 = 'C08:strict-subset:density-not-product-of-requested-conditionals'


class _Viol(Exception):
    def __init__(self, sig, detail):
        Exception.__init__(self, sig)
        self.sig = sig
        self.detail = detail


# ------------------------------------------------------------------------------- building the real objects
_RAY = []


def _ray():
    """A hand-written distribution (only rvs and pdf; logpdf inherited from elfi's ScipyLikeDistribution)."""
    if not _RAY:
        from elfi.model.extensions import ScipyLikeDistribution

        class Ray(ScipyLikeDistribution):
            @classmethod
            def rvs(cls, loc=0.0, scale=1.0, size=1, random_state=None):
                u = random_state.uniform(size=size)
                return loc + scale * np.sqrt(-2.0 * np.log1p(-u))

            @classmethod
            def pdf(cls, x, loc=0.0, scale=1.0):
                with np.errstate(all='ignore'):
                    z = (np.asarray(x, dtype=float) - loc) / scale
                    zz = np.where(np.isfinite(z) & (z >= 0), z, 0.0)       # density 0 left of loc and at +inf
                    p = zz * np.exp(-0.5 * zz * zz) / scale
                    return np.where(np.isnan(z) | ~(np.asarray(scale) > 0), np.nan, p)
        _RAY.append(Ray)
    return _RAY[0]


_ALIAS = {'norm': 'normal', 'expon': 'exponential', 'uniform': 'unif'}


def tail_sim(*params, batch_size=1, random_state=None):
    return sum(np.asarray(p, dtype=float) for p in params) + random_state.normal(size=batch_size)


def tail_sum(y):
    return y


def build_model(model):
    """The real ElfiModel of a model description."""
    import elfi
    import scipy.stats as ss
    m = elfi.ElfiModel(name='c08')
    refs = {}
    for nd in model['nodes']:
        fam, form = nd['fam'], nd['form']
        args = [refs[a] if isinstance(a, str) else a for a in nd['args']]
        if fam == 'ray':
            dist = _ray() if form == 'obj' else _ray()()
        elif form == 'name':
            dist = fam
        elif form == 'alias':
            dist = _ALIAS[fam]
        elif form == 'obj':
            dist = getattr(ss, fam)
        elif form == 'frozen':
            dist = getattr(ss, fam)(*args)
            args = []
        else:
            raise ValueError(form)
        refs[nd['name']] = elfi.Prior(dist, *args, model=m, name=nd['name'])
    if model.get('tail'):
        ps = [refs[n] for n in R.names(model)]
        s = elfi.Simulator(tail_sim, *ps, model=m, name='sim', observed=np.zeros(1))
        S = elfi.Summary(tail_sum, s, model=m, name='S')
        elfi.Distance('euclidean', S, model=m, name='d')
    return m


def _call(witness, fn, *a, **kw):
    """Call into elfi; an exception raised below the repo becomes a violation naming the raising site."""
    try:
        with np.errstate(all='ignore'):
            return fn(*a, **kw)
    except Exception as e:  # noqa
        site = elfi_site(e.__traceback__)
        if site is None:
            raise
        sig = 'C08:exception:%s@%s' % (type(e).__name__, site)
        if getattr(fn, '__name__', '') in ('pdf', 'logpdf') and site.endswith(':rvs_from_distribution') and \
                witness and R.req_class(witness['model'], witness['req']) == 'strict-subset':
            # a density evaluation that *samples* a node: only an unrequested parameter can be sampled there
            sig = SIG_L5
        raise _Viol(sig, {'exception': repr(e)[:300], 'witness': witness})


def _prior(model, req, witness=None):
    from elfi.model.extensions import ModelPrior
    m = build_model(model)
    w = witness or {'kind': 'point', 'model': model, 'req': req, 'method': 'construct'}
    if req is None:
        return _call(w, ModelPrior, m)
    return _call(w, ModelPrior, m, list(req))


def _order(model, req):
    return sorted(R.names(model)) if req is None else list(req)


def _point(model, req, method, x, **kw):
    d = {'kind': 'point', 'model': model, 'req': req, 'method': method, 'x': R.enc_nested(x)}
    d.update(kw)
    return d


# ------------------------------------------------------------------------------- comparison with the reference
def _cmp_density(model, req, X, got, log, what='batch', prior=None):
    """Compare elfi's (log)pdf values at the rows of X with the reference.  -> (sig, detail) or None, counters."""
    order = _order(model, req)
    ref, any_zero, any_bad, on_b = R.joint_pdf(model, order, X)
    got = np.asarray(got, dtype=float).reshape(-1)
    cls = R.req_class(model, req)
    name = 'logpdf' if log else 'pdf'
    if got.shape != ref.shape:
        return ('C08:%s:wrong-number-of-values' % name, {'got_shape': list(got.shape), 'n_points': len(ref)}), {}
    XX = np.asarray(X, dtype=float).reshape(len(ref), -1)
    defined = ~any_bad                       # every conditional density is a finite number
    zero = defined & any_zero
    pos = defined & ~any_zero
    with np.errstate(all='ignore'):
        if log:
            exp = np.log(ref)
            bad_zero = zero & ~(np.isneginf(got))
            bad_pos = pos & ~(np.abs(got - exp) <= TOL_LOG * (1 + np.abs(exp)))
            bad_undef = ~defined & ~(np.isnan(got) | np.isneginf(got) | (np.isinf(ref) & np.isinf(got)))
        else:
            exp = ref
            bad_zero = zero & ~(got == 0)
            bad_pos = pos & ~((np.abs(got - exp) <= RTOL_PDF * np.abs(exp)) & (got > 0))
            bad_undef = ~defined & ~(np.isnan(got) | (got == 0) | (np.isinf(ref) & np.isinf(got)))
    cnt = {'pts_positive': int(pos.sum()), 'pts_zero': int(zero.sum()), 'pts_undefined': int((~defined).sum()),
           'pts_on_support_end': int((on_b & defined).sum()),
           'pts_infinite_coordinate': int((~np.all(np.isfinite(XX), axis=1)).sum())}
    for mask, kind in ((bad_pos, 'value-mismatch'), (bad_zero, 'zero-set-mismatch'), (bad_undef, 'undefined-point')):
        if mask.any():
            i = int(np.argmax(mask))
            x = XX[i]
            fs, _ = R.factors(model, order, x)
            det = {'req': req, 'req_class': cls, 'x': R.enc_nested(x), 'elfi': R.enc(got[i]), 'reference': R.enc(exp[i]),
                   'factors': {k: R.enc(v[0]) for k, v in fs}, 'n_bad': int(mask.sum()), 'n_points': len(ref),
                   'evaluated_as': what,
                   'witness': _point(model, req, name, x if len(order) > 1 else float(x[0]))}
            sig = 'C08:%s:%s:%s' % (name, cls, kind)
            if cls == 'strict-subset':
                # one class for every disagreement on an ancestrally closed strict subset (pdf or logpdf, value or
                # zero set): the density is not the product over the requested nodes
                sig = SIG_L5
                det['kind'] = '%s:%s' % (name, kind)
                if prior is not None:
                    # diagnostic probe: identical rows of one batch must have identical densities
                    try:
                        with np.errstate(all='ignore'):
                            rep = np.asarray(getattr(prior, name)(np.tile(x, (4, 1))), dtype=float).reshape(-1)
                        det['identical_rows_in_one_batch'] = R.enc_nested(rep)
                    except Exception as e:  # noqa
                        det['probe_exception'] = repr(e)[:200]
            return (sig, det), cnt
    return None, cnt


def _raise_if(v):
    if v is not None:
        raise _Viol(v[0], v[1])


def _grid(V, d):
    return np.array(list(itertools.product(V, repeat=d)), dtype=float).reshape(-1, d)


def _runner(fn):
    """_Viol -> bad(); the single-point witness of the detail is re-executed to confirm that it reproduces;
    exceptions passing through the repo are handled by vmc.guard."""
    def inner(case):
        try:
            return fn(case)
        except _Viol as v:
            det = dict(v.detail)
            w = det.get('witness')
            if isinstance(w, dict) and w.get('kind') == 'point' and case.get('kind') != 'point':
                try:
                    _point_impl(w)
                    det['witness_reproduces'] = False
                except _Viol as v2:
                    det['witness_reproduces'] = v2.sig == v.sig
            return bad(v.sig, det)
    inner.__name__ = fn.__name__
    inner.__doc__ = fn.__doc__
    return guarded('C08')(inner)


# ------------------------------------------------------------------------------- part: density
@_runner
def run_density(case):
    model, req = case['model'], case['req']
    V = [R.dec(v) for v in case['V']]
    order = _order(model, req)
    d = len(order)
    prior = _prior(model, req)
    if prior.dim != d or list(prior.parameter_names) != order:
        raise _Viol('C08:parameter-order', {'req': req, 'got': list(prior.parameter_names)})
    X = _grid(V, d)
    w = {'kind': 'density', 'model': model, 'req': req, 'V': case['V']}
    got = _call(w, prior.pdf, X)
    v, cnt = _cmp_density(model, req, X, got, log=False, prior=prior)
    _raise_if(v)
    gotl = _call(w, prior.logpdf, X)
    v, _ = _cmp_density(model, req, X, gotl, log=True, prior=prior)
    _raise_if(v)
    # logpdf is the logarithm of elfi's own pdf as well (not only of the reference)
    with np.errstate(all='ignore'):
        lg = np.log(np.asarray(got, dtype=float))
    gotl = np.asarray(gotl, dtype=float)
    fin = np.isfinite(lg)
    if not np.array_equal(np.isneginf(lg), np.isneginf(gotl)) or \
            not np.all(np.abs(lg[fin] - gotl[fin]) <= TOL_LOG * (1 + np.abs(lg[fin]))):
        raise _Viol('C08:logpdf:not-log-of-own-pdf', {'req': req})
    n = len(X)
    r = ok(outcome=digest((np.asarray(got), gotl)), **cnt)
    r.update(evals=2 * n, distinct=2 * (n - cnt['pts_undefined']))
    return r


# ------------------------------------------------------------------------------- part: shapes
def _pick_points(model, req, V):
    """A fixed small set of grid points: first positive-density points, first zero point, first point with an
    infinite coordinate (float forms) and the first positive / zero integer-valued points (integer forms)."""
    order = _order(model, req)
    X = _grid(V, len(order))
    ref, any_zero, any_bad, _ = R.joint_pdf(model, order, X)
    defined = ~any_bad
    fin = np.all(np.isfinite(X), axis=1)
    pos = np.flatnonzero(defined & ~any_zero)
    zer = np.flatnonzero(defined & any_zero & fin)
    inf = np.flatnonzero(defined & ~fin)
    isint = np.all(X == np.round(X), axis=1) & fin
    ipos = np.flatnonzero(defined & ~any_zero & isint)
    izer = np.flatnonzero(defined & any_zero & isint)
    sel = list(pos[:2]) + list(zer[:1]) + list(inf[:1])
    isel = list(ipos[:2]) + list(izer[:1])
    return X[sel], X[isel]


def _expect_shape(val, shape, sig_tail, detail):
    got = tuple(np.shape(val))
    if got != tuple(shape):
        raise _Viol('C08:shape:' + sig_tail, dict(detail, got_shape=list(got), expected_shape=list(shape)))


def _forms(P, PI, d, full):
    """(form name, python input, the points it denotes, expected output shape).  full: every single-point form
    at every selected point; otherwise the single-point forms are spread over the points."""
    forms = []
    if d == 1:
        single = [('pyfloat', lambda p: float(p)), ('np0d', lambda p: np.array(float(p))),
                  ('len1', lambda p: np.array([float(p)]))]
        shapes1 = {'pyfloat': (), 'np0d': (), 'len1': (1,)}
        for i, p in enumerate(P[:, 0]):
            for j, (fname, mk) in enumerate(single):
                if full or j == i % len(single):
                    forms.append((fname, mk(p), [[p]], shapes1[fname]))
        if len(P):
            forms.append(('vec', np.array(P[:, 0]), P, (len(P),)))
            forms.append(('col', np.array(P), P, (len(P),)))
            forms.append(('list', [float(p) for p in P[:, 0]], P, (len(P),)))
            forms.append(('view', np.repeat(P[:, 0], 2)[::2], P, (len(P),)))
        for p in PI[:(len(PI) if full else 1), 0]:
            forms.append(('pyint', int(p), [[p]], ()))
        if len(PI):
            forms.append(('intvec', PI[:, 0].astype(int), PI, (len(PI),)))
    else:
        single = [('vec', lambda p: np.array(p)), ('list', lambda p: [float(v) for v in p]),
                  ('row', lambda p: np.array([p]))]
        shapes1 = {'vec': (), 'list': (), 'row': (1,)}
        for i, p in enumerate(P):
            for j, (fname, mk) in enumerate(single):
                if full or j == i % len(single):
                    forms.append((fname, mk(p), [p], shapes1[fname]))
        if len(P):
            forms.append(('mat', np.array(P), P, (len(P),)))
            forms.append(('nested', [[float(v) for v in p] for p in P], P, (len(P),)))
            forms.append(('view', np.repeat(P, 2, axis=0)[::2], P, (len(P),)))
            forms.append(('fortran', np.asfortranarray(P), P, (len(P),)))
        for p in PI[:(len(PI) if full else 1)]:
            forms.append(('intlist', [int(v) for v in p], [p], ()))
        if len(PI):
            forms.append(('intmat', PI.astype(int), PI, (len(PI),)))
    return forms


@_runner
def run_shapes(case):
    model, req = case['model'], case['req']
    V = [R.dec(v) for v in case['V']]
    d = len(_order(model, req))
    prior = _prior(model, req)
    P, PI = _pick_points(model, req, V)
    n_calls = 0
    outs = []
    for method in ('pdf', 'logpdf'):
        fn = getattr(prior, method)
        for fname, inp, pts, shape in _forms(P, PI, d, case.get('full', False)):
            pts = np.asarray(pts, dtype=float).reshape(-1, d)
            dtype = 'int' if fname.startswith(('int', 'pyint')) else 'float'
            wit = _point(model, req, method, inp, form=fname, dtype=dtype)
            val = _call(wit, fn, inp)
            n_calls += 1
            # the values first (a wrong density is reported under the density signature), then the shape
            if np.size(val) == len(pts):
                v, _ = _cmp_density(model, req, pts, val, log=method == 'logpdf', what=fname, prior=prior)
                if v is not None:
                    v[1]['witness'] = wit
                _raise_if(v)
            _expect_shape(val, shape, '%s:%s-input' % (method, fname),
                          {'req': req, 'input_shape': list(np.shape(inp)), 'witness': wit})
            outs.append(np.asarray(val, dtype=float).reshape(-1))
    r = ok(outcome=digest(outs), shape_calls=n_calls)
    r.update(evals=n_calls, distinct=n_calls)
    return r


# ------------------------------------------------------------------------------- part: rvs
def _rvs_shape(size, d):
    if size is None:
        return () if d == 1 else (d,)
    return (size,) if d == 1 else (size, d)


def _check_draw(model, req, prior, draw, size, wit):
    order = _order(model, req)
    d = len(order)
    _expect_shape(draw, _rvs_shape(size, d), 'rvs:size-%s' % size, {'req': req, 'witness': wit})
    X = np.asarray(draw, dtype=float).reshape(-1, d)
    if not np.all(np.isfinite(X)):
        raise _Viol('C08:rvs:non-finite-draw', {'req': req, 'draw': R.enc_nested(X), 'witness': wit})
    ref, any_zero, any_bad, _ = R.joint_pdf(model, order, X)
    if np.any(any_zero | any_bad):
        i = int(np.argmax(any_zero | any_bad))
        raise _Viol('C08:rvs:draw-outside-support', {'req': req, 'draw': R.enc_nested(X[i]), 'witness': wit,
                                                     'reference_pdf': R.enc(ref[i])})
    val = _call(wit, prior.pdf, draw)
    lval = _call(wit, prior.logpdf, draw)
    v, _ = _cmp_density(model, req, X, val, log=False, what='rvs draw', prior=prior)
    _raise_if(v)
    _expect_shape(val, () if size is None else (size,), 'pdf-of-rvs:size-%s' % size, {'req': req, 'witness': wit})
    val = np.asarray(val, dtype=float).reshape(-1)
    if not np.all(val > 0):
        raise _Viol('C08:rvs:draw-with-nonpositive-density', {'req': req, 'draw': R.enc_nested(X), 'witness': wit,
                                                              'elfi_pdf': R.enc_nested(val)})
    if not np.all(np.isfinite(np.asarray(lval, dtype=float))):
        raise _Viol('C08:rvs:draw-with-nonfinite-logdensity', {'req': req, 'draw': R.enc_nested(X), 'witness': wit})
    return X


def _one_rvs(model, req, prior, size, seed, mode, wit):
    if mode == 'global':
        st = np.random.get_state()
        np.random.seed(seed)
        try:
            draw = _call(wit, prior.rvs, size)
        finally:
            np.random.set_state(st)
    else:
        draw = _call(wit, prior.rvs, size, np.random.RandomState(seed))
    return _check_draw(model, req, prior, draw, size, wit)


@_runner
def run_rvs(case):
    model, req = case['model'], case['req']
    prior = _prior(model, req)
    n = 0
    draws = []
    for size in (None, 1, 3):
        for k, seed in enumerate(case['seeds']):
            for mode in (('rs', 'global') if k == 0 and size in case['global_sizes'] else ('rs',)):
                wit = {'kind': 'point', 'model': model, 'req': req, 'method': 'rvs', 'size': size, 'seed': seed,
                       'mode': mode}
                draws.append(_one_rvs(model, req, prior, size, seed, mode, wit))
                n += 1
    r = ok(outcome=digest(draws), rvs_calls=n)
    r.update(evals=n, distinct=n)
    return r


# ------------------------------------------------------------------------------- part: grad
def _stepsize(h, d):
    if h is None:
        return None
    if h == 'list':
        return [1e-5 * 2 ** j for j in range(d)]
    if h == 'array':
        return np.array([1e-5 * 2 ** j for j in range(d)])
    return float(h)


def _cmp_grad(model, req, x, got, what, wit, h):
    order = _order(model, req)
    exp = R.joint_grad(model, order, x)
    got = np.asarray(got, dtype=float).reshape(-1)
    if got.shape != exp.shape or not np.all(np.abs(got - exp) <= TOL_GRAD * (1 + np.abs(exp))):
        raise _Viol('C08:gradient_logpdf:%s' % what,
                    {'req': req, 'x': R.enc_nested(x), 'elfi': R.enc_nested(got), 'reference': R.enc_nested(exp),
                     'stepsize': h, 'witness': wit})
    return float(np.max(np.abs(got - exp) / (1 + np.abs(exp))))


@_runner
def run_grad(case):
    model, req, h = case['model'], case['req'], case['h']
    Vg = [R.dec(v) for v in case['Vg']]
    order = _order(model, req)
    d = len(order)
    X = _grid(Vg, d)
    X = X[R.interior_mask(model, order, X, MARGIN)]
    if len(X) == 0:
        return ok(outcome='no-interior-point', trivial=True, grad_cases_without_interior_point=1)
    prior = _prior(model, req)
    step = _stepsize(h, d)
    cls = R.req_class(model, req)
    # the gradient is judged only where the density itself is right (reported under the density signature)
    w = {'kind': 'grad', 'model': model, 'req': req, 'h': h, 'Vg': case['Vg']}
    for log in (False, True):
        val = _call(w, prior.logpdf if log else prior.pdf, X)
        v, _ = _cmp_density(model, req, X, val, log=log, what='gradient points', prior=prior)
        _raise_if(v)
    n = 0
    err = 0.0
    # single points in point form
    for x in X[:case.get('n_single', 1)]:
        inp = np.array(x) if d > 1 else float(x[0])
        wit = _point(model, req, 'gradient_logpdf', inp, h=h, form='point')
        g = _call(wit, prior.gradient_logpdf, inp, stepsize=step)
        _expect_shape(g, (d,), 'gradient_logpdf:point-input', {'req': req, 'witness': wit})
        err = max(err, _cmp_grad(model, req, x, g, '%s:derivative-mismatch' % cls, wit, h))
        n += 1
    # batch of points
    wit = _point(model, req, 'gradient_logpdf', X if d > 1 else X[:, 0], h=h, form='mat')
    G = _call(wit, prior.gradient_logpdf, X if d > 1 else X[:, 0], stepsize=step)
    _expect_shape(G, (len(X), d), 'gradient_logpdf:batch-input', {'req': req, 'witness': wit})
    for x, g in zip(X, np.asarray(G, dtype=float).reshape(len(X), d)):
        w1 = _point(model, req, 'gradient_logpdf', [x] if d > 1 else [x[0]], h=h, form='mat')
        err = max(err, _cmp_grad(model, req, x, g, '%s:derivative-mismatch' % cls, w1, h))
        n += 1
    # integer-typed evaluation points (python ints): same points, same derivative
    XI = X[np.all(X == np.round(X), axis=1)][:2]
    for x in XI:
        inp = [int(v) for v in x] if d > 1 else int(x[0])
        wit = _point(model, req, 'gradient_logpdf', inp, h=h, form='point', dtype='int')
        g = _call(wit, prior.gradient_logpdf, inp, stepsize=step)
        _expect_shape(g, (d,), 'gradient_logpdf:integer-point-input', {'req': req, 'witness': wit})
        err = max(err, _cmp_grad(model, req, x, g, 'integer-typed-point', wit, h))
        n += 1
    # far tail of all-normal models: every conditional density is positive and the log density is finite, but the
    # product of densities underflows to 0.0 - the gradient of the LOG density is still the plain derivative there
    n_tail = 0
    if all(nd['fam'] == 'norm' for nd in model['nodes']):
        import itertools as _it
        XT = np.array([c for c in _it.product((40.0, -40.0, 0.0, 28.0), repeat=d) if any(v != 0.0 for v in c)][:10])
        _, _, any_bad, _ = R.joint_pdf(model, order, XT)
        XT = XT[~any_bad]
        XT = XT[[bool(np.all(np.isfinite(R.joint_grad(model, order, x)))) for x in XT]] if len(XT) else XT
        if len(XT):
            lp = np.asarray(_call(w, prior.logpdf, XT if d > 1 else XT[:, 0]), dtype=float).reshape(-1)
            for x, l in zip(XT, lp):
                if not np.isfinite(l):
                    continue      # judged by the density part, not here
                inp = np.array(x) if d > 1 else float(x[0])
                wit = _point(model, req, 'gradient_logpdf', inp, h=h, form='point')
                g = _call(wit, prior.gradient_logpdf, inp, stepsize=step)
                err = max(err, _cmp_grad(model, req, x, g, 'far-tail:derivative-mismatch', wit, h))
                n += 1
                n_tail += 1
    bucket = 'grad_cases_maxerr_' + next((b for t, b in ((1e-8, 'lt_1e-8'), (1e-7, 'lt_1e-7'), (5e-7, 'lt_5e-7'),
                                                          (1e-6, 'lt_1e-6')) if err < t), 'ge_1e-6')
    r = ok(outcome=digest(np.round(np.asarray(G, dtype=float), 6)), grad_points=n, grad_int_points=len(XI),
           grad_far_tail_points=n_tail,
           **{bucket: 1})
    r.update(evals=n, distinct=n)
    return r


# ------------------------------------------------------------------------------- one sub-case (witness replay)
def _point_impl(case):
    model, req, method = case['model'], case['req'], case['method']
    d = len(_order(model, req))
    prior = _prior(model, req, witness=case)
    if method == 'construct':
        return ok(outcome='constructed')
    if method == 'rvs':
        X = _one_rvs(model, req, prior, case['size'], case['seed'], case['mode'], case)
        return ok(outcome=digest(X))
    x = R.dec_nested(case['x'])
    form = case.get('form')
    if case.get('dtype') == 'int':
        inp = int(x) if not isinstance(x, list) else np.array(x).astype(int).tolist()
        if form in ('intvec', 'intmat'):
            inp = np.array(inp, dtype=int)
    elif form == 'pyfloat' or (form in (None, 'point') and not isinstance(x, list)):
        inp = float(x)
    elif form in ('list', 'nested'):
        inp = x
    elif form == 'fortran':
        inp = np.asfortranarray(np.array(x, dtype=float))
    elif form == 'view':
        inp = np.repeat(np.array(x, dtype=float), 2, axis=0)[::2]
    else:
        inp = np.array(x, dtype=float)
    pts = np.asarray(x, dtype=float).reshape(-1, d)
    if method in ('pdf', 'logpdf'):
        val = _call(case, getattr(prior, method), inp)
        v, _ = _cmp_density(model, req, pts, val, log=method == 'logpdf', what=form or 'point', prior=prior)
        if v is not None:
            v[1]['witness'] = case
        _raise_if(v)
        return ok(outcome=digest(np.asarray(val, dtype=float)))
    if method == 'gradient_logpdf':
        h = case.get('h')
        g = _call(case, prior.gradient_logpdf, inp, stepsize=_stepsize(h, d))
        G = np.asarray(g, dtype=float).reshape(-1, d)
        if len(G) != len(pts):
            raise _Viol('C08:shape:gradient_logpdf:point-input', {'req': req, 'got_shape': list(np.shape(g)),
                                                                  'witness': case})
        cls = R.req_class(model, req)
        what = 'integer-typed-point' if case.get('dtype') == 'int' else '%s:derivative-mismatch' % cls
        for xx, gg in zip(pts, G):
            _cmp_grad(model, req, xx, gg, what, case, h)
        return ok(outcome=digest(np.round(G, 6)))
    raise ValueError(method)


run_point = _runner(_point_impl)
RUNNERS = {'density': run_density, 'shapes': run_shapes, 'rvs': run_rvs, 'grad': run_grad, 'point': run_point}


def replay(case):
    return RUNNERS[case['kind']](case)


# ------------------------------------------------------------------------------- enumeration
V_QUICK = [-np.inf, -1, 0, 0.5, 1, 1.5, 2, 2.5, 3.5, np.inf]
V_THOROUGH = [-np.inf, -1, 0, 0.25, 0.5, 0.75, 1, 1.25, 1.5, 2, 2.5, 3, 3.5, 4, np.inf]
RQ = ['u', 'n', 'e', 'b', 't']


def model_family(q):
    """-> list of (family name, model, lite).  Full products inside each family; sizes are reported per family.
    lite = first naming, first form pattern, first tail value of the family (the sub-family on which the
    shapes / grad parts and the non-default rvs requests run)."""
    out = []
    all_roots = list(R.ROOTS)
    all_c1 = list(R.CHILD1)
    all_c2 = list(R.CHILD2)

    def add(fam_name, shape, roots, c1, c2, namings, form_patterns, tails, all_lite=False):
        for assign in R.enum_templates(R.SHAPES[shape], roots, c1, c2):
            for naming in namings:
                for forms in form_patterns:
                    for tail in tails:
                        lite = all_lite or (naming == namings[0] and forms == form_patterns[0] and tail == tails[0])
                        out.append((fam_name, R.make_model(assign, naming, forms, tail), lite))

    perm2 = [('b', 'a'), ('a', 'b')]
    perm3 = [('c', 'b', 'a')] + [p for p in itertools.permutations('abc') if p != ('c', 'b', 'a')]
    # one parameter: every root template in every form
    add('I1', 'I1', all_roots, [], [], [('a',)], [('name',), ('obj',), ('frozen',), ('alias',)], [False], all_lite=True)
    if q:
        add('I2', 'I2', RQ, [], [], [('a', 'b')], [('name', 'obj')], [False])
        add('CH2', 'CH2', RQ + ['r'], all_c1, [], perm2, [('name', 'obj'), ('frozen', 'name')], [False])
        c1 = ['nP1', 'u0P', 'bP2', 'tP1', 'e0P']
        c2 = ['nPQ', 'uPQ', 'bPQ']
        r3 = ['u', 'n']
        nm3 = [('c', 'b', 'a'), ('a', 'b', 'c'), ('b', 'c', 'a')]
        fp3 = [('name', 'obj', 'name')]
        add('I3', 'I3', ['u', 'n', 'e'], [], [], [('a', 'b', 'c')], fp3, [False])
        add('CH3', 'CH3', r3, c1, c2, nm3, fp3, [True])
        add('FK3', 'FK3', r3, c1, c2, nm3, fp3, [False])
        add('CO3', 'CO3', r3 + ['e'], c1, c2, nm3, fp3, [False])
        add('FULL3', 'FULL3', r3, c1, c2, nm3, fp3, [True])
        add('MIX3', 'MIX3', r3, c1[:3], c2, nm3[:2], fp3, [False])
    else:
        fp2 = [('name', 'obj'), ('obj', 'name'), ('frozen', 'alias')]
        add('I2', 'I2', all_roots, [], [], [('a', 'b')], [('name', 'obj')], [False, True])
        add('CH2', 'CH2', all_roots, all_c1, [], perm2, fp2, [False, True])
        c1 = ['nP1', 'n0P', 'uP1', 'u0P', 'uP', 'eP1', 'e0P', 'bP2', 'bsP', 'tP1', 'tsP', 'rP1']
        r3 = ['u', 'n', 'e', 't']
        fp3 = [('name', 'obj', 'name'), ('obj', 'frozen', 'obj')]
        add('I3', 'I3', RQ + ['r'], [], [], [('a', 'b', 'c')], fp3, [False])
        # fork children / collider roots are symmetric under the full template product: 3 namings up to symmetry
        sym3 = [('c', 'b', 'a'), ('b', 'a', 'c'), ('a', 'b', 'c')]
        sym3c = [('c', 'b', 'a'), ('a', 'c', 'b'), ('a', 'b', 'c')]
        add('CH3', 'CH3', r3, c1, all_c2, perm3, fp3[:1], [True])
        add('FK3', 'FK3', r3, c1, all_c2, sym3, fp3[:1], [False])
        add('CO3', 'CO3', RQ, c1, all_c2, sym3c, fp3[:1], [False])
        add('FULL3', 'FULL3', ['u', 'n', 'e'], c1[:8], all_c2, perm3, fp3[:1], [True])
        add('MIX3', 'MIX3', r3, c1, all_c2, perm3[:3], fp3[:1], [False])
    # drop duplicates produced by form normalisation (frozen/alias fall back to obj/name where not applicable)
    seen = set()
    uniq = []
    for fam_name, m, lite in out:
        k = digest(m)
        if k not in seen:
            seen.add(k)
            uniq.append((fam_name, m, lite))
    return uniq


def _light_requests(m):
    """default, every closed subset in sorted order, the reversed full list."""
    closed = [r for r in R.requests(m) if R.is_closed(m, r)]
    full = sorted(R.names(m))
    out = [None] + [r for r in closed if r == sorted(r)]
    if len(full) > 1:
        out.append(full[::-1])
    return out




def run(ctx):
    q = ctx.quick
    n_self = R.selftest()
    V = [R.enc(v) for v in (V_QUICK if q else V_THOROUGH)]
    Vfin = [v for v in V if isinstance(v, float)]
    base = ctx.seed * 1000
    seeds = [base + k for k in range(1 if q else 2)]
    fam = model_family(q)
    per_family = {}
    dens, shp, rvs, grd = [], [], [], []
    n_open = 0
    for fam_name, m, lite in fam:
        pf = per_family.setdefault(fam_name, {'models': 0, 'lite': 0})
        pf['models'] += 1
        pf['lite'] += int(lite)
        d_all = len(m['nodes'])
        light_reqs = _light_requests(m)
        for req in [None] + R.requests(m):
            if req is not None and not R.is_closed(m, req):
                n_open += 1
                continue
            dens.append({'kind': 'density', 'model': m, 'req': req, 'V': V})
            if lite and req in light_reqs:
                shp.append({'kind': 'shapes', 'model': m, 'req': req, 'V': V, 'full': not q})
            if req is None or (lite and req in light_reqs):
                rvs.append({'kind': 'rvs', 'model': m, 'req': req, 'seeds': seeds,
                            'global_sizes': [None] if q else [None, 1, 3]})
        if lite:
            for req in light_reqs:
                d = d_all if req is None else len(req)
                if q:
                    Vg = {1: Vfin, 2: [0.75, 1.0, 1.5, 2.0], 3: [1.0, 1.5, 2.0]}[d]
                else:
                    Vg = {1: Vfin, 2: [0.75, 1.0, 1.25, 1.5, 2.0], 3: [1.0, 1.5, 2.0]}[d]
                hs = [None]
                if req is None:
                    hs += ['list'] if q else [1e-4, 'list', 'array']
                for h in hs:
                    grd.append({'kind': 'grad', 'model': m, 'req': req, 'h': h, 'Vg': Vg, 'n_single': 1 if q else 3})
    ctx.count(models=len(fam), requests_not_ancestrally_closed_excluded=n_open, reference_selftest_derivatives=n_self)
    ctx.extra['models_per_family'] = per_family
    ctx.extra['grid_values'] = V

    def wanted(name):
        return not ctx.only or name in ctx.only
    if wanted('density'):
        ctx.run_cases(run_density, dens, 'density', sample_every=max(1, len(dens) // 4))
    if wanted('shapes'):
        ctx.run_cases(run_shapes, shp, 'shapes', sample_every=max(1, len(shp) // 2))
    if wanted('rvs'):
        ctx.run_cases(run_rvs, rvs, 'rvs', sample_every=max(1, len(rvs) // 2))
    if wanted('grad'):
        ctx.run_cases(run_grad, grd, 'grad', sample_every=max(1, len(grd) // 2))

    ctx.rule = ('full product, per graph-shape family, of (distribution template per node [family x argument pattern: '
                'constants / parent-valued loc, scale, shape / 0-4 arguments], naming permutation, form pattern '
                '[name|scipy object|frozen|alias|hand-written class], downstream simulator yes/no) x requested list '
                '(default, every permutation, every ancestrally closed subset in every order) x part; density: every '
                'point of V^dim on every model (evaluations = points x {pdf,logpdf}; non-trivial = every conditional '
                'density of the reference is a finite number at the point; distinct by construction of the grid); '
                'shapes, grad and rvs on the lite sub-family (first naming / form pattern of each family) x light '
                'requests (default, every closed subset in sorted order, reversed full list), rvs additionally on '
                'every model for the default request; there evaluations = real ModelPrior calls compared with the '
                'reference')
    ctx.assumptions += [
        'reference = direct product of scipy.stats densities with the parent values substituted (rayleigh for the '
        'hand-written family); pdf compared with rtol %g (multiplication order), logpdf with %g*(1+|ref|), zero and '
        '-inf sets compared exactly' % (RTOL_PDF, TOL_LOG),
        'requested subsets with a member whose parent is outside the subset are excluded (their meaning would need '
        'marginalisation; the statement does not define it)',
        'points at which some conditional density of the reference is nan/inf (parent value that is an illegal scale/'
        'shape, infinite parent value, beta shape < 1 at its end point) are undefined: nan or 0 (nan or -inf for '
        'logpdf) are both accepted there and the point is counted as trivial',
        'only hierarchies whose parent supports keep scale/shape arguments in [0.5, inf) are enumerated (otherwise '
        'rvs itself is undefined); a node used twice as argument of one child (norm(a, a)) is excluded: the model '
        'graph cannot represent it (one edge per node pair), which is outside this statement',
        'gradient points: interior grid points with positive finite reference density at the point and at +-%g along '
        'every axis; |elfi - closed form| <= %g*(1+|ref|); stepsizes None, 1e-4, per-dimension list 1e-5*2^j'
        % (MARGIN, TOL_GRAD),
        'shape rule demanded: pdf/logpdf of one point (scalar for dim 1, (dim,) for dim > 1) is 0-d, of n points '
        '(n,); gradient of one point (dim,), of n points (n,dim); rvs size None -> () or (dim,), size n -> (n,) or '
        '(n,dim) (the convention of the repo\'s own distribution_test fixture)',
        'closed-form derivatives of the reference verified against a 5-point stencil of scipy logpdf at start-up '
        '(%d partial derivatives)' % n_self,
    ]
