"""C19 ROMC regions, density, weights.  Modes P + E.

Sections
  bbox        (P) every (dim, orthonormal rotation, centre, limits) of the alphabet: NDimBoundingBox built on the real
              class; every point of sample(n2, seed) for all seeds/n2 must be `contains`-ed and lie in the geometric
              box (independent projection through R^T); test points c + R u built by the harness strictly inside /
              outside every face, at corners and far away: pdf == 1/prod(widths) resp. 0 (degenerate limits widened).
  linesearch  (E) the objective is the environment: for every probed offset it answers below / above / exactly-at the
              threshold (memoised per offset, so every execution is a function); the complete answer tree of
              line_search is explored with vmc.explore for every (K, eta, rep_lim, start, direction).
  build       (E) the same environment under RegionConstructor.build (2*dim line searches sharing one objective), oracle
              applied per ray of the returned box.
  posterior   (P) RomcPosterior built directly from hand-made regions / objectives with exactly representable values /
              ModelPrior of 1- and 2-parameter models, surrogate_used both ways: pdf_unnorm on a dyadic grid (points
              exactly at the cut-off and on region faces included), sample(n2, seed) weights and distances,
              _worker_compute_weight.
  pipeline    (P) the path a user takes after the optimiser: OptimisationProblem objects with hand-given optimisation
              results injected into a real ROMC object, estimate_regions (filter -> build_region -> optional local
              surrogates -> posterior), eval_unnorm_posterior and sample; oracle computed from the problems alone.
  e2e         (P) small real ROMC runs (solve_problems with the real optimiser) whose posterior is compared with the
              definition evaluated through independent model.generate calls.
"""
import contextlib
import io
import itertools
import math

import numpy as np

from .. import explore
from ..canon import digest, jsonable
from ..guard import guarded
from ..report import ok, bad
from ..ref import c19_ref as ref

PID = 'C19'
LEVEL = 'exploration'

RTOL = 1e-12


def _close(a, b, rtol=RTOL):
    a = float(a)
    b = float(b)
    if a == b:
        return True
    if not (math.isfinite(a) and math.isfinite(b)):
        return False
    return abs(a - b) <= rtol * max(abs(a), abs(b))


@contextlib.contextmanager
def _quiet():
    """The ROMC progress bar prints to stdout."""
    with contextlib.redirect_stdout(io.StringIO()):
        yield


# =====================================================================================================================
# bbox (P)
# =====================================================================================================================
def _make_box(spec):
    from elfi.methods.inference.romc import NDimBoundingBox
    dim = len(spec['center'])
    R = ref.rot_matrix(dim, spec['rot'])
    c = np.array(spec['center'], dtype=float)
    lim = np.array(spec['limits'], dtype=float)
    if spec.get('shared'):
        # a caller that builds several regions from the same input arrays: the box under judgement is built first, then
        # `shared` further boxes are built from the very same rotation / limits objects (other centres); the first box
        # must still be the box of its own specification
        Rin, lin = R.copy(), lim.copy()
        bb = NDimBoundingBox(Rin, c.copy(), lin)
        for k in range(int(spec['shared'])):
            NDimBoundingBox(Rin, c + 1.0 + k, lin)
        return bb, R, c
    return NDimBoundingBox(R.copy(), c.copy(), lim.copy()), R, c


def _box_points(eff, margin, fracs):
    """Test points in box coordinates: (u, expected membership, label)."""
    dim = len(eff)
    lo = np.array([l for l, h in eff])
    hi = np.array([h for l, h in eff])
    w = hi - lo
    pts = []
    # interior lattice
    for fr in itertools.product(fracs, repeat=dim):
        pts.append((lo + np.array(fr) * w, 1, 'interior'))
    # corners just inside
    for cs in itertools.product((0, 1), repeat=dim):
        u = np.where(np.array(cs) == 1, hi - margin, lo + margin)
        pts.append((u, 1, 'corner-inside'))
    # each face: just inside / just outside / far outside, the other coordinates at every lattice fraction
    for i in range(dim):
        for side in (0, 1):
            b = hi[i] if side else lo[i]
            sgn = 1.0 if side else -1.0
            for fr in itertools.product(fracs, repeat=dim - 1):
                base = lo + np.insert(np.array(fr, dtype=float), i, 0.0) * w
                for d, exp, lab in ((-margin, 1, 'face-inside'), (margin, -1, 'face-outside'),
                                    (w[i] + 1.0, -1, 'far-outside')):
                    u = base.copy()
                    u[i] = b + sgn * d
                    pts.append((u, exp, lab))
    # outside through a corner only (all coordinates beyond by margin)
    for cs in itertools.product((0, 1), repeat=dim):
        u = np.where(np.array(cs) == 1, hi + margin, lo - margin)
        pts.append((u, -1, 'corner-outside'))
    return pts


@guarded('C19')
def run_bbox(case):
    bb, R, c = _make_box(case)
    dim = len(c)
    eff = ref.effective_limits(case['limits'])
    scale = ref.box_scale(c, eff)
    margin = 1e-9 * scale
    vol = ref.box_volume(eff)
    p_in = 1.0 / vol
    widened = any((hi - lo) <= ref.WIDEN_TOL for lo, hi in case['limits'])
    n = 0
    seen = set()
    info = {'rot': case['rot'], 'center': case['center'], 'limits': case['limits'], 'effective_limits': eff}

    # (1) harness-built test points
    for u, exp, lab in _box_points(eff, margin, case.get('fracs', [0.5])):
        p = c + R @ u
        n += 1
        seen.add(p.tobytes())
        got_c = bb.contains(p.copy())
        got_p = bb.pdf(p.copy())
        sub = dict(info, point=p.tolist(), box_coords=u.tolist(), where=lab, contains=bool(got_c), pdf=float(got_p))
        if exp > 0:
            if not got_c:
                return bad('C19:bbox:inside-point-not-contained', sub)
            if not _close(got_p, p_in):
                return bad('C19:bbox:pdf-inside-not-1-over-volume' + (':widened-limits' if widened else ''),
                           dict(sub, expected=p_in))
        else:
            if got_c:
                return bad('C19:bbox:outside-point-contained', sub)
            if float(got_p) != 0.0:
                return bad('C19:bbox:pdf-outside-not-zero', dict(sub, expected=0.0))

    # (2) every sampled point
    first = None
    for seed in case['seeds']:
        for n2 in case['n2s']:
            s = bb.sample(n2, seed=seed)
            s = np.asarray(s)
            if s.shape != (n2, dim):
                return bad('C19:bbox:sample-shape', dict(info, seed=seed, n2=n2, shape=list(s.shape)))
            if first is None:
                first = s.copy()
            for p in s:
                n += 1
                seen.add(p.tobytes())
                sub = dict(info, seed=seed, n2=n2, point=p.tolist())
                if not np.all(np.isfinite(p)):
                    return bad('C19:bbox:sample-not-finite', sub)
                if not bb.contains(p.copy()):
                    return bad('C19:bbox:sample-not-contained', sub)
                if ref.membership(R, c, eff, p, margin) < 0:
                    return bad('C19:bbox:sample-outside-geometric-box',
                               dict(sub, box_coords=ref.box_coords(R, c, p).tolist()))
                if not _close(bb.pdf(p.copy()), p_in):
                    return bad('C19:bbox:pdf-at-sample-not-1-over-volume', dict(sub, expected=p_in))
    r = ok(outcome=digest((round(p_in, 9), first)), widened=int(widened), boxes=1)
    r.update(evals=n, distinct=len(seen))
    return r


def _bbox_cases(q, base):
    seeds = [base + k for k in range(4)]
    n2s = [1, 5]
    L1 = [[-1, 1], [-0.5, 2], [0, 0], [-1e-4, 1e-4], [0, 3], [-2, 0], [0, 5e-4], [-1e-3, 1e-3], [-0.125, 0.0625]]
    if not q:
        L1 += [[-7, 0.5], [-2e-4, 0], [0, 2e-3], [-40, 60]]
    centers = {
        1: [[0.0], [1.5], [-100.0]] + ([] if q else [[1e-3], [640.25]]),
        2: [[0.0, 0.0], [1.5, -2.0], [-100.0, 37.5]] + ([] if q else [[1e-3, 0.0], [3.0, 640.25]]),
        3: [[0.0, 0.0, 0.0], [1.5, -2.0, 0.25], [-100.0, 37.5, 1e-3]] + ([] if q else [[0.0, 640.25, -3.0]]),
    }
    cases = []

    def add(rot, center, limits, fracs):
        cases.append({'kind': 'bbox', 'rot': rot, 'center': center, 'limits': limits, 'seeds': seeds, 'n2s': n2s,
                      'fracs': fracs})
        # the same box when the caller's arrays are reused for further boxes (every 3rd specification, all in dim 1)
        if len(center) == 1 or len(cases) % 3 == 0:
            cases.append({'kind': 'bbox', 'rot': rot, 'center': center, 'limits': limits, 'seeds': seeds[:1], 'n2s': n2s,
                          'fracs': fracs, 'shared': 1 + len(cases) % 2})

    def cover(rots, cl, stride, fracs):
        """Covering design: rotation i meets every stride-th (centre, limits) pair starting at i mod stride, so every
        rotation, every centre and every limits tuple occurs, and every pair occurs with ~1/stride of the rotations."""
        for i, rot in enumerate(rots):
            for j in range(i % stride, len(cl), stride):
                add(rot, cl[j][0], cl[j][1], fracs)

    # dim 1: full product
    for rot in [[['I']], [['refl', 0]]]:
        for c in centers[1]:
            for l in L1:
                add(rot, c, [l], [0.0625, 0.5, 0.9375])
    # dim 2
    el2 = [[f] for f in ref.elementary_rotations(2, range(1, 16))]
    el2 += [[['rot', 0, 1, k], ['refl', 0]] for k in ((1, 5, 12) if q else range(1, 16))]
    la = L1[:7] if q else L1[:9]
    cl2 = [(c, [a, b]) for c in centers[2] for a in la for b in la]
    cover(el2, cl2, 13 if q else 1, [0.25, 0.75] if q else [0.0625, 0.5, 0.9375])      # thorough: full product
    if not q:
        extra2 = [(c, [a, b]) for c in centers[2] for a in L1 for b in L1 if a in L1[9:] or b in L1[9:]]
        cover(el2, extra2, 5, [0.25, 0.75])
    # dim 3
    ks3 = (1, 3, 4, 6, 11) if q else range(1, 16)
    el3 = ref.elementary_rotations(3, ks3)
    if q:
        sub = [['perm', [1, 2, 0]], ['refl', 2], ['rot', 0, 1, 1], ['rot', 1, 2, 3], ['rot', 0, 2, 6]]
    else:
        sub = [f for f in el3 if f != ['I'] and (f[0] != 'rot' or f[3] in (1, 3, 4, 6, 11))]
    prod3 = [[a, b] for a in sub for b in sub if a != b]
    l4 = [[-1, 1], [0, 0], [-1e-4, 1e-4], [-0.5, 2]]

    def cl3(cs, alphabet):
        return [(c, [a, b, c_]) for c in cs for a in alphabet for b in alphabet for c_ in alphabet]
    if q:
        cover([[f] for f in el3] + prod3, cl3(centers[3], l4), 13, [0.5])
    else:
        cover([[f] for f in el3], cl3(centers[3][:2], l4), 1, [0.25, 0.75])     # full product, elementary rotations
        cover([[f] for f in el3], cl3(centers[3][2:], l4), 3, [0.25, 0.75])     # far centres: covering design
        cover(prod3, cl3(centers[3], l4), 23, [0.25, 0.75])                     # products of two: covering design
        l6 = l4 + [[0, 3], [0, 5e-4]]
        extra = [x for x in cl3(centers[3], l6) if any(y in ([0, 3], [0, 5e-4]) for y in x[1])]
        cover([[f] for f in el3], extra, 13, [0.5])
    return cases


# =====================================================================================================================
# line search (E)
# =====================================================================================================================
EPS_LS = 1.0
ANSWER_VALUE = {0: EPS_LS - 1.0, 1: EPS_LS + 1.0, 2: EPS_LS}   # below / above / exactly at the threshold
SUB = 4096   # sub-grid per finest step used to key probed positions


class _Env:
    """The objective as environment: answers per probed position, memoised so that it is a function."""

    def __init__(self, ch, arity, key_fn):
        self.ch = ch
        self.arity = arity
        self.key_fn = key_fn
        self.memo = {}
        self.probes = []    # (key, answer) in call order

    def __call__(self, th):
        key = self.key_fn(np.array(th, dtype=float))
        if key not in self.memo:
            self.memo[key] = self.ch.choose(self.arity, 'probe')
        a = self.memo[key]
        self.probes.append((key, a))
        return ANSWER_VALUE[a]


def _judge_ray(result_units, eta_units, probes, start_answer):
    """Oracle for one search ray.  All quantities in integer sub-grid units.
    probes: [(offset_units, answer)] on the line of the ray (negative offsets allowed).
    Returns None or (signature suffix, detail)."""
    r = result_units
    if not (isinstance(r, float) or isinstance(r, int)) or not math.isfinite(r) or r <= 0:
        return ('nonpositive-offset', {'result_units': r})
    if start_answer != 0:
        return None     # premise (objective below the threshold at the start) does not hold: positivity only
    notbelow = sorted(o for o, a in probes if a != 0 and 0 <= o < r - 0.5)
    if notbelow:
        return ('probe-not-below-threshold-before-returned-offset', {'offsets_units': notbelow[:5]})
    below_pos = sorted(set(o for o, a in probes if a == 0 and o > 0))
    if any(abs(o - r) <= 0.5 for o in below_pos):
        return None
    # resolution fallback: nothing beyond the start was found below; the boundary is put at a step of the search
    if not below_pos and r <= eta_units + 0.5:
        return None
    return ('offset-neither-probed-below-nor-resolution-fallback', {'below_offsets_units': below_pos[:8]})


def _ls_setup(case):
    K, eta, rep_lim = case['K'], float(case['eta']), case['rep_lim']
    start = np.array(case['start'], dtype=float)
    vd = np.array(case['vd'], dtype=float)
    g = eta / 2 ** (K + 1) / SUB
    vv = float(np.dot(vd, vd))

    def key_fn(th):
        off = float(np.dot(th - start, vd)) / vv
        resid = float(np.max(np.abs(th - start - off * vd)))
        if resid > 1e-9 * max(1.0, float(np.max(np.abs(th)))):
            return ('off-line', tuple(np.round(th, 9).tolist()))
        return int(round(off / g))
    return K, eta, rep_lim, start, vd, g, key_fn


def _ls_body(case):
    from elfi.methods.inference.romc import line_search
    K, eta, rep_lim, start, vd, g, key_fn = _ls_setup(case)
    arity = case.get('answers', 3)

    def body(ch):
        env = _Env(ch, arity, key_fn)
        r = line_search(env, start.copy(), vd.copy(), EPS_LS, K=K, eta=eta, rep_lim=rep_lim)
        return {'r': r, 'probes': list(env.probes), 'start': env.memo.get(0)}
    return body, g, eta


def _ls_check(case, obs, g, eta):
    if any(not isinstance(k, int) for k, a in obs['probes']):
        return ('probe-off-the-search-line', {'probes': jsonable(obs['probes'][:6])})
    try:
        r = float(obs['r'])
    except Exception:
        return ('nonpositive-offset', {'result': repr(obs['r'])})
    return _judge_ray(r / g, eta / g, obs['probes'], obs['start'])


def _ls_describe(obs, g):
    return {'result': jsonable(obs['r']),
            'probes(offset,answer 0=below 1=above 2=at-threshold)': [[k * g if isinstance(k, int) else k, a]
                                                                     for k, a in obs['probes']]}


@guarded('C19')
def run_ls_tree(case):
    """All answer functions of one (K, eta, rep_lim, start, direction) configuration."""
    body, g, eta = _ls_body(case)
    explore.determinism_selftest(body, [0, 0, 1])
    outcomes = set()

    def check(obs, run):
        outcomes.add(digest((obs['r'], obs['probes'])))
        v = _ls_check(case, obs, g, eta)
        if v:
            return (v[0], dict(v[1], **_ls_describe(obs, g)))
        return None
    st = explore.explore(body, check, max_executions=case.get('max_executions'))
    return _tree_result('linesearch', 'ls_one', case, st, outcomes)


ROOT_CAUSE_SUFFIXES = ('box-axes-not-eigenvectors-of-hessian', 'rotation-not-orthonormal')


def _sig(section, suffix):
    """Signatures of region-construction findings name the root cause, not the section that met it."""
    if suffix in ROOT_CAUSE_SUFFIXES:
        return 'C19:region-constructor:' + suffix
    return 'C19:%s:%s' % (section, suffix)


def _tree_result(section, one_kind, case, st, outcomes):
    res = ok(outcome=None, trivial=st['executions'] <= 1, executions=st['executions'],
             choice_points=st['choice_points'], capped=int(st['capped']))
    res.update(evals=st['executions'], distinct=len(outcomes), transitions=st.get('transitions', 0),
               validated=st.get('complete', 0), outcomes=sorted(outcomes), max_depth=st['max_depth'])
    if st['violations']:
        v, choices = min(st['violations'], key=lambda vc: (len(vc[1]), sum(vc[1]), vc[1]))
        res['viol'] = {'sig': _sig(section, v[0]),
                       'detail': jsonable(dict(v[1], answers=choices, n_violating_executions=len(st['violations'])))}
        res['witness'] = dict({k: v_ for k, v_ in case.items() if k != 'max_executions'}, kind=one_kind, choices=choices)
    return res


@guarded('C19')
def run_ls_one(case):
    """Replay exactly one answer function (choice list)."""
    body, g, eta = _ls_body(case)
    run = explore.run_once(body, case['choices'])
    v = _ls_check(case, run.obs, g, eta)
    if v:
        return bad('C19:linesearch:' + v[0], dict(v[1], **_ls_describe(run.obs, g)))
    return ok(outcome=digest((run.obs['r'], run.obs['probes'])))


def _ls_cases(q):
    cases = []
    geoms = [([0.0], [1.0]), ([0.5], [-1.0]), ([1.0, -2.0], [0.6, 0.8])]
    if not q:
        geoms += [([-3.0], [1.0]), ([0.25, 0.5, -1.0], [0.0, 0.0, -1.0]),
                  ([0.0, 0.0], [-0.7071067811865476, 0.7071067811865476])]
    for gi, (start, vd) in enumerate(geoms):
        for eta in (1.0, 0.5) if q else (2.0, 1.0, 0.5, 0.25):
            if q:
                kmax = rmax = 4
            elif gi == 0 and eta == 1.0:
                kmax = rmax = 7
            elif eta == 1.0:
                kmax = rmax = 6
            else:
                kmax = rmax = 5
            for K in range(0, kmax + 1):
                for rep_lim in range(0, rmax + 1):
                    cases.append({'kind': 'ls_tree', 'K': K, 'eta': eta, 'rep_lim': rep_lim, 'start': start, 'vd': vd,
                                  'answers': 3})
    if not q:
        # the library defaults K=10 with small repetition limits (two answers: below / above)
        for rep_lim in (0, 1, 2):
            cases.append({'kind': 'ls_tree', 'K': 10, 'eta': 1.0, 'rep_lim': rep_lim, 'start': [0.0], 'vd': [1.0],
                          'answers': 2})
    return cases


# =====================================================================================================================
# RegionConstructor.build (E)
# =====================================================================================================================
def _build_body(case):
    from elfi.methods.inference.romc import RegionConstructor, RomcOptimisationResult
    K, eta, rep_lim = case['K'], float(case['eta']), case['rep_lim']
    x0 = np.array(case['x_min'], dtype=float)
    hess = np.array(case['hess'], dtype=float)
    dim = len(x0)
    g = eta / 2 ** (K + 1) / SUB
    arity = case.get('answers', 2)

    def key_fn(th):
        # position relative to the optimum on the sub-grid; the frame is decided after the run (the box's rotation)
        return tuple(np.round((th - x0) / g, 3).tolist())

    def body(ch):
        env = _Env(ch, arity, key_fn)
        res = RomcOptimisationResult(x0.copy(), ANSWER_VALUE[0], hess.copy())
        rc = RegionConstructor(res, env, dim, eps_region=EPS_LS, K=K, eta=eta, rep_lim=rep_lim)
        boxes = rc.build()
        out = {'n_boxes': len(boxes), 'probes': list(env.probes)}
        if boxes:
            b = boxes[0]
            out.update(rotation=np.array(b.rotation, dtype=float), center=np.array(b.center, dtype=float),
                       limits=np.array(b.limits, dtype=float))
        return out
    return body, g, eta, x0


# The statement of C19 does not say which rotation a constructed region has.  The anchored mechanism
# (_find_rotation_vector: "find search lines from the hessian approximation") and the repository's own
# test_region_constructor1 do: the box axes are the eigenvectors of the Hessian approximation.  The clause is kept
# separate (own signature, this switch) because it reads the mechanism's documentation rather than the statement.
CHECK_EIGEN_AXES = bool(int(__import__("os").environ.get("VMC_C19_EIGEN_AXES", "0")))   # off the verdict: the statement does not prescribe the axes


def _axes_are_eigenvectors(R, hess):
    """None if not applicable (Hessian not symmetric / eigenvalues not well separated), else True/False."""
    H = np.asarray(hess, dtype=float)
    if H.ndim != 2 or H.shape[0] != H.shape[1] or not np.all(np.isfinite(H)) or not np.allclose(H, H.T, atol=1e-12):
        return None
    w = np.linalg.eigvalsh(H)
    scale = float(np.max(np.abs(w)))
    if scale == 0 or len(w) < 2 or float(np.min(np.diff(w))) < 1e-3 * scale or float(np.min(np.abs(w))) < 1e-3 * scale:
        return None
    for d in range(H.shape[0]):
        v = R[:, d]
        if float(np.max(np.abs(H @ v - float(v @ H @ v) * v))) > 1e-8 * scale:
            return False
    return True


def _build_check(case, obs, g, eta, x0, hess=None):
    if obs['n_boxes'] != 1:
        return ('number-of-boxes', {'n': obs['n_boxes']})
    R, c, lim = obs['rotation'], obs['center'], obs['limits']
    dim = len(x0)
    if R.shape != (dim, dim) or lim.shape != (dim, 2) or c.shape != (dim,):
        return ('shapes', {'rotation': list(R.shape), 'limits': list(lim.shape)})
    if not np.array_equal(c, x0):
        return ('box-not-centred-at-optimum', {'center': c.tolist(), 'x_min': x0.tolist()})
    if not np.allclose(R.T @ R, np.eye(dim), atol=1e-9):
        return ('rotation-not-orthonormal', {'rotation': R.tolist()})
    if CHECK_EIGEN_AXES and hess is not None and _axes_are_eigenvectors(R, hess) is False:
        return ('box-axes-not-eigenvectors-of-hessian', {'rotation': R.tolist(), 'hess_appr': np.asarray(hess).tolist()})
    # probes in the box frame
    rays = {}
    start_answer = None
    for key, a in obs['probes']:
        u = R.T @ (np.array(key, dtype=float))      # in sub-grid units
        nz = [i for i in range(dim) if abs(u[i]) > 1e-3]
        if not nz:
            start_answer = a
            continue
        if len(nz) > 1:
            return ('probe-off-the-box-axes', {'probe': (np.array(key) * g).tolist()})
        i = nz[0]
        rays.setdefault(i, []).append((float(u[i]), a))
    for i in range(dim):
        pr = rays.get(i, [])
        lo, hi = float(lim[i, 0]), float(lim[i, 1])
        for sgn, r in ((-1.0, -lo), (1.0, hi)):
            ray = [(sgn * o, a) for o, a in pr] + [(0.0, start_answer if start_answer is not None else 1)]
            v = _judge_ray(r / g, eta / g, ray, start_answer if start_answer is not None else 1)
            if v:
                return (v[0], dict(v[1], axis=i, side='+' if sgn > 0 else '-', limits=lim.tolist()))
    return None


def _build_describe(obs, g):
    return {'limits': jsonable(obs.get('limits')), 'rotation': jsonable(obs.get('rotation')),
            'probes(position-x_min,answer)': [[(np.array(k) * g).tolist(), a] for k, a in obs['probes']]}


@guarded('C19')
def run_build_tree(case):
    body, g, eta, x0 = _build_body(case)
    explore.determinism_selftest(body, [0, 0, 1])
    outcomes = set()

    def check(obs, run):
        outcomes.add(digest((obs.get('limits'), obs['probes'])))
        v = _build_check(case, obs, g, eta, x0, case['hess'])
        if v:
            return (v[0], dict(v[1], **_build_describe(obs, g)))
        return None
    st = explore.explore(body, check, max_executions=case.get('max_executions'))
    return _tree_result('build', 'build_one', case, st, outcomes)


@guarded('C19')
def run_build_one(case):
    body, g, eta, x0 = _build_body(case)
    run = explore.run_once(body, case['choices'])
    v = _build_check(case, run.obs, g, eta, x0, case['hess'])
    if v:
        return bad(_sig('build', v[0]), dict(v[1], **_build_describe(run.obs, g)))
    return ok(outcome=digest((run.obs.get('limits'), run.obs['probes'])))


def _build_cases(q):
    cases = []
    one_d = [([0.5], [[2.0]]), ([-1.0], [[0.0]])]
    two_d = [([0.5, -1.0], [[1.0, 0.0], [0.0, 2.0]]), ([0.0, 0.0], [[2.0, 1.0], [1.0, 2.0]]),
             ([1.0, 2.0], [[0.0, 0.0], [0.0, 0.0]]),
             # nearly isotropic with asymmetric finite-difference noise, as numerical Hessians are
             ([0.0, 0.0], [[2.0, 3e-10], [1e-10, 2.0]])]
    for x0, h in one_d:
        for K in (1, 2, 3) if q else (1, 2, 3, 4, 5):
            for rep_lim in (0, 1, 2) if q else (0, 1, 2, 3, 4):
                for eta in (1.0, 0.5):
                    if K * (rep_lim + 2) > 20:
                        continue
                    three = K * (rep_lim + 2) <= (6 if q else 10)
                    cases.append({'kind': 'build_tree', 'x_min': x0, 'hess': h, 'K': K, 'eta': eta, 'rep_lim': rep_lim,
                                  'answers': 3 if three else 2})
    for x0, h in two_d:
        for K, rep_lim in ((1, 0), (1, 1), (2, 0)) if q else ((1, 0), (1, 1), (2, 0), (1, 2), (2, 1), (2, 2), (3, 1), (3, 2)):
            for eta in (1.0,) if q else (1.0, 0.5):
                cases.append({'kind': 'build_tree', 'x_min': x0, 'hess': h, 'K': K, 'eta': eta, 'rep_lim': rep_lim,
                              'answers': 2})
    return cases


# =====================================================================================================================
# posterior (P)
# =====================================================================================================================
_PRIOR_CACHE = {}


def _prior(name):
    if name not in _PRIOR_CACHE:
        _PRIOR_CACHE[name] = ref.build_prior(name)
    return _PRIOR_CACHE[name]


def _make_posterior(case):
    from elfi.methods.posteriors import RomcPosterior
    prior = _prior(case['prior'])
    boxes, frames, funcs = [], [], []
    for spec, od in case['pairs']:
        bb, R, c = _make_box(spec)
        eff = ref.effective_limits(spec['limits'])
        boxes.append(bb)
        frames.append((R, c, eff, 1e-9 * ref.box_scale(c, eff)))
        funcs.append(ref.make_objective(od))
    dim = ref.PRIOR_DIM[case['prior']]
    eps = float(case['eps'])
    post = RomcPosterior(boxes, funcs, funcs, None, funcs if case['surrogate_used'] else None,
                         list(range(len(boxes))), bool(case['surrogate_used']), prior,
                         np.full(dim, -3.0), np.full(dim, 3.0), eps, eps, eps)
    return post, boxes, frames, funcs, eps, prior


def _grid(case):
    if 'points' in case:
        return [list(map(float, p)) for p in case['points']]
    return [list(p) for p in itertools.product(*case['axes'])]


def _count_range(theta, frames, funcs, eps, surrogate_used, strict=False):
    """(lowest, highest) admissible number of problems counted at theta; the two differ only when theta lies within
    the margin of a region face (measure-zero boundary: either answer is accepted)."""
    lo = hi = 0
    for (R, c, eff, margin), f in zip(frames, funcs):
        d = f(np.array(theta, dtype=float))
        within = (d < eps) if strict else (d <= eps)
        if not within:
            continue
        if not surrogate_used:
            lo += 1
            hi += 1
            continue
        mem = ref.membership(R, c, eff, theta, margin)
        if mem > 0:
            lo += 1
            hi += 1
        elif mem == 0:
            hi += 1
    return lo, hi


def _check_pdf(case):
    post, boxes, frames, funcs, eps, prior = _make_posterior(case)
    pts = _grid(case)
    arr = np.array(pts, dtype=float)
    got = np.asarray(post.pdf_unnorm_batched(arr.copy()), dtype=float)
    if got.shape != (len(pts),):
        return bad('C19:posterior:pdf:shape', {'shape': list(got.shape), 'n_points': len(pts)})
    n_cut = n_face = n_pos = 0
    vals = []
    for k, th in enumerate(pts):
        pr = ref.prior_ref(case['prior'], th)
        lo, hi = _count_range(th, frames, funcs, eps, case['surrogate_used'])
        ds = [f(np.array(th)) for f in funcs]
        at_cut = any(d == eps for d in ds)
        n_cut += at_cut
        n_face += lo != hi
        n_pos += (pr * hi) > 0
        g = float(got[k])
        vals.append(g)
        if any(_close(g, pr * cnt) for cnt in range(lo, hi + 1)):
            continue
        sub = {'theta': th, 'got': g, 'prior_density': pr, 'admissible_counts': [lo, hi], 'distances': ds,
               'eps_cutoff': eps, 'surrogate_used': case['surrogate_used']}
        # classify by what the failing case involves (regions are consulted only with surrogate_used)
        if pr > 0 and abs(g / pr - round(g / pr)) < 1e-9:
            sub['got_count'] = int(round(g / pr))
            if case['surrogate_used']:
                return bad('C19:posterior:pdf:wrong-count-with-region-membership', sub)
            slo, shi = _count_range(th, frames, funcs, eps, False, strict=True)
            if at_cut and slo <= sub['got_count'] <= shi:
                return bad('C19:posterior:pdf:distance-exactly-at-cutoff-not-counted', sub)
            return bad('C19:posterior:pdf:wrong-count-of-problems', sub)
        return bad('C19:posterior:pdf:not-prior-times-count', sub)
    # one point through the single-point entry as well
    th0 = np.array(pts[len(pts) // 2], dtype=float)
    one = float(post._pdf_unnorm_single_point(th0))
    if one != float(got[len(pts) // 2]):
        return bad('C19:posterior:pdf:batched-differs-from-single-point', {'theta': th0.tolist(), 'single': one,
                                                                          'batched': float(got[len(pts) // 2])})
    r = ok(outcome=digest(np.round(np.array(vals), 12)), points_at_cutoff=n_cut, points_on_region_face=n_face,
           points_with_positive_density=n_pos)
    r.update(evals=len(pts), distinct=len(pts))
    return r


def _check_sample(case, worker):
    post, boxes, frames, funcs, eps, prior = _make_posterior(case)
    nreg = len(boxes)
    dim = ref.PRIOR_DIM[case['prior']]
    n = 0
    nz = 0
    outs = []
    for seed in case['seeds']:
        for n2 in case['n2s']:
            if worker:
                # the per-region worker used by the parallel path, called directly on points drawn from the regions
                theta = np.array([b.sample(n2, seed=seed) for b in boxes], dtype=float)
                w, dist = np.zeros((nreg, n2)), np.zeros(nreg * n2)
            else:
                with _quiet():
                    theta, w, dist = post.sample(n2, seed=seed)
            theta, w, dist = np.asarray(theta, dtype=float), np.asarray(w, dtype=float), np.asarray(dist, dtype=float)
            info = {'seed': seed, 'n2': n2}
            if theta.shape != (nreg, n2, dim) or w.shape != (nreg, n2) or dist.size != nreg * n2:
                return bad('C19:posterior:sample:shape', dict(info, theta=list(theta.shape), w=list(w.shape),
                                                              distances=list(dist.shape)))
            dist = dist.reshape(nreg, n2)
            for i in range(nreg):
                R, c, eff, margin = frames[i]
                vol = ref.box_volume(eff)
                if worker:
                    ww, dd = post._worker_compute_weight((i, theta[i].copy(), boxes[i], prior, funcs[i], eps, n2))
                    ww, dd = np.asarray(ww, dtype=float), np.asarray(dd, dtype=float)
                    if ww.shape != (n2,) or dd.shape != (n2,):
                        return bad('C19:posterior:worker:shape', dict(info, region=i))
                for j in range(n2):
                    th = theta[i, j]
                    n += 1
                    sub = dict(info, region=i, draw=j, theta=th.tolist(), eps_cutoff=eps)
                    if ref.membership(R, c, eff, th, margin) < 0:
                        return bad('C19:posterior:sample:not-in-its-region', sub)
                    d = funcs[i](th.copy())
                    pr = ref.prior_ref(case['prior'], th)
                    exp = (1.0 if d < eps else 0.0) * pr * vol
                    sub.update(distance=d, prior_density=pr, region_volume=vol, expected_weight=exp)
                    src = (('worker', float(ww[j]), float(dd[j])),) if worker else (('sample', float(w[i, j]), float(dist[i, j])),)
                    for name, gw, gd in src:
                        sub.update(got_weight=gw, got_distance=gd)
                        if gd != d:
                            return bad('C19:posterior:%s:distance-not-objective-at-sample' % name, sub)
                        if not _close(gw, exp):
                            if d == eps and _close(gw, pr * vol):
                                return bad('C19:posterior:%s:weight-positive-at-distance-equal-cutoff' % name, sub)
                            return bad('C19:posterior:%s:weight-not-indicator-times-prior-over-region-density' % name, sub)
                    nz += exp > 0
            outs.append(np.round(w, 12))
    r = ok(outcome=digest(outs), positive_weights=nz, zero_weights=n - nz)
    r.update(evals=n, distinct=n)
    return r


@guarded('C19')
def run_post(case):
    what = case['what']
    if what == 'pdf':
        return _check_pdf(case)
    return _check_sample(case, worker=(what == 'worker'))


def _post_cases(q, base):
    seeds = [base + k for k in range(2 if q else 4)]
    n2s = [1, 3]
    E = 1.0
    reg1 = [
        {'rot': [['I']], 'center': [0.5], 'limits': [[-1, 1]]},
        {'rot': [['refl', 0]], 'center': [-1.0], 'limits': [[-0.5, 2]]},
        {'rot': [['I']], 'center': [1.0], 'limits': [[0, 0]]},
    ]
    reg2 = [
        {'rot': [['I']], 'center': [0.0, 0.0], 'limits': [[-1, 1], [-0.5, 0.5]]},
        # asymmetric limits under proper rotations: R and its inverse / transpose describe different sets
        {'rot': [['rot', 0, 1, 2]], 'center': [0.5, -0.5], 'limits': [[-1, 0.5], [-0.25, 1.5]]},
        {'rot': [['rot', 0, 1, 1], ['refl', 0]], 'center': [1.0, 0.0], 'limits': [[0, 0], [-2, 1]]},
        {'rot': [['rot', 0, 1, 5]], 'center': [-0.5, 0.5], 'limits': [[-0.5, 1], [-1, 0.25]]},
    ]

    def pairs1(eps):
        return [(reg1[0], ['maxnorm', [0.5], 1.0]), (reg1[1], ['quad', [-1.0], [0.5]]), (reg1[2], ['l1', [1.0], 2.0]),
                (reg1[0], ['const', eps]), (reg1[1], ['const', eps - 0.5]), (reg1[2], ['const', eps + 0.5])]

    def pairs2(eps):
        return [(reg2[0], ['maxnorm', [0.0, 0.0], 1.0]), (reg2[1], ['l1', [0.5, -0.5], 1.0]),
                (reg2[2], ['quad', [1.0, 0.0], [1.0, 0.25]]), (reg2[1], ['const', eps]), (reg2[3], ['const', eps - 0.5])]
    ax1 = [[-3.0 + 0.25 * i for i in range(25)]]
    ax2 = [[-2.5 + 0.5 * i for i in range(11)], [-2.0 + 0.5 * i for i in range(9)]]
    if not q:
        ax2 = [[-2.5 + 0.25 * i for i in range(21)], [-2.0 + 0.25 * i for i in range(17)]]
    cases = []
    for dim, priors, mk, axes in ((1, ['U1', 'N1'], pairs1, ax1), (2, ['H2', 'UN2'], pairs2, ax2)):
        for eps in (E, 0.5):
            alphabet = mk(eps)
            for prior in priors:
                sels = []
                for r in (1, 2, 3):
                    sels += list(itertools.combinations(range(len(alphabet)), r))
                if q and dim == 2:
                    # quick: the full selection set once (H2, eps=1), selections of size <= 2 for (UN2, eps=1/2)
                    if (prior, eps) == ('UN2', 0.5):
                        sels = [s_ for s_ in sels if len(s_) <= 2]
                    elif (prior, eps) != ('H2', E):
                        continue
                if not q:
                    # order matters for nothing in the statement; thorough also runs every pair in reversed order
                    sels += [(b, a) for a, b in itertools.combinations(range(len(alphabet)), 2)]
                for su in (False, True):
                    for sel in sels:
                        pr = [[alphabet[i][0], alphabet[i][1]] for i in sel]
                        common = {'kind': 'post', 'prior': prior, 'pairs': pr, 'surrogate_used': su, 'eps': eps}
                        cases.append(dict(common, what='pdf', axes=axes))
                        if not su or not q:   # sampling does not consult surrogate_used
                            cases.append(dict(common, what='sample', seeds=seeds, n2s=n2s))
                            cases.append(dict(common, what='worker', seeds=seeds[:1], n2s=n2s))
    return cases


# =====================================================================================================================
# pipeline (P): hand-given optimisation results -> ROMC.estimate_regions -> posterior;  e2e (P): real small ROMC runs
# =====================================================================================================================
def sim_shift(*args, batch_size=1, random_state=None):
    """theta + standard normal noise, one column per parameter (used by the pipeline / e2e toy models)."""
    th = np.column_stack([np.asarray(a, dtype=float).reshape(batch_size) for a in args])
    return th + random_state.normal(0, 1, size=th.shape)


def _romc_model(prior_name, observed):
    import elfi
    m = elfi.ElfiModel(name='c19m_' + prior_name)
    if prior_name == 'U1':
        ps = [elfi.Prior('uniform', -2, 4, model=m, name='t1')]
    elif prior_name == 'N1':
        ps = [elfi.Prior('norm', 0.5, 1.5, model=m, name='t1')]
    elif prior_name == 'UN2':
        ps = [elfi.Prior('uniform', -2, 4, model=m, name='t1'), elfi.Prior('norm', 0, 1, model=m, name='t2')]
    elif prior_name == 'H2':
        t1 = elfi.Prior('norm', 0, 1, model=m, name='t1')
        ps = [t1, elfi.Prior('norm', t1, 1, model=m, name='t2')]
    else:
        raise ValueError(prior_name)
    y = elfi.Simulator(sim_shift, *ps, model=m, name='y', observed=np.array([observed], dtype=float))
    elfi.Distance('euclidean', y, model=m, name='d')
    return m


class _Quadratic:
    """f(theta) = f0 + (theta-c)^T A (theta-c)."""

    def __init__(self, spec):
        self.c = np.array(spec['c'], dtype=float)
        self.f0 = float(spec['f0'])
        self.A = np.array(spec['A'], dtype=float)

    def __call__(self, th):
        v = np.asarray(th, dtype=float) - self.c
        return float(self.f0 + v @ self.A @ v)


def _problem_class():
    from elfi.methods.inference.romc import OptimisationProblem

    class Problem(OptimisationProblem):
        """The documented extension point (custom_optim_class).  Behaviour unchanged; it only records the objective
        evaluations made while the region of this problem is being built."""

        def build_region(self, **kw):
            orig = self.objective
            rec = []

            def recorded(th):
                v = orig(th)
                rec.append((np.array(th, dtype=float), float(v)))
                return v
            self.objective = recorded
            try:
                return super().build_region(**kw)
            finally:
                self.objective = orig
                self.c19_probes = rec
    return Problem


NEAR = 1e-6     # local surrogates are regressions: points whose true distance is this close to the cut-off are free


def _judge_romc(tag, case, romc, values, dim, fit, n2):
    """Oracle shared by pipeline and e2e.  values[i](theta) = the distance of problem i computed by the harness."""
    K, eta = case['K'], float(case['eta'])
    eps_f, eps_r, eps_c = float(case['eps_filter']), float(case['eps_region']), float(case['eps_cutoff'])
    post = romc.posterior
    probs = romc.optim_problems
    acc_ref = []
    for pr in probs:
        solved = bool(pr.state['solved']) and pr.result is not None
        acc_ref.append(bool(solved and pr.result.f_min < eps_f))
    acc_idx = [i for i, a in enumerate(acc_ref) if a]
    if [bool(a) for a in romc.inference_state['accepted']] != acc_ref:
        return bad('C19:%s:accepted-not-solved-and-below-eps-filter' % tag,
                   {'accepted': list(romc.inference_state['accepted']), 'expected': acc_ref})
    if len(post.regions) != len(acc_idx) or len(post.funcs) != len(acc_idx):
        return bad('C19:%s:posterior-regions-not-one-per-accepted-problem' % tag,
                   {'n_regions': len(post.regions), 'accepted': acc_ref})
    if bool(post.surrogate_used) != fit:
        return bad('C19:%s:surrogate-flag' % tag, {'surrogate_used': bool(post.surrogate_used), 'fit_models': fit})
    g = eta / 2 ** (K + 1) / SUB
    frames = []
    # (1) every region against the probes of its own objective
    for k, i in enumerate(acc_idx):
        b = post.regions[k]
        R, c, lim = np.array(b.rotation, dtype=float), np.array(b.center, dtype=float), np.array(b.limits, dtype=float)
        x0 = np.array(probs[i].result.x_min, dtype=float)
        obs = {'n_boxes': 1, 'rotation': R, 'center': c, 'limits': lim,
               'probes': [(tuple(np.round((th - x0) / g, 3).tolist()), 0 if val < eps_r else 1)
                          for th, val in probs[i].c19_probes]}
        v = _build_check(case, obs, g, eta, x0, probs[i].result.hess_appr)
        if v:
            return bad(_sig(tag + ':region', v[0]), dict(v[1], problem=i, **_build_describe(obs, g)))
        eff = [tuple(map(float, r_)) for r_ in lim]
        frames.append((R, c, eff, 1e-9 * ref.box_scale(c, eff)))
        if fit:
            # the local surrogate objective of this region, evaluated directly at the optimum
            ls = probs[i].local_surrogates
            if ls is None or len(ls) != len(probs[i].regions) or post.funcs[k] is not ls[0]:
                return bad('C19:%s:local-surrogate-not-the-posterior-objective-of-its-region' % tag, {'problem': i})
            sv = float(ls[0](x0.copy()))
            if abs(sv - values[i](x0.copy())) > NEAR / 10:
                return ok(outcome='local-surrogate-inaccurate', trivial=True, surrogate_inaccurate=1)
    n = 0
    # (2) unnormalised density on the grid
    pts = _grid(case)
    got = np.asarray(romc.eval_unnorm_posterior(np.array(pts, dtype=float)), dtype=float)
    if got.shape != (len(pts),):
        return bad('C19:%s:pdf:shape' % tag, {'shape': list(got.shape)})
    vals = []
    for kk, th in enumerate(pts):
        n += 1
        pr = ref.prior_ref(case['prior'], th)
        lo = hi = 0
        ds = []
        for k, i in enumerate(acc_idx):
            d = values[i](np.array(th, dtype=float))
            ds.append(d)
            R, c, eff, margin = frames[k]
            if not fit:
                inc = (1, 1) if d <= eps_c else (0, 0)
            else:
                mem = ref.membership(R, c, eff, th, margin)
                if mem < 0 or d > eps_c + NEAR:
                    inc = (0, 0)
                elif mem > 0 and d < eps_c - NEAR:
                    inc = (1, 1)
                else:
                    inc = (0, 1)
            lo += inc[0]
            hi += inc[1]
        gk = float(got[kk])
        vals.append(gk)
        if not any(_close(gk, pr * cnt, 1e-9 if fit else RTOL) for cnt in range(lo, hi + 1)):
            return bad('C19:%s:pdf:not-prior-times-count-of-accepted-problems' % tag,
                       {'theta': th, 'got': gk, 'prior_density': pr, 'admissible_counts': [lo, hi],
                        'distances_of_accepted': ds, 'accepted': acc_ref, 'eps_cutoff': eps_c, 'local_surrogates': fit})
    # (3) samples and weights through ROMC.sample
    nz = 0
    if acc_idx and n2:
        np.random.seed(case['np_seed'] + 1)      # ROMC.sample draws from the global generator
        with _quiet():
            romc.sample(n2, seed=case['np_seed'])
        th_all = np.asarray(romc.samples, dtype=float)
        w_all = np.asarray(romc.weights, dtype=float)
        d_all = np.asarray(romc.distances, dtype=float)
        if th_all.shape != (len(acc_idx), n2, dim) or w_all.shape != (len(acc_idx), n2) or d_all.size != len(acc_idx) * n2:
            return bad('C19:%s:sample:shape' % tag, {'samples': list(th_all.shape), 'weights': list(w_all.shape)})
        d_all = d_all.reshape(len(acc_idx), n2)
        for k, i in enumerate(acc_idx):
            R, c, eff, margin = frames[k]
            vol = ref.box_volume(eff)
            for j in range(n2):
                n += 1
                th = th_all[k, j]
                sub = {'problem': i, 'draw': j, 'theta': th.tolist(), 'eps_cutoff': eps_c, 'local_surrogates': fit}
                if ref.membership(R, c, eff, th, margin) < 0:
                    return bad('C19:%s:sample:not-in-its-region' % tag, sub)
                d = values[i](th.copy())
                pr = ref.prior_ref(case['prior'], th)
                gd, gw = float(d_all[k, j]), float(w_all[k, j])
                sub.update(distance=d, got_distance=gd, got_weight=gw, prior_density=pr, region_volume=vol)
                if abs(gd - d) > (NEAR / 10 if fit else 1e-12 * max(1.0, abs(d))):
                    if fit:
                        return ok(outcome='local-surrogate-inaccurate', trivial=True, surrogate_inaccurate=1)
                    return bad('C19:%s:sample:distance-not-objective-at-sample' % tag, sub)
                if abs(d - eps_c) <= (NEAR if fit else 0.0) and fit:
                    cands = (0.0, pr * vol)
                else:
                    cands = ((pr * vol) if d < eps_c else 0.0,)
                if not any(_close(gw, e, 1e-9 if fit else RTOL) for e in cands):
                    return bad('C19:%s:sample:weight-not-indicator-times-prior-over-region-density' % tag,
                               dict(sub, expected=list(cands)))
                nz += gw > 0
        res = romc.result
        if not np.array_equal(np.asarray(res.weights), w_all.flatten()) or \
                any(not np.array_equal(np.asarray(res.outputs[p_]), th_all[:, :, a].flatten())
                    for a, p_ in enumerate(romc.model_prior.parameter_names)):
            return bad('C19:%s:result-object-weights-not-aligned-with-samples' % tag, {})
    r = ok(outcome=digest((np.round(np.array(vals), 9), [f_[2] for f_ in frames])),
           **{tag + '_accepted': len(acc_idx), tag + '_rejected': len(acc_ref) - len(acc_idx),
              tag + '_positive_weights': nz})
    r.update(evals=n, distinct=n)
    return r


@guarded('C19')
def run_pipe(case):
    import elfi
    from elfi.methods.inference.romc import RomcOptimisationResult
    Problem = _problem_class()
    dim = ref.PRIOR_DIM[case['prior']]
    m = _romc_model(case['prior'], [0.0] * dim)
    romc = elfi.ROMC(m, bounds=[(-3.0, 3.0)] * dim, discrepancy_name='d', custom_optim_class=Problem)
    values, probs = [], []
    nprob = len(case['problems'])
    for ind, spec in enumerate(case['problems']):
        f = _Quadratic(spec)
        values.append(f)
        pr = Problem(ind, ind + 1, list(romc.model_prior.parameter_names), 'd', f, dim, romc.model_prior, nprob,
                     romc.bounds)
        pr.state['attempted'] = True
        if spec.get('solved', True):
            pr.state['solved'] = True
            pr.result = RomcOptimisationResult(f.c.copy(), f(f.c), 2.0 * f.A)
        probs.append(pr)
    # the state solve_problems leaves behind
    romc.optim_problems = probs
    romc.inference_args['N1'] = nprob
    romc.inference_state['_has_solved_problems'] = True
    romc.inference_state['attempted'] = [True] * nprob
    romc.inference_state['solved'] = [bool(s.get('solved', True)) for s in case['problems']]
    fit = bool(case['fit_models'])
    np.random.seed(case['np_seed'])      # fit_local_surrogate draws its training points from the global generator
    with _quiet():
        romc.estimate_regions(eps_filter=float(case['eps_filter']), use_surrogate=False,
                              region_args={'K': case['K'], 'eta': float(case['eta']), 'rep_lim': case['rep_lim']},
                              fit_models=fit, fit_models_args={'nof_samples': case.get('nof_samples', 20)},
                              eps_region=float(case['eps_region']), eps_cutoff=float(case['eps_cutoff']))
    return _judge_romc('pipeline', case, romc, values, dim, fit, case['n2'])


def _pipe_cases(q, base):
    I1 = [[1.0]]
    P1 = [  # 1-D problems: centre, minimum value, curvature
        {'c': [0.5], 'f0': 0.0, 'A': I1}, {'c': [-1.0], 'f0': 0.25, 'A': [[2.0]]}, {'c': [1.0], 'f0': 0.875, 'A': I1},
        {'c': [0.0], 'f0': 0.5, 'A': [[0.25]]}, {'c': [1.5], 'f0': 0.0, 'A': [[4.0]], 'solved': False},
        {'c': [-0.25], 'f0': 2.0, 'A': I1},
    ]
    P2 = [
        {'c': [0.0, 0.0], 'f0': 0.0, 'A': [[1.0, 0.0], [0.0, 0.25]]},
        {'c': [0.5, -0.5], 'f0': 0.25, 'A': [[1.0, 0.5], [0.5, 1.0]]},
        {'c': [-1.0, 1.0], 'f0': 0.875, 'A': [[2.0, 0.0], [0.0, 2.0]]},
        {'c': [1.0, 0.0], 'f0': 0.0, 'A': [[0.5, -0.25], [-0.25, 1.0]], 'solved': False},
    ]
    ax1 = [[-3.0 + 0.25 * i for i in range(25)]]
    ax2 = [[-2.5 + 0.5 * i for i in range(11)], [-2.0 + 0.5 * i for i in range(9)]]
    if q:
        ax2 = [[-2.0 + 0.75 * i for i in range(6)], [-1.5 + 0.75 * i for i in range(5)]]
    cases = []
    for prior, P, axes in (('U1', P1, ax1), ('N1', P1, ax1), ('UN2', P2, ax2), ('H2', P2, ax2)):
        if q and prior in ('N1', 'UN2'):
            continue
        sels = []
        for r in (1, 2, 3):
            sels += list(itertools.combinations(range(len(P)), r))
        if q and len(P) > 4:
            sels = [s_ for s_ in sels if len(s_) != 2]
        for sel in sels:
            for (K, eta, rep_lim) in ((3, 0.5, 5), (1, 1.0, 0)) if q else ((3, 0.5, 5), (1, 1.0, 0), (2, 0.25, 2), (5, 1.0, 3)):
                for (ef, er, ec) in ((0.75, 1.0, 0.75), (1.0, 1.0, 0.5)) if q else \
                        ((0.75, 1.0, 0.75), (1.0, 1.0, 0.5), (3.0, 2.5, 1.0)):
                    for fit in (False, True):
                        cases.append({'kind': 'pipe', 'prior': prior, 'problems': [P[i] for i in sel], 'K': K, 'eta': eta,
                                      'rep_lim': rep_lim, 'eps_filter': ef, 'eps_region': er, 'eps_cutoff': ec,
                                      'fit_models': fit, 'np_seed': base + 11, 'n2': 3, 'axes': axes})
    return cases


@guarded('C19')
def run_e2e(case):
    """A real ROMC run: nuisance seeds, optimiser, filtering, regions, posterior - judged by the definition."""
    import elfi
    Problem = _problem_class()
    dim = ref.PRIOR_DIM[case['prior']]
    names = ['t1', 't2'][:dim]
    m = _romc_model(case['prior'], case['observed'])
    romc = elfi.ROMC(m, bounds=[(-3.0, 3.0)] * dim, discrepancy_name='d', custom_optim_class=Problem)
    fit = bool(case['fit_models'])
    np.random.seed(case['np_seed'])
    with _quiet():
        romc.solve_problems(n1=case['n1'], seed=case['seed'])
        romc.estimate_regions(eps_filter=float(case['eps_filter']), use_surrogate=False,
                              region_args={'K': case['K'], 'eta': float(case['eta']), 'rep_lim': case['rep_lim']},
                              fit_models=fit, fit_models_args={'nof_samples': 20},
                              eps_region=float(case['eps_region']), eps_cutoff=float(case['eps_cutoff']))
    if len(romc.optim_problems) != case['n1']:
        return bad('C19:e2e:number-of-problems', {'n': len(romc.optim_problems)})
    nuis = [int(p_.nuisance) for p_ in romc.optim_problems]
    if len(set(nuis)) != len(nuis):
        return ok(outcome='nuisance-collision', trivial=True)

    def value_fn(seed):
        # the distance of problem `seed` by definition: the model's discrepancy generated with that seed, squared
        def value(th):
            out = m.generate(1, outputs=['d'], with_values={k: np.array([float(th[a])]) for a, k in enumerate(names)},
                             seed=seed)
            return float(np.asarray(out['d']).reshape(-1)[0]) ** 2
        return value
    values = [value_fn(s_) for s_ in nuis]
    return _judge_romc('e2e', case, romc, values, dim, fit, case['n2'])


def _e2e_cases(q, base):
    ax1 = [[-3.0 + 0.5 * i for i in range(13)]]
    ax2 = [[-2.0 + 1.0 * i for i in range(5)], [-2.0 + 1.0 * i for i in range(5)]]
    cases = []
    for prior, axes, obs in (('U1', ax1, [0.5]), ('H2', ax2, [0.0, 0.5])) + (() if q else (('N1', ax1, [-1.0]), ('UN2', ax2, [1.0, 0.0]))):
        for seed in [base + k for k in range(2 if q else 3)]:
            for fit in (False, True):
                for (K, eta, rep_lim, ef, er, ec) in ((3, 0.5, 5, 0.75, 1.0, 0.75), (2, 1.0, 1, 1e-9, 0.5, 2.0)) if q else \
                        ((3, 0.5, 5, 0.75, 1.0, 0.75), (2, 1.0, 1, 1e-9, 0.5, 2.0), (4, 0.25, 8, 1.0, 0.25, 0.25)):
                    if q and fit and ef < 0.1:
                        continue
                    cases.append({'kind': 'e2e', 'prior': prior, 'observed': obs, 'n1': 3 if q else 4, 'seed': seed,
                                  'fit_models': fit, 'K': K, 'eta': eta, 'rep_lim': rep_lim, 'eps_filter': ef,
                                  'eps_region': er, 'eps_cutoff': ec, 'np_seed': base + 5, 'n2': 2, 'axes': axes})
    return cases


RUNNERS = {'bbox': run_bbox, 'ls_tree': run_ls_tree, 'ls_one': run_ls_one, 'build_tree': run_build_tree,
           'build_one': run_build_one, 'post': run_post,
           'pipe': run_pipe, 'e2e': run_e2e}


def replay(case):
    return RUNNERS[case['kind']](case)


def _run_trees(ctx, runner, cases, section):
    from .. import par

    def fn(case):
        return case, runner(case)
    # biggest trees first so that the pool stays busy
    order = sorted(cases, key=lambda c: -(c['K'] * (c['rep_lim'] + 2) * (len(c.get('x_min', [0])) ** 2)))
    for case, res in par.pmap(fn, order, chunksize=1, ordered=True):
        for o in res.pop('outcomes', ()):
            ctx.outcomes.add(o)
        ctx.extra['max_choice_depth'] = max(ctx.extra.get('max_choice_depth', 0), res.pop('max_depth', 0))
        if (res.get('cnt') or {}).get('capped'):
            ctx.exhaustive = False
        rec_case = res.pop('witness', case) if res.get('viol') else case
        ctx.record(rec_case, res, section)
    if cases:
        ctx.add_sample(cases[0], key=(section, 0))
        ctx.add_sample(cases[-1], key=(section, 1))


def run(ctx):
    import time
    q = ctx.quick
    base = ctx.seed * 1000
    only = ctx.only
    walls = {}

    def section(name, fn):
        if only is not None and name not in only:
            return
        t0 = time.time()
        fn()
        walls[name] = round(time.time() - t0, 2)

    def s_bbox():
        cases = _bbox_cases(q, base)
        ctx.run_cases(run_bbox, cases, 'bbox', sample_every=max(1, len(cases) // 3))

    def s_post():
        cases = _post_cases(q, base)
        ctx.run_cases(run_post, cases, 'posterior', sample_every=max(1, len(cases) // 3))

    def s_pipe():
        cases = _pipe_cases(q, base)
        ctx.run_cases(run_pipe, cases, 'pipeline', sample_every=max(1, len(cases) // 2))

    def s_e2e():
        ctx.run_cases(run_e2e, _e2e_cases(q, base), 'e2e', chunksize=1)
    section('e2e', s_e2e)          # few, long cases first
    section('bbox', s_bbox)
    section('linesearch', lambda: _run_trees(ctx, run_ls_tree, _ls_cases(q), 'linesearch'))
    section('build', lambda: _run_trees(ctx, run_build_tree, _build_cases(q), 'build'))
    section('posterior', s_post)
    section('pipeline', s_pipe)
    ctx.extra['section_wall_s'] = walls
    ctx.extra['explanation'] = (
        'linesearch/build: evaluations = executions of the real line_search / RegionConstructor.build, one per distinct '
        'answer function of the objective-as-environment (complete trees, no deviation bound, counters executions / '
        'choice_points); bbox/posterior/pipeline/e2e: evaluations = individual points judged (test points, drawn '
        'samples, grid points)')
    ctx.rule = (
        'bbox: one case per (dim<=3, orthonormal rotation descriptor, centre, limits tuple); 1-D and (thorough) 2-D and '
        '3-D-elementary are full products, the rest a covering design (every rotation x every k-th (centre, limits) pair, '
        'offset by rotation index); inside each case all seeds x n2 sample points and all harness-built test points are '
        'judged; every third specification (all 1-D ones) is also judged after 1-2 further boxes were built from the same '
        'input arrays; distinct = distinct points. linesearch/build: one case per (K, eta, rep_lim, start, direction | x_min, '
        'Hessian), the complete tree of answer functions (below/above/at-threshold per probed offset, memoised) explored '
        'by stateless DFS; distinct = distinct (result, probe log) outcomes. posterior: every selection of 1-3 '
        '(region, objective) pairs x prior x cut-off x surrogate_used x {pdf grid, sample, worker}; pipeline: every '
        'selection of 1-3 hand-solved problems x line-search configuration x (eps_filter, eps_region, eps_cutoff) x '
        'fit_models; e2e: real ROMC runs per (prior, seed, fit_models, configuration). non-trivial = the case ran to a '
        'verdict (local-surrogate regressions further than 1e-7 from the true objective are counted trivial)')
    ctx.assumptions += [
        'rotations are orthonormal (products of permutations, reflections, planar rotations by k*pi/8); |centre| <= 640.25; '
        'widths >= 1e-3 after the documented widening of limits closer than 1e-3 (by 5e-4 on each side); widths within '
        '10% of the 1e-3 widening boundary are not in the alphabet',
        'box test points are placed at a margin of 1e-9*scale (scale = max(1, |centre|, |limits|)) inside / outside every '
        'face; points exactly on a face are not judged (measure-zero boundary); pdf compared with rtol 1e-12, outside '
        'points must give exactly 0',
        'line search: dyadic eta and K <= 10 so that all offsets are exact; the objective answers only through '
        'below / above / exactly-at the threshold; oracle: result > 0; if the start is below the threshold every probe at '
        'an offset in [0, result) was below and the result is a probed below-offset or (nothing beyond the start was '
        'below and result <= eta: the documented resolution fallback); half-open interval on purpose (rep_lim = 0 '
        'returns the offset of the first failed probe)',
        'posterior: prior density reference = textbook uniform / normal formulas (product of conditionals), rtol 1e-12; '
        'objectives max-norm / l1 / quadratic / constant on dyadic grids so that d == cut-off happens exactly: counted in '
        'the density (<=), weight zero (<); grid points within 1e-9*scale of a region face accept either count',
        'pipeline / e2e: ROMC.sample and fit_local_surrogate draw from the global numpy generator, which the harness '
        'seeds; with local surrogates points whose true distance is within 1e-6 of the cut-off accept either indicator '
        'and densities / weights are compared with rtol 1e-9; acceptance = solved and f_min < eps_filter (f_min == '
        'eps_filter not in the alphabet)',
        'parallelize=True (multiprocessing.Pool inside the posterior) is not run; its per-region worker is called directly',
        'the BO / GP surrogate path (solve_bo, use_surrogate=True) is not explored',
    ]
