"""C11 Bayesian optimisation simulates only inside bounds and trains on what it ran.  Modes E + P.

E (schedules): BayesianOptimization driven by set_objective + iterate on the scripted client
   (vmc/sched.py) with a recording stub surrogate and the real Uniform / LCBSC acquisition rules; the
   complete schedule tree of every configuration (batch_size, batches_per_acquisition, initial evidence
   form, update_interval, max_parallel_batches) is executed.  Monitors: acquire() returns exactly n rows
   inside the bounds; the simulator receives exactly the acquired rows; an acquisition (synchronous
   mode) sees a surrogate that contains all earlier batches.  Leaf oracle: surrogate evidence ==
   precomputed rows + consumed batches' (parameters, target) in index order, n_evidence counts them,
   and the table equals the sequential reference for every schedule.
P (real GP): every acquisition class on fitted GPs x noise settings x bounds x priors x seeds:
   acquire(n, t) has shape (n, d) and lies inside the bounds; LCBSC / MaxVar gradients == central
   differences of the acquisition function.
"""
import itertools

import numpy as np

from .. import explore, pin
from ..canon import digest, jsonable
from ..guard import guarded
from ..report import ok, bad
from ..sched import ScheduledClient, sampler_state

PID = 'C11'
LEVEL = 'model_checking'

SEEN = []


def sim(t, batch_size=1, random_state=None):
    SEEN.append(np.array(t, dtype=float, copy=True))
    return np.asarray(t, dtype=float) + 0.1 * random_state.randn(batch_size)


def sim2(a, b, batch_size=1, random_state=None):
    SEEN.append(np.column_stack([np.asarray(a, dtype=float), np.asarray(b, dtype=float)]))
    return np.asarray(a, dtype=float) + np.asarray(b, dtype=float) + 0.1 * random_state.randn(batch_size)


class StubGP:
    """Recording surrogate with the GPyRegression interface; predictions depend on the evidence so that an
    acquisition made with missing evidence is visible in the acquired point."""

    def __init__(self, names, bounds):
        self.parameter_names = names
        self.bounds = [bounds[n] for n in names]
        self.input_dim = len(names)
        self._X = np.zeros((0, self.input_dim))
        self._Y = np.zeros((0, 1))
        self.log = []

    def update(self, x, y, optimize=False):
        x = np.asarray(x, dtype=float).reshape(-1, self.input_dim)
        y = np.asarray(y, dtype=float).reshape(-1, 1)
        self._X = np.r_[self._X, x]
        self._Y = np.r_[self._Y, y]
        self.log.append((len(x), bool(optimize)))

    def _centre(self):
        if len(self._X) == 0:
            return np.ones(self.input_dim)
        w = 1.0 / (1.0 + np.arange(len(self._X))[::-1])
        return (self._X * w[:, None]).sum(0) / w.sum() * 0.5 + 0.75

    def predict(self, x, noiseless=False):
        x = np.asarray(x, dtype=float).reshape(-1, self.input_dim)
        return ((x - self._centre()) ** 2).sum(1)[:, None], np.ones((len(x), 1)) * (1.0 + 0.1 * len(self._X))

    def predict_mean(self, x):
        return self.predict(x)[0]

    def predictive_gradients(self, x):
        x = np.asarray(x, dtype=float).reshape(-1, self.input_dim)
        return 2 * (x - self._centre()), np.zeros_like(x)

    def predictive_gradient_mean(self, x):
        return self.predictive_gradients(x)[0]

    @property
    def n_evidence(self):
        return len(self._X)

    @property
    def X(self):
        return self._X

    @property
    def Y(self):
        return self._Y

    @property
    def noise(self):
        return 0.1


def build_model():
    import elfi
    m = elfi.ElfiModel(name='bo_m')
    t = elfi.Prior('uniform', 0, 4, model=m, name='t')
    Y = elfi.Simulator(sim, t, model=m, name='Y', observed=np.array([2.0]))
    elfi.Distance('euclidean', Y, model=m, name='d')
    return m


BOUNDS = {'t': (1.0, 3.0)}


def make_body(case):
    import elfi
    from elfi.methods.bo.acquisition import UniformAcquisition, LCBSC
    bs, bpa, init, ui, mpb = case['bs'], case['bpa'], case['init'], case['update_interval'], case['mpb']
    n_acq_batches = case['n_acq_batches']

    def body(ch):
        pin.reset()
        del SEEN[:]
        m = build_model()
        cl = ScheduledClient(ch, cores=case.get('cores', 2), isolation='shared', default=case.get('default', 'lazy'))
        elfi.client.set_client(cl)
        if case.get('gp') == 'real':
            # the real GPy surrogate (thorough tier, deviation-bounded schedules): updates are logged by a wrapper
            from elfi.methods.bo.gpy_regression import GPyRegression
            gp = GPyRegression(['t'], bounds=BOUNDS, max_opt_iters=10)
            gp.log = []
            _orig_gp_update = gp.update

            def _logged_update(x, y, optimize=False):
                gp.log.append((len(np.asarray(x).reshape(-1, 1)), bool(optimize)))
                return _orig_gp_update(x, y, optimize)
            gp.update = _logged_update
        else:
            gp = StubGP(['t'], BOUNDS)
        if case['acq'] == 'uniform':
            acq = UniformAcquisition(gp, seed=3)
        else:
            acq = LCBSC(gp, noise_var=case.get('noise', 0.2), seed=3, n_inits=2, max_opt_iters=10)
        mon = []
        acq_log = []
        orig_acquire = acq.acquire
        pre = None
        n_pre = 0
        if init == 'dict':
            pre = {'t': np.array([1.5, 2.5, 2.0]), 'd': np.array([0.5, 0.4, 0.1])}
            n_pre = 3
            init_arg = pre
        else:
            init_arg = int(init)
        holder = {}

        def acquire(n, t=None):
            bo = holder['bo']
            x = orig_acquire(n, t=t)
            x = np.asarray(x)
            if x.shape != (n, 1):
                mon.append('acquire returned shape %r for n=%d' % (x.shape, n))
            if np.any(x < BOUNDS['t'][0]) or np.any(x > BOUNDS['t'][1]):
                mon.append('acquired point outside bounds: %r' % (x.ravel().tolist(),))
            submitted = bo.batches.total * bs + n_pre
            if not case.get('async') and gp.n_evidence != submitted:
                mon.append('acquisition with incomplete evidence: surrogate has %d of %d submitted' % (gp.n_evidence, submitted))
            acq_log.append((t, x.copy()))
            return x
        acq.acquire = acquire
        bo = elfi.BayesianOptimization(m, 'd', target_model=gp, acquisition_method=acq, initial_evidence=init_arg,
                                       update_interval=ui, batch_size=bs, batches_per_acquisition=bpa,
                                       max_parallel_batches=mpb, seed=1, async_acq=bool(case.get('async')))
        holder['bo'] = bo
        cl.state_fn = (lambda c, where: None) if case.get('gp') == 'real' else \
            (lambda c, where: sampler_state(bo, c, where, immutable_types=('ElfiModel', 'ModelPrior')))
        consumed = []
        orig_update = bo.update

        def update(batch, batch_index):
            consumed.append((batch_index, np.array(batch['t'], dtype=float, copy=True),
                             np.array(batch['d'], dtype=float, copy=True)))
            return orig_update(batch, batch_index)
        bo.update = update
        n_initial = bo.n_initial_evidence
        total = n_initial + n_acq_batches * bs if init != 'dict' else n_pre + n_acq_batches * bs
        bo.set_objective(total)
        steps = 0
        while not bo.finished:
            bo.iterate()
            steps += 1
            if steps > 200:
                mon.append('horizon: inference did not finish within 200 iterations')
                break
        bo.batches.cancel_pending()
        # evidence == precomputed + consumed batches in index order
        expX = np.zeros((0, 1))
        expY = np.zeros((0, 1))
        if pre is not None:
            expX = np.r_[expX, pre['t'].reshape(-1, 1)]
            expY = np.r_[expY, pre['d'].reshape(-1, 1)]
        for bi, tt, dd in consumed:
            expX = np.r_[expX, tt.reshape(-1, 1)]
            expY = np.r_[expY, dd.reshape(-1, 1)]
        if [c[0] for c in consumed] != list(range(len(consumed))):
            mon.append('batches not consumed in index order: %r' % ([c[0] for c in consumed],))
        if not (np.array_equal(np.asarray(gp.X), expX) and np.array_equal(np.asarray(gp.Y), expY)):
            mon.append('surrogate evidence is not precomputed + consumed batches in order')
        if bo.n_evidence != len(expX) or gp.n_evidence != len(expX):
            mon.append('n_evidence %r / surrogate %r differs from the %d evidence rows' % (bo.n_evidence, gp.n_evidence, len(expX)))
        # the simulator received exactly the acquired rows for acquired batches
        acquired_rows = np.concatenate([x.ravel() for _, x in acq_log]) if acq_log else np.zeros(0)
        n_init_batches = (n_initial - n_pre) // bs if init != 'dict' else 0
        sim_rows = np.concatenate([c[1].ravel() for c in consumed[n_init_batches:]]) if len(consumed) > n_init_batches else np.zeros(0)
        if not np.array_equal(sim_rows, acquired_rows[:len(sim_rows)]):
            mon.append('simulated parameters differ from the acquired points')
        if np.any(sim_rows < BOUNDS['t'][0]) or np.any(sim_rows > BOUNDS['t'][1]):
            mon.append('simulated acquired parameter outside bounds')
        if cl.max_outstanding > mpb:
            mon.append('outstanding tasks %d > max_parallel_batches %d' % (cl.max_outstanding, mpb))
        if cl.tasks or cl.done:
            mon.append('tasks left in the client')
        mon += cl.monitor
        return {'result': digest((np.asarray(gp.X), np.asarray(gp.Y), gp.log)), 'monitor': mon, 'log': digest(cl.log),
                'max_outstanding': cl.max_outstanding, 'n_acq': len(acq_log),
                'brief': jsonable({'X': np.asarray(gp.X).ravel(), 'updates': gp.log})}
    return body


_REF = {}


def reference(case):
    key = digest({k: v for k, v in case.items() if k not in ('mpb', 'prune', 'bound', 'default', 'kind', 'cores')})
    if key not in _REF:
        run = explore.run_once(make_body(dict(case, mpb=1, default='lazy')), [])
        _REF[key] = run.obs
    return _REF[key]


def _sig(msg):
    import re
    return 'C11:monitor:' + re.sub(r'[^A-Za-z]+', '-', msg.split(':')[0])[:60].strip('-')


@guarded('C11')
def run_tree(case):
    with pin.pinned(0):
        ref = None if case.get('async') else reference(case)
        if ref is not None and ref['monitor']:
            return bad(_sig(ref['monitor'][0]) + ':sequential', {'monitor': ref['monitor'], 'case': case, 'schedule': []})
        body = make_body(case)
        logs = set()
        outcomes = set()
        maxout = [0]

        def check(obs, run):
            logs.add(obs['log'])
            outcomes.add(obs['result'])
            maxout[0] = max(maxout[0], obs['max_outstanding'])
            if obs['monitor']:
                return ('monitor', obs['monitor'][0], obs['brief'])
            if ref is not None and obs['result'] != ref['result']:
                return ('result', 'evidence differs from the sequential run', {'got': obs['brief'], 'ref': ref['brief']})
            return None
        st = explore.explore(body, check, bound=case.get('bound'), prune=case.get('prune', True),
                             max_executions=case.get('max_executions'))
    res = {'viol': None, 'outcome': None, 'trivial': st['executions'] <= 1,
           'cnt': {'executions': st['executions'], 'complete': st.get('complete', 0), 'pruned': st.get('pruned', 0),
                   'choice_points': st['choice_points'], 'capped': int(st['capped']), 'distinct_event_logs': len(logs)},
           'evals': st['executions'], 'distinct': len(logs), 'transitions': st.get('transitions', 0) + st['executions'],
           'validated': st.get('complete', 0), 'n_states': st.get('states', 0), 'max_outstanding': maxout[0],
           'outcomes': sorted(outcomes)}
    if st['violations']:
        v, choices = min(st['violations'], key=lambda vc: (sum(1 for c in vc[1] if c), len(vc[1]), vc[1]))
        kind, what_, detail = v
        sig = _sig(what_) if kind == 'monitor' else 'C11:evidence-depends-on-schedule'
        res['viol'] = {'sig': sig, 'detail': jsonable({'what': what_, 'detail': detail, 'schedule': choices, 'case': case})}
        res['witness_schedule'] = choices
    return res


@guarded('C11')
def run_schedule(case):
    with pin.pinned(0):
        ref = None if case.get('async') else reference(case)
        run = explore.run_once(make_body(case), case['schedule'])
    obs = run.obs
    if obs['monitor']:
        return bad(_sig(obs['monitor'][0]), {'monitor': obs['monitor'], 'brief': obs['brief']})
    if ref is not None and obs['result'] != ref['result']:
        return bad('C11:evidence-depends-on-schedule', {'got': obs['brief'], 'ref': ref['brief']})
    return ok(outcome=obs['result'])


# ---------------------------------------------------------------- P: real GP
GP_BOUNDS = {'unit': [(0.0, 1.0), (0.0, 1.0)], 'shifted': [(-2.0, 1.0), (3.0, 7.0)], 'narrow': [(0.0, 1e-3), (5.0, 5.5)]}


def fit_gp(dim, bname, n=6, bdict='sorted'):
    from elfi.methods.bo.gpy_regression import GPyRegression
    names = ['a', 'b'][:dim]
    bnds = GP_BOUNDS[bname][:dim]
    items = list(enumerate(names))
    if bdict == 'reversed':      # the user wrote the bounds dict in another order than the parameter names
        items = items[::-1]
    gp = GPyRegression(names, bounds={k: bnds[i] for i, k in items}, max_opt_iters=20)
    lo = np.array([b[0] for b in bnds])
    hi = np.array([b[1] for b in bnds])
    k = np.arange(n)
    u = np.column_stack([((k * 0.6180339887 + 0.21 * (j + 1)) % 1.0) for j in range(dim)])
    X = lo + u * (hi - lo)
    y = 1.0 + (((X - lo) / (hi - lo) - 0.4) ** 2).sum(1) + 0.05 * np.cos(5.0 * k)
    gp.update(X, y, optimize=True)
    return gp, names, bnds


def make_prior(dim, pname, names, bnds):
    import elfi
    from elfi.model.extensions import ModelPrior
    m = elfi.ElfiModel(name='prior_m')
    for i, nm in enumerate(names):
        lo, hi = bnds[i]
        if pname == 'uniform':
            elfi.Prior('uniform', lo, hi - lo, model=m, name=nm)
        else:   # normal wider than the bounds
            elfi.Prior('norm', (lo + hi) / 2, (hi - lo), model=m, name=nm)
    return ModelPrior(m)


@guarded('C11')
def run_acq(case):
    from elfi.methods.bo import acquisition as A
    from elfi.clients import native
    import elfi.client
    elfi.client.set_client(native.Client())
    dim = case['dim']
    with pin.pinned(0):
        gp, names, bnds = fit_gp(dim, case['bounds'], bdict=case.get('bdict', 'sorted'))
        prior = make_prior(dim, case['prior'], names, bnds)
    nv = case['noise']
    if nv == 'dict':
        nv = {nm: 0.1 * (i + 1) * (bnds[i][1] - bnds[i][0]) ** 2 for i, nm in enumerate(names)}
    elif nv == 'dict0first':      # no noise on the first parameter, noise on the later ones
        nv = {nm: (0 if i == 0 else 0.1 * (bnds[i][1] - bnds[i][0]) ** 2) for i, nm in enumerate(names)}
    elif nv == 'dict0last':       # noise on the first parameter only
        nv = {nm: (0.1 * (bnds[i][1] - bnds[i][0]) ** 2 if i == 0 else 0) for i, nm in enumerate(names)}
    elif isinstance(nv, (int, float)) and nv not in (0,):
        nv = nv * (bnds[0][1] - bnds[0][0]) ** 2
    cls = case['acq']
    kw = dict(seed=case['seed'], n_inits=3, max_opt_iters=30)
    if cls == 'LCBSC':
        acq = A.LCBSC(gp, prior=prior, noise_var=nv, **kw)
    elif cls == 'MaxVar':
        acq = A.MaxVar(gp, prior, noise_var=nv, quantile_eps=0.2, **kw)
    elif cls == 'RandMaxVar':
        acq = A.RandMaxVar(gp, prior, noise_var=nv, quantile_eps=0.2, sampler=case.get('sampler', 'metropolis'),
                           n_samples=20, **kw)
    elif cls == 'ExpIntVar':
        acq = A.ExpIntVar(gp, prior, noise_var=nv, quantile_eps=0.2, d_grid=0.34 * max(b[1] - b[0] for b in bnds), **kw)
    else:
        acq = A.UniformAcquisition(gp, prior=prior, noise_var=nv, **kw)
    lo = np.array([b[0] for b in bnds])
    hi = np.array([b[1] for b in bnds])
    nev = 0
    refused = 0
    ns = list(case['ns'])
    if cls == 'RandMaxVar':
        ns += [12, 20]       # more points than the chain keeps after its warm-up (20 samples, 10 of them warm-up)
    for n in ns:
        for t in (0, 3):
            try:
                x = np.asarray(acq.acquire(n, t))
            except ValueError:
                if cls == 'RandMaxVar' and n > 10:
                    refused += 1        # a request that cannot be served may be refused; it may not be answered short
                    continue
                raise
            nev += 1
            what = {'case': case, 'n': n, 't': t}
            if x.shape != (n, dim):
                return bad('C11:acquire:wrong-number-or-shape-of-points:%s' % cls, dict(what, shape=list(x.shape)))
            if np.any(x < lo) or np.any(x > hi) or not np.all(np.isfinite(x)):
                return bad('C11:acquire:point-outside-bounds:%s' % cls, dict(what, x=x.tolist(), bounds=[list(b) for b in bnds]))
    # gradients
    if cls in ('LCBSC', 'MaxVar') and case.get('grad', True) and case['bounds'] != 'narrow':
        if cls == 'MaxVar':
            acq.eps = float(np.percentile(gp.Y, 20))
        for u in itertools.product((0.15, 0.5, 0.8), repeat=dim):
            x = lo + np.array(u) * (hi - lo)
            g = np.asarray(acq.evaluate_gradient(x[None, :], 2), dtype=float).reshape(-1)
            h = 1e-5 * (hi - lo)
            num = np.zeros(dim)
            for j in range(dim):
                e = np.zeros(dim)
                e[j] = h[j]
                num[j] = (float(np.ravel(acq.evaluate((x + e)[None, :], 2))[0])
                          - float(np.ravel(acq.evaluate((x - e)[None, :], 2))[0])) / (2 * h[j])
            nev += 1
            if not np.allclose(g, num, rtol=1e-4, atol=1e-7 * (1 + np.abs(num).max())):
                return bad('C11:acquisition-gradient-differs-from-derivative:%s' % cls,
                           {'case': case, 'x': x.tolist(), 'got': g.tolist(), 'numeric': num.tolist()})
    r = ok(outcome=digest((cls, case['bounds'], case['prior'])), acquire_requests_refused=refused)
    r.update(evals=nev, distinct=nev)
    return r


@guarded('C11')
def run_order(case):
    """Two parameters with disjoint ranges and a surrogate whose parameter order is given by the user: the surrogate's
    evidence rows are the simulated parameter pairs in the SURROGATE's column order, in consumption order, and every
    acquired pair lies inside the bounds of its own parameter."""
    import elfi
    from elfi.methods.bo.acquisition import UniformAcquisition
    from elfi.methods.bo.gpy_regression import GPyRegression
    from .. import models
    models.native_client()
    with pin.pinned(0):
        del SEEN[:]
        m = elfi.ElfiModel(name='bo_m2')
        a = elfi.Prior('uniform', 0, 2, model=m, name='a')
        b = elfi.Prior('uniform', 10, 2, model=m, name='b')
        Y = elfi.Simulator(sim2, a, b, model=m, name='Y', observed=np.array([12.0]))
        elfi.Distance('euclidean', Y, model=m, name='d')
        names = list(case['order'])
        bounds = {'a': (0.0, 2.0), 'b': (10.0, 12.0)}
        if case['gp'] == 'real':
            tm = GPyRegression(names, bounds=bounds, max_opt_iters=5)
            kw = {}
        else:
            tm = StubGP(names, bounds)
            kw = {'acquisition_method': UniformAcquisition(tm, seed=3)}
        bo = elfi.BayesianOptimization(m, 'd', target_model=tm, initial_evidence=case['init'], update_interval=100,
                                       batch_size=case['bs'], bounds=bounds, seed=case['seed'], max_parallel_batches=1,
                                       **kw)
        bo.infer(n_evidence=case['n'], bar=False)
        sims = np.vstack(SEEN) if SEEN else np.zeros((0, 2))        # columns (a, b), simulation order
        del SEEN[:]
    X = np.asarray(tm.X, dtype=float)
    what = {'case': case}
    col = {'a': 0, 'b': 1}
    expected = sims[:, [col[n] for n in names]]
    if bo.n_evidence != len(sims) or len(X) != len(sims):
        return bad('C11:order:n-evidence-differs-from-simulated-rows', dict(what, n_evidence=int(bo.n_evidence), rows=len(X),
                                                                           simulated=len(sims)))
    if not np.array_equal(X, expected):
        swapped = np.array_equal(X, expected[:, ::-1])
        return bad('C11:order:evidence-is-not-the-simulated-parameters' + (':columns-permuted' if swapped else ''),
                   dict(what, surrogate_order=names, X=X[:4].tolist(), simulated_in_surrogate_order=expected[:4].tolist()))
    acq = sims[case['init']:]
    if len(acq) and (np.any(acq[:, 0] < 0) or np.any(acq[:, 0] > 2) or np.any(acq[:, 1] < 10) or np.any(acq[:, 1] > 12)):
        return bad('C11:order:acquired-point-outside-the-bounds-of-its-parameter', dict(what, acquired=acq[:4].tolist()))
    return ok(outcome=digest((names, case['gp'], X)), order_runs=1)


RUNNERS = {'tree': run_tree, 'schedule': run_schedule, 'acq': run_acq, 'order': run_order}


def replay(case):
    return RUNNERS[case['kind']](case)


def run(ctx):
    from .. import par
    q = ctx.quick
    cases = []
    for acq in ('uniform', 'lcbsc'):
        for bs in (1, 2):
            for bpa in (1, 2):
                for init in (0, 2, 'dict'):
                    for ui in (1, 2):
                        for mpb in (1, 2, 3):
                            if q and acq == 'lcbsc' and (ui == 2 or bs == 2) and mpb == 3:
                                continue
                            cases.append({'kind': 'tree', 'acq': acq, 'bs': bs, 'bpa': bpa, 'init': init,
                                          'update_interval': ui, 'mpb': mpb, 'n_acq_batches': 3 if q else 4, 'prune': True})
    # unpruned full trees for mpb <= 2 (independent confirmation that pruning hides nothing)
    for acq in ('uniform',):
        for init in (0, 2, 'dict'):
            cases.append({'kind': 'tree', 'acq': acq, 'bs': 1, 'bpa': 2, 'init': init, 'update_interval': 1, 'mpb': 2,
                          'n_acq_batches': 3, 'prune': False, 'bound': None if init != 2 else 4})
    # thorough: the real GPy surrogate with the real LCBSC rule under every schedule with at most two deviations from the
    # lazy and from the eager default (each execution fits and optimises real GPs)
    if not q:
        for init in (2, 'dict'):
            for default in ('lazy', 'eager'):
                cases.append({'kind': 'tree', 'acq': 'lcbsc', 'gp': 'real', 'bs': 1, 'bpa': 1, 'init': init,
                              'update_interval': 2, 'mpb': 2, 'n_acq_batches': 4, 'prune': False, 'bound': 2,
                              'default': default, 'noise': 0.05})
    # asynchronous acquisition: monitors only (the statement promises schedule independence for synchronous mode)
    for init in (0, 2):
        cases.append({'kind': 'tree', 'acq': 'uniform', 'bs': 1, 'bpa': 1, 'init': init, 'update_interval': 1, 'mpb': 2,
                      'n_acq_batches': 3, 'prune': True, 'async': True})

    def fn(case):
        return case, run_tree(case)
    for case, res in par.pmap(fn, cases, chunksize=1, ordered=True):
        if 'executions' in (res.get('cnt') or {}):
            ctx.n_states += res.pop('n_states', 0)
            ctx.extra['max_simultaneously_outstanding'] = max(ctx.extra.get('max_simultaneously_outstanding', 0),
                                                              res.get('max_outstanding', 0))
            if res['cnt']['capped']:
                ctx.exhaustive = False
            for o in res.get('outcomes', ()):
                ctx.outcomes.add(o)
        c2 = case
        if res.get('viol') and 'witness_schedule' in res:
            c2 = {k: v for k, v in case.items() if k not in ('prune', 'bound', 'max_executions')}
            c2.update(kind='schedule', schedule=res['witness_schedule'])
        ctx.record(c2, res, 'schedule-trees')
        ctx.add_sample({'case': case, 'executions': (res.get('cnt') or {}).get('executions')},
                       key=(case['acq'], case['init'], case['mpb']), limit=8)
    # real GP
    acases = []
    classes = ['LCBSC', 'MaxVar', 'Uniform', 'RandMaxVar', 'ExpIntVar']
    for cls in classes:
        heavy = cls in ('RandMaxVar', 'ExpIntVar')
        for dim in (1, 2):
            for bname in ('unit', 'shifted', 'narrow'):
                for pname in ('uniform', 'normal'):
                    for noise in (0, 0.1, 'dict', 100.0, 'dict0first', 'dict0last'):
                        if noise in ('dict0first', 'dict0last') and (dim == 1 or heavy):
                            continue
                        for seed in ((0,) if (q or heavy) else (0, 1, 2, 3)):
                            if heavy and q and (dim == 2 or noise in (0.1, 100.0) or bname == 'narrow'):
                                continue
                            if heavy and not q and (noise == 100.0 and dim == 2):
                                continue
                            acases.append({'kind': 'acq', 'acq': cls, 'dim': dim, 'bounds': bname, 'prior': pname,
                                           'noise': noise, 'seed': seed, 'ns': [1, 2, 4] if not heavy else [1, 3]})
                            if cls == 'RandMaxVar' and noise == 0:
                                acases.append(dict(acases[-1], sampler='nuts'))
                            if dim == 2 and bname == 'shifted' and noise in (0, 'dict') and seed == 0:
                                acases.append(dict({k_: v_ for k_, v_ in acases[-1].items() if k_ != 'sampler'},
                                                   bdict='reversed'))
    ctx.run_cases(run_acq, acases, 'real-gp', chunksize=1, sample_every=max(1, len(acases) // 4))
    # a surrogate handed in by the user with its own parameter order (two parameters with disjoint ranges)
    ocases = [{'kind': 'order', 'order': order, 'gp': gp, 'bs': bs, 'init': init, 'n': n, 'seed': seed}
              for order in (['a', 'b'], ['b', 'a']) for gp in ('stub', 'real') for bs in (1, 2) for init in (0, 2, 4)
              for n in (6,) for seed in ((1,) if q else (1, 2, 3))
              if not (gp == 'real' and (init == 0 or (q and bs == 2)))]
    ctx.run_cases(run_order, ocases, 'parameter-order', chunksize=1)
    ctx.rule = ('schedule-trees: one case = the complete (pruned) schedule tree of a configuration (acquisition rule x '
                'batch_size x batches_per_acquisition x initial-evidence form {0, count, precomputed dict} x update_interval x '
                'max_parallel_batches); evaluations = executions; distinct_nontrivial = distinct client event logs; real-gp: '
                'full product acquisition class x dimension x bounds x prior x noise setting x seed (2-D shifted bounds also with the bounds dict written in reversed order), acquire(n,t) for several '
                'n and t, gradient grids; parameter-order: surrogate column order (a,b | b,a) x stub / real GP x batch_size x initial evidence on a two-parameter model with disjoint ranges')
    ctx.assumptions += [
        'schedule exploration uses a recording stub surrogate with the GPyRegression interface (real acquisition rules, '
        'real BayesianOptimization.iterate/update/prepare_new_batch); extract_result is not part of the loop',
        'initial-evidence points are prior draws, not acquisitions: only acquired points must lie inside the bounds',
        'environment model of the client as in C04',
        'real-GP part is configuration-exhaustive but schedule-free; gradients compared with central differences '
        '(h = 1e-5 * width, rtol 1e-4) on the unit and shifted bounds only: with the degenerate-narrow bounds the numerical '
        'derivative of a GP prediction is dominated by rounding noise',
        'asynchronous acquisition: only the monitors that do not assume complete evidence are checked',
    ]
