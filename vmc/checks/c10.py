"""C10 BOLFI posterior matches its definition; the fast GP path equals the GP.  Modes P + H.

P: a fixed finite family of fitted surrogates (dimension x evidence size x target function x
   hyper-parameter state {initial, optimised by scg / lbfgsb}); for each: a full grid of query points
   (inside, exactly on the bounds, just outside, far outside) in every accepted input shape.
   (i) posterior log density == log Phi((h-mu)/sd) + log prior inside, -inf outside (mu, sd^2 from GPy);
   (ii) its gradient == central differences; (iii) accelerated single-point predict /
   predictive_gradients == GPy's.
H: all update sequences (depth <= 3) with batch shapes {(1,d),(2,d),(d,)}: earlier evidence is an
   unchanged ordered prefix; interleaved with toggling the sampling mode and predictions, the
   accelerated path must never serve values of an outdated evidence set.
"""
import itertools

import numpy as np
import scipy.stats as ss

from ..canon import digest
from ..guard import guarded
from ..report import ok, bad

PID = 'C10'
LEVEL = 'exploration'


# ---------------------------------------------------------------- fixed evidence sets
BOUNDS_A = {1: [(-1.0, 3.0)], 2: [(-1.0, 3.0), (0.0, 2.0)], 3: [(-1.0, 3.0), (0.0, 2.0), (-2.0, 0.5)]}
# bounds that are not binary fractions: a bounds test written as |x - centre| <= half-width rounds differently there
BOUNDS_B = {1: [(0.2, 0.9)], 2: [(0.1, 0.7), (-0.3, 1.1)], 3: [(0.1, 0.7), (-0.3, 1.1), (0.6, 2.3)]}
BOUNDS = dict(BOUNDS_A)


def use_bounds(case):
    BOUNDS.clear()
    BOUNDS.update(BOUNDS_B if case.get('bfam') == 'b' else BOUNDS_A)


def evidence(dim, n, fn):
    lo = np.array([b[0] for b in BOUNDS[dim]])
    hi = np.array([b[1] for b in BOUNDS[dim]])
    # deterministic low-discrepancy points; first and last on the bounds exactly
    k = np.arange(n)
    u = np.column_stack([((k * 0.6180339887498949 + 0.13 * (j + 1)) % 1.0) for j in range(dim)])
    u[0, :] = 0.0
    u[-1, :] = 1.0
    X = lo + u * (hi - lo)
    if fn == 'quad':
        y = ((X - 1.0) ** 2).sum(axis=1) + 0.5
    elif fn == 'sin':
        y = 2.0 + np.sin(2.0 * X).sum(axis=1)
    else:
        y = np.abs(X - 0.5).sum(axis=1) + 1.0
    y = y + 0.05 * np.cos(7.0 * k + 1.0)      # fixed deterministic perturbation (keeps K + s^2 I well conditioned)
    return X, y


def fit(dim, n, fn, hyper):
    from elfi.methods.bo.gpy_regression import GPyRegression
    names = ['a', 'b', 'c'][:dim]
    gp = GPyRegression(names, bounds={k: BOUNDS[dim][i] for i, k in enumerate(names)},
                       optimizer=('scg' if hyper != 'lbfgsb' else 'lbfgsb'), max_opt_iters=30)
    X, y = evidence(dim, n, fn)
    gp.update(X, y, optimize=(hyper != 'initial'))
    return gp


def cond_number(gp):
    g = gp._gp
    K = g.kern.K(g.X) + float(np.asarray(g.likelihood.variance).ravel()[0]) * np.eye(len(g.X))
    return float(np.linalg.cond(K))


class IndepNormalPrior:
    """Analytic prior used as the posterior's prior: independent N(m_j, s_j)."""

    def __init__(self, dim):
        self.m = np.array([1.0, 0.5, -0.25][:dim])
        self.s = np.array([2.0, 1.5, 1.25][:dim])
        self.dim = dim

    def logpdf(self, x):
        x = np.asanyarray(x, dtype=float)
        nd = x.ndim
        x = x.reshape((-1, self.dim))
        v = ss.norm.logpdf(x, self.m, self.s).sum(axis=1)
        return v[0] if (nd == 0 or (nd == 1 and self.dim > 1)) else v

    def gradient_logpdf(self, x):
        x = np.asanyarray(x, dtype=float)
        nd = x.ndim
        x = x.reshape((-1, self.dim))
        g = -(x - self.m) / self.s ** 2
        return g[0] if (nd == 0 or (nd == 1 and self.dim > 1)) else g

    def rvs(self, size=None, random_state=None):
        rs = random_state or np.random
        n = 1 if size is None else int(np.prod(size))
        x = self.m + self.s * rs.standard_normal((n, self.dim))
        x = x.reshape(n) if self.dim == 1 else x
        return x[0] if size is None else x


def grid(dim, dense):
    pts = []
    per = []
    for lo, hi in BOUNDS[dim]:
        eps = 1e-9 * (hi - lo)
        inside = list(np.linspace(lo, hi, (7 if dense else 5) if dim < 3 else 3))
        inside[0], inside[-1] = lo, hi          # the bounds themselves, exactly
        per.append({'in': inside, 'out': [lo - eps, hi + eps, lo - 1.0, hi + 5.0,
                                          float(np.nextafter(lo, -np.inf)), float(np.nextafter(hi, np.inf))]})
    for combo in itertools.product(*[p['in'] for p in per]):
        pts.append((np.array(combo, dtype=float), True))
    for j in range(dim):
        for o in per[j]['out']:
            base = [p['in'][len(p['in']) // 2] for p in per]
            base[j] = o
            pts.append((np.array(base, dtype=float), False))
    return pts


def ref_logpost(gp, prior, thr, x):
    mu, var = gp._gp.predict(np.atleast_2d(x))
    return float(ss.norm.logcdf((thr - mu[0, 0]) / np.sqrt(var[0, 0]))) + float(prior.logpdf(np.atleast_2d(x))[0])


@guarded('C10')
def run_gp(case):
    from elfi.methods.posteriors import BolfiPosterior
    dim, n, fn, hyper = case['dim'], case['n'], case['fn'], case['hyper']
    use_bounds(case)
    gp = fit(dim, n, fn, hyper)
    cond = cond_number(gp)
    if cond > 1e8:
        return ok(outcome='ill-conditioned', trivial=True, skipped_ill_conditioned=1)
    X, y = evidence(dim, n, fn)
    prior = IndepNormalPrior(dim)
    what = {'case': case}
    nev = 0
    scale = float(gp._gp.kern.rbf.variance[0] + gp._gp.kern.bias.variance[0]) if hasattr(gp._gp.kern, 'rbf') else 1.0
    pts = grid(dim, case.get('dense', False))
    for thr_name in case['thresholds']:
        thr = {'min': float(np.min(y)), 'median': float(np.median(y)), 'explicit': 1.234, 'zero': 0.0, 'int-zero': 0,
               'negative': -0.4}[thr_name]
        post = BolfiPosterior(gp, threshold=thr, prior=prior)
        # (i) value, inside/outside, all shapes
        for x, inside in pts:
            nev += 1
            shapes = [x, x[None, :]]
            if dim == 1:
                shapes.append(np.float64(x[0]))
                shapes.append(float(x[0]))
            vals = []
            for xs in shapes:
                v = post.logpdf(xs)
                vals.append(float(np.asarray(v).ravel()[0]))
                if np.asarray(v).size != 1:
                    return bad('C10:posterior:shape', dict(what, x=x.tolist(), shape=list(np.shape(xs))))
            if inside:
                exp = ref_logpost(gp, prior, thr, x)
                if not all(np.isclose(v, exp, rtol=1e-9, atol=1e-10) for v in vals):
                    return bad('C10:posterior:logpdf-differs-from-definition', dict(what, x=x.tolist(), got=vals,
                                                                                   expected=exp, threshold=thr))
            else:
                if not all(v == -np.inf for v in vals):
                    return bad('C10:posterior:not-minus-inf-outside-bounds', dict(what, x=x.tolist(), got=vals))
            p = float(np.asarray(post.pdf(x)).ravel()[0])
            if not np.isclose(p, np.exp(vals[0]), rtol=1e-9, atol=0):
                return bad('C10:posterior:pdf-not-exp-logpdf', dict(what, x=x.tolist()))
        # batch shape (n,d): equals the single-point answers
        XS = np.array([x for x, _ in pts])
        vb = np.asarray(post.logpdf(XS), dtype=float)
        single = np.array([float(np.asarray(post.logpdf(x)).ravel()[0]) for x, _ in pts])
        # log Phi(t) amplifies the rounding differences between GPy's batch and single-point predictions by about t^2:
        # values are compared with a tolerance scaled by the conditioning of the log density at the point
        mu_b, var_b = gp._gp.predict(XS)
        tt = np.abs((thr - mu_b[:, 0]) / np.sqrt(var_b[:, 0]))
        tol = 1e-9 * (1.0 + np.abs(single)) * (1.0 + tt ** 2)
        finite = np.isfinite(single)
        if vb.shape != (len(pts),) or not np.array_equal(np.isfinite(vb), finite) or \
                np.any(np.abs(vb[finite] - single[finite]) > tol[finite] + 1e-10):
            return bad('C10:posterior:batch-differs-from-single-points', dict(what, shape=list(vb.shape)))
        # (ii) gradient vs central differences
        for x, inside in pts:
            if not inside:
                continue
            lo = np.array([b[0] for b in BOUNDS[dim]])
            hi = np.array([b[1] for b in BOUNDS[dim]])
            h = 1e-5 * (hi - lo)
            if np.any(x - lo < 10 * h) or np.any(hi - x < 10 * h):
                continue
            g = np.asarray(post.gradient_logpdf(x), dtype=float).reshape(-1)
            num = np.zeros(dim)
            for j in range(dim):
                e = np.zeros(dim)
                e[j] = h[j]
                f = lambda t: ref_logpost(gp, prior, thr, x + t * e)   # noqa: E731
                # 5-point stencil (error O(h^4)): the log density is extremely steep where the mean is far above the
                # threshold, a 3-point difference is not accurate to 1e-4 there
                num[j] = (-f(2) + 8 * f(1) - 8 * f(-1) + f(-2)) / (12 * h[j])
            nev += 1
            if not np.allclose(g, num, rtol=1e-4, atol=1e-6 * (1 + np.abs(num).max())):
                return bad('C10:posterior:gradient-differs-from-derivative', dict(what, x=x.tolist(), got=g.tolist(),
                                                                                 numeric=num.tolist()))
            # the same gradient whatever the shape of the query point
            gshapes = [x[None, :]] + ([np.float64(x[0]), float(x[0])] if dim == 1 else [])
            for xs in gshapes:
                g2 = np.asarray(post.gradient_logpdf(xs), dtype=float)
                if g2.size != dim or not np.allclose(g2.reshape(-1), g, rtol=1e-9, atol=1e-12):
                    return bad('C10:posterior:gradient-depends-on-input-shape',
                               dict(what, x=x.tolist(), shape=list(np.shape(xs)), got=g2.tolist(), as_1d=g.tolist()))
        # gradient of a batch mixing inside and outside points: the inside rows equal the single-point gradients
        GB = np.asarray(post.gradient_logpdf(XS), dtype=float)
        if GB.shape != (len(pts), dim):
            return bad('C10:posterior:batch-gradient-shape', dict(what, shape=list(GB.shape)))
        for i, (x, inside) in enumerate(pts):
            if not inside:
                continue
            g1 = np.asarray(post.gradient_logpdf(x), dtype=float).reshape(-1)
            gtol = 1e-7 * (1.0 + np.abs(g1).max()) * (1.0 + tt[i] ** 2)
            if not np.all(np.abs(GB[i] - g1) <= gtol):
                return bad('C10:posterior:batch-gradient-differs-from-single-points',
                           dict(what, x=x.tolist(), batch=GB[i].tolist(), single=g1.tolist()))
        # integer-typed query points are legal inputs: same answers as the float-typed point
        for xi in ([np.array([1]), np.array([0]), np.array([2])] if dim == 1 else
                   [np.array([1, 1, 0][:dim]), np.array([0, 1, 0][:dim]), np.array([2, 1, -1][:dim])]):
            nev += 1
            xf = xi.astype(float)
            vi, vf = float(np.ravel(post.logpdf(xi))[0]), float(np.ravel(post.logpdf(xf))[0])
            gi = np.asarray(post.gradient_logpdf(xi), dtype=float).reshape(-1)
            gf = np.asarray(post.gradient_logpdf(xf), dtype=float).reshape(-1)
            if not np.isclose(vi, vf, rtol=1e-12, atol=0):
                return bad('C10:posterior:integer-typed-point:logpdf', dict(what, x=xi.tolist(), got=vi, as_float=vf))
            if not np.allclose(gi, gf, rtol=1e-12, atol=0):
                return bad('C10:posterior:integer-typed-point:gradient-truncated',
                           dict(what, x=xi.tolist(), got=gi.tolist(), as_float=gf.tolist()))
    # (iii) fast path vs GPy, single points (inside and outside the bounds: the GP is defined everywhere)
    if getattr(gp, '_kernel_is_default', False):
        for x, inside in pts:
            nev += 1
            x2 = x[None, :]
            gp.is_sampling = False
            m0, v0 = gp.predict(x2)
            gm0, gv0 = gp.predictive_gradients(x2)
            mn0, vn0 = gp._gp.predict_noiseless(x2)
            gp.is_sampling = True
            try:
                m1, v1 = gp.predict(x2)
                gm1, gv1 = gp.predictive_gradients(x2)
                m1b, v1b = gp.predict(x)           # 1-D input is cast to 2-D
                mn1, vn1 = gp.predict(x2, noiseless=True)
            finally:
                gp.is_sampling = False
            tol = dict(rtol=1e-6, atol=1e-6 * scale)
            # the prediction without the noise variance, as the acquisition rules request it
            if not (np.allclose(mn1, mn0, **tol) and np.allclose(vn1, vn0, **tol)):
                return bad('C10:fastpath:noiseless-prediction-differs',
                           dict(what, x=x.tolist(), fast=[np.ravel(mn1).tolist(), np.ravel(vn1).tolist()],
                                gpy_predict_noiseless=[np.ravel(mn0).tolist(), np.ravel(vn0).tolist()],
                                gpy_noise_variance=float(gp._gp.likelihood.variance[0])))
            if not (np.allclose(m1, m0, **tol) and np.allclose(m1b, m0, **tol)):
                return bad('C10:fastpath:mean-differs', dict(what, x=x.tolist(), fast=np.ravel(m1).tolist(),
                                                             gpy=np.ravel(m0).tolist()))
            if not (np.allclose(v1, v0, **tol) and np.allclose(v1b, v0, **tol)):
                return bad('C10:fastpath:variance-differs', dict(what, x=x.tolist(), fast=np.ravel(v1).tolist(),
                                                                 gpy=np.ravel(v0).tolist()))
            gt = dict(rtol=1e-5, atol=1e-5 * scale)
            if np.shape(gm1) != np.shape(gm0) or not np.allclose(gm1, gm0, **gt):
                return bad('C10:fastpath:mean-gradient-differs', dict(what, x=x.tolist(), fast=np.ravel(gm1).tolist(),
                                                                      gpy=np.ravel(gm0).tolist()))
            if np.shape(gv1) != np.shape(gv0) or not np.allclose(gv1, gv0, **gt):
                return bad('C10:fastpath:variance-gradient-differs', dict(what, x=x.tolist(), fast=np.ravel(gv1).tolist(),
                                                                          gpy=np.ravel(gv0).tolist()))
    r = ok(outcome=digest((case['dim'], case['n'], case['fn'], case['hyper'], round(cond, 3))))
    r.update(evals=nev, distinct=nev)
    return r


# ---------------------------------------------------------------- the posterior BOLFI itself hands out
def sim_ab(a, b, batch_size=1, random_state=None):
    a = np.asarray(a, dtype=float).reshape((-1, 1))
    b = np.asarray(b, dtype=float).reshape((-1, 1))
    return a + b + 0.1 * random_state.randn(batch_size, 3)


def mean_row(y):
    return np.mean(y, axis=1)


@guarded('C10')
def run_extract(case):
    """BOLFI.extract_posterior(): log density == log Phi((threshold - mean)/sd) of the surrogate's noisy prediction plus
    the log prior of the point, the columns of the point following the surrogate's parameter order - also when that
    order is not the alphabetical order of the model's parameters and the priors are not exchangeable."""
    import elfi
    from elfi.methods.bo.gpy_regression import GPyRegression
    from .. import models
    models.native_client()
    m = elfi.ElfiModel(name='c10extract')
    a = elfi.Prior('norm', 0., 1., model=m, name='a')
    b = elfi.Prior('norm', 3., .5, model=m, name='b')
    sim = elfi.Simulator(sim_ab, a, b, observed=np.array([[3.4, 3.5, 3.6]]), model=m, name='sim')
    s_ = elfi.Summary(mean_row, sim, model=m, name='s')
    elfi.Distance('euclidean', s_, model=m, name='d')
    bounds = {'a': (-2., 2.), 'b': (1., 5.)}
    names = list(case['order'])
    rs = np.random.RandomState(case['seed'])
    n0 = case['n0']
    ev = {'a': rs.uniform(*bounds['a'], n0), 'b': rs.uniform(*bounds['b'], n0)}
    ev['d'] = np.abs(ev['a'] + ev['b'] - 3.5) + 0.05 * rs.randn(n0)
    kw = {}
    if case['surrogate'] == 'given':
        kw['target_model'] = GPyRegression(names, bounds=bounds)
    else:
        kw['bounds'] = bounds
        names = ['a', 'b']
    bolfi = elfi.BOLFI(m['d'], batch_size=1, initial_evidence=ev, update_interval=2, seed=case['seed'], **kw)
    if case['via'] == 'fit':
        post = bolfi.fit(n_evidence=n0 + 2, bar=False)
    else:
        bolfi.infer(n0 + 2, bar=False)
        post = bolfi.extract_posterior(threshold=case.get('threshold'))
    gp = bolfi.target_model
    if list(gp.parameter_names) != names:
        return bad('C10:extract:surrogate-parameter-order-changed', {'case': case, 'got': list(gp.parameter_names)})
    thr = float(post.threshold)
    pri = {'a': (0., 1.), 'b': (3., .5)}
    lo = np.array([bounds[k][0] for k in names])
    hi = np.array([bounds[k][1] for k in names])

    def ref(x):
        mean, var = gp._gp.predict(np.atleast_2d(x))
        return float(ss.norm.logcdf((thr - mean[0, 0]) / np.sqrt(var[0, 0]))) + \
            sum(float(ss.norm.logpdf(x[j], *pri[k])) for j, k in enumerate(names))
    n = 0
    for fa in (0.0, 0.3, 0.5, 0.85, 1.0):
        for fb in (0.0, 0.4, 0.7, 1.0):
            x = lo + np.array([fa, fb]) * (hi - lo)
            got = float(np.ravel(post.logpdf(x))[0])
            want = ref(x)
            n += 1
            if not np.isclose(got, want, rtol=1e-8, atol=1e-9):
                return bad('C10:extract:logpdf-differs-from-definition',
                           {'case': case, 'x': x.tolist(), 'order': names, 'got': got, 'expected': want})
            if 0 < fa < 1 and 0 < fb < 1:
                h = 1e-5 * (hi - lo)
                num = np.array([(-ref(x + 2 * h * e) + 8 * ref(x + h * e) - 8 * ref(x - h * e) + ref(x - 2 * h * e)) / (12 * h[j])
                                for j, e in enumerate(np.eye(2))])
                g = np.asarray(post.gradient_logpdf(x), dtype=float).reshape(-1)
                if not np.allclose(g, num, rtol=1e-4, atol=1e-6 * (1 + np.abs(num).max())):
                    return bad('C10:extract:gradient-differs-from-derivative',
                               {'case': case, 'x': x.tolist(), 'got': g.tolist(), 'numeric': num.tolist()})
    for x in (lo - 0.5, hi + 0.5, np.array([lo[0] - 1e-9, 0.5 * (lo[1] + hi[1])])):
        n += 1
        if float(np.ravel(post.logpdf(x))[0]) != -np.inf:
            return bad('C10:extract:not-minus-inf-outside-bounds', {'case': case, 'x': x.tolist()})
    r = ok(outcome=digest((case['order'], case['surrogate'], round(thr, 9))), extracted_posteriors=1)
    r.update(evals=n, distinct=n)
    return r


# ---------------------------------------------------------------- H: update / toggle histories
def batch_for(dim, shape_kind, k):
    """k-th batch of new evidence with the given shape kind; values distinct so order is visible."""
    lo = np.array([b[0] for b in BOUNDS[dim]])
    hi = np.array([b[1] for b in BOUNDS[dim]])
    rows = {'1xd': 1, '2xd': 2, 'd': 1}[shape_kind]
    u = np.array([[((31 * k + 7 * r + 3 * j) % 17) / 16.0 for j in range(dim)] for r in range(rows)])
    X = lo + u * (hi - lo)
    y = 1.0 + ((X - 0.7) ** 2).sum(axis=1) + 0.01 * (k + 1) + 0.003 * np.arange(rows)
    if shape_kind == 'd':
        return X[0], y[:1]
    return X, y


@guarded('C10')
def run_history(case):
    from elfi.methods.bo.gpy_regression import GPyRegression
    dim = case['dim']
    use_bounds(case)
    names = ['a', 'b', 'c'][:dim]
    gp = GPyRegression(names, bounds={k: BOUNDS[dim][i] for i, k in enumerate(names)}, max_opt_iters=10)
    q = np.array([[0.3, 0.9][:dim]])
    nupd = 0
    what = {'case': case}
    # surrogate objects alive in this history: [object, reference X, reference Y]; 'copy' adds one and continues on it,
    # 'swap' continues on the next one; 'predict' judges every object (a copy and its original are independent
    # surrogates from the moment of the copy)
    objs = [[gp, np.zeros((0, dim)), np.zeros((0, 1))]]
    cur = 0
    for op in case['history']:
        k = op[0]
        gp, refX, refY = objs[cur]
        if k == 'update':
            X, y = batch_for(dim, op[1], nupd)
            nupd += 1
            gp.update(np.array(X, copy=True), np.array(y, copy=True), optimize=bool(op[2]) if len(op) > 2 else False)
            refX = np.vstack([refX, np.asarray(X).reshape(-1, dim)])
            refY = np.vstack([refY, np.asarray(y).reshape(-1, 1)])
            objs[cur][1:] = [refX, refY]
            for j, (g_, rx, ry) in enumerate(objs):
                tag = '' if j == cur else ':of-another-surrogate-object'
                if g_.n_evidence != len(rx):
                    return bad('C10:update:n_evidence' + tag, dict(what, got=int(g_.n_evidence), expected=len(rx)))
                if len(rx) and not (np.array_equal(np.asarray(g_.X), rx) and np.array_equal(np.asarray(g_.Y), ry)):
                    return bad('C10:update:earlier-evidence-changed-or-reordered' + tag,
                               dict(what, X=np.asarray(g_.X).tolist(), expected=rx.tolist()))
        elif k == 'optimize':
            if gp.n_evidence:
                gp.optimize()
        elif k == 'on':
            gp.is_sampling = True
        elif k == 'off':
            gp.is_sampling = False
        elif k == 'copy':
            objs.append([gp.copy(), refX.copy(), refY.copy()])
            cur = len(objs) - 1
        elif k == 'swap':
            cur = (cur + 1) % len(objs)
        elif k == 'predict':
            for j, (g_, rx, ry) in enumerate(objs):
                if g_.n_evidence == 0:
                    continue
                tag = '' if len(objs) == 1 else ':with-a-copy-alive'
                m, v = g_.predict(q)
                gm, gv = g_.predictive_gradients(q)
                m0, v0 = g_._gp.predict(q)
                gm0, gv0 = g_._gp.predictive_gradients(q)
                scale = float(g_._gp.kern.rbf.variance[0] + g_._gp.kern.bias.variance[0])
                tol = dict(rtol=1e-6, atol=1e-6 * scale)
                if np.shape(m) != np.shape(m0) or np.shape(v) != np.shape(v0) or \
                        not (np.allclose(m, m0, **tol) and np.allclose(v, v0, **tol)):
                    return bad('C10:fastpath:stale-or-wrong-prediction-after-history' + tag,
                               dict(what, mean=np.ravel(m).tolist(), gpy_mean=np.ravel(m0).tolist(),
                                    var=np.ravel(v).tolist(), gpy_var=np.ravel(v0).tolist(), object=j))
                if not (np.allclose(gm, gm0[:, :, 0], rtol=1e-5, atol=1e-5 * scale)
                        and np.allclose(gv, gv0, rtol=1e-5, atol=1e-5 * scale)):
                    return bad('C10:fastpath:stale-or-wrong-gradient-after-history' + tag, dict(what, object=j))
    refX, refY = objs[0][1], objs[0][2]
    return ok(outcome=digest((refX, refY)))


RUNNERS = {'gp': run_gp, 'history': run_history, 'extract': run_extract}


def replay(case):
    return RUNNERS[case['kind']](case)


def run(ctx):
    q = ctx.quick
    cases = []
    dims = (1, 2)
    ns = (3, 6) if q else (3, 5, 8)
    fns = ('quad', 'sin') if q else ('quad', 'sin', 'abs')
    hypers = ('initial', 'scg') if q else ('initial', 'scg', 'lbfgsb')
    for dim in dims:
        for n in ns:
            for fn in fns:
                for hy in hypers:
                    if (n, fn) == (ns[0], fns[0]) or not q:
                        cases.append({'kind': 'gp', 'dim': dim, 'n': n, 'fn': fn, 'hyper': hy, 'bfam': 'b',
                                      'thresholds': ['explicit'] if q else ['min', 'explicit', 'zero'], 'dense': not q})
                    cases.append({'kind': 'gp', 'dim': dim, 'n': n, 'fn': fn, 'hyper': hy,
                                  'thresholds': ['min', 'explicit', 'zero'] if q else
                                  ['min', 'median', 'explicit', 'zero', 'int-zero', 'negative'],
                                  'dense': not q})
    # three input dimensions
    for n in ((5,) if q else (5, 9)):
        for fn in (('quad',) if q else ('quad', 'sin')):
            for hy in (('scg',) if q else hypers):
                for bf in ('a', 'b'):
                    cases.append({'kind': 'gp', 'dim': 3, 'n': n, 'fn': fn, 'hyper': hy, 'bfam': bf,
                                  'thresholds': ['min', 'explicit'], 'dense': False})
    ctx.run_cases(run_gp, cases, 'fitted-gps', chunksize=1, sample_every=max(1, len(cases) // 4))
    # histories
    hcases = []
    shapes = ['1xd', '2xd', 'd']
    depth = 3
    for dim in dims:
        # (a) pure update sequences: every sequence of <= 3 updates over the three batch shapes
        for L in range(1, depth + 1):
            for seq in itertools.product(shapes, repeat=L):
                hcases.append({'kind': 'history', 'dim': dim, 'history': [['update', s] for s in seq]})
        # (b) update / toggle / predict interleavings (first op is an update of two rows)
        alphabet = [['update', '1xd'], ['on'], ['off'], ['predict'], ['optimize']]
        for L in range(1, 5 if q else 6):   # 5^4 = 625 sequences per dimension in quick
            for seq in itertools.product(alphabet, repeat=L):
                if not any(o[0] == 'predict' for o in seq):
                    continue
                hcases.append({'kind': 'history', 'dim': dim, 'history': [['update', '2xd']] + [list(o) for o in seq]})
        if not q:
            hcases.append({'kind': 'history', 'dim': dim, 'history': [['update', '2xd', 1], ['on'], ['predict'], ['off'],
                                                                      ['update', '2xd', 1], ['on'], ['predict']]})
        # (c) a copy of a surrogate whose fast path was used: every continuation over the two objects
        alphabet_c = alphabet + [['swap']]
        for L in range(1, 4 if q else 5):
            for seq in itertools.product(alphabet_c, repeat=L):
                if seq[-1][0] != 'predict':
                    continue
                hcases.append({'kind': 'history', 'dim': dim, 'history': [['update', '2xd'], ['on'], ['predict'], ['copy']]
                               + [list(o) for o in seq]})
    ecases = [{'kind': 'extract', 'order': order, 'surrogate': sur, 'via': via, 'seed': sd, 'n0': 12, 'threshold': thr}
              for order, sur in ((['a', 'b'], 'default'), (['a', 'b'], 'given'), (['b', 'a'], 'given'))
              for via, thr in (('fit', None), ('extract', None), ('extract', 0.3))
              for sd in ((3,) if q else (3, 4))]
    ctx.run_cases(run_extract, ecases, 'extract-posterior', chunksize=1)
    ctx.run_cases(run_history, hcases, 'histories', sample_every=max(1, len(hcases) // 4))
    ctx.rule = ('fitted-gps: full product dimension (1, 2; 3 with a reduced grid) x evidence size x target function x hyper-parameter state; per GP a full '
                'grid of query points (inside incl. exact bounds, one ulp and 1e-9 outside, far outside) x thresholds x input shapes, '
                'for binary-fraction and for decimal bounds; '
                'evaluations = judged (GP, threshold, point) triples; extract-posterior: BOLFI.fit / extract_posterior on a '
                'two-parameter model with default and user-given surrogates (parameter order a,b and b,a); histories: every update sequence of depth <= 3 over '
                'three batch shapes, and every interleaving of update / sampling-mode on / off / predict / optimize up to the depth, also over a surrogate and its copy (copy after the fast path was used, then every continuation on either object); '
                'distinct by construction')
    ctx.assumptions += [
        'reference mean/variance/gradients come from the underlying GPy model object (model._gp.predict / predictive_gradients)',
        'fast path compared with atol 1e-6*(rbf variance + bias) and rtol 1e-6 (gradients 1e-5); fitted GPs with '
        'cond(K + s^2 I) > 1e8 are skipped and counted',
        'posterior gradient compared with a 5-point stencil of the reference log density (h = 1e-5 * width, rtol 1e-4) '
        'at grid points at least 10h away from the bounds',
        'multi-point calls of the fast path are outside the statement ("single-point")',
        'the posterior prior is an analytic independent normal; ModelPrior itself is C08',
    ]
