"""C13 Weighted-sample statistics and the mixture proposal obey their definitions.  Modes P + E.

Sections
  quantile : weighted_sample_quantile on every x in {0..}^n (ties, unsorted, single element), every weight
             vector in {0..wmax}^n minus the zero vector (and weights=None), every alpha of a finite rational
             alphabet, every weight rescaling; oracle in exact rationals (vmc/ref/c13_oracles.py): result is an
             element, W(<=q) >= alpha, W(<q) <= alpha, monotone in alpha, invariant to rescaling.
  sample   : the same definition through elfi.methods.results.Sample.sample_quantiles /
             sample_means_and_95CIs (the reported credible intervals).
  wvar     : weighted_var (1-D and 2-D x) against the exact-rational reliability-weights formula and against
             numpy.cov(aweights=w, ddof=1); rescaling of the weights.
  ess      : compute_ess against (sum w)^2 / sum w^2 and normalize_weights against w / sum w, both in exact
             rationals; rescaling.
  gm-pdf   : GMDistribution.pdf / logpdf for dims 1..3 x 1..3 components x covariance forms x weight vectors
             (incl. zeros, unnormalised, None) x argument shapes against a written-out normal density.
  gm-rvs   : (mode E, vmc/explore.py) the constraint of GMDistribution.rvs is the environment: the scripted
             prior_logpdf answers accept/reject per proposed row through ch.choose(2, label); the complete answer
             tree over <= R adversarial rounds (then forced accept) is executed for every size.
  rvs-plain: unconstrained / size=None / size=0 / real box constraint / near-zero covariance calls (mode P).
"""
import itertools
import math
import os
from collections import Counter
from fractions import Fraction

import numpy as np

from .. import explore
from ..canon import digest, jsonable
from ..guard import guarded
from ..report import ok, bad
from ..ref import c13_oracles as ref

PID = 'C13'
LEVEL = 'exploration'

RTOL = 1e-9


def _U():
    import elfi.methods.utils as U
    return U


_REPO = os.path.realpath(os.environ.get('VMC_REPO', '/repo'))


def _site(tb):
    """Innermost traceback frame inside the repo ('relative/file.py:function'), same convention as
    vmc.guard.elfi_site but without reading source lines (cheap enough for thousands of failing executions)."""
    site = None
    while tb is not None:
        code = tb.tb_frame.f_code
        fn = code.co_filename
        if fn.startswith(_REPO + os.sep) or os.path.realpath(fn).startswith(_REPO + os.sep):
            site = '%s:%s' % (os.path.relpath(os.path.realpath(fn), _REPO), code.co_name)
        tb = tb.tb_next
    return site


def _try(fn, *a, **kw):
    """Call into elfi; -> (True, value) or (False, (signature, text)).  Exceptions that do not pass through
    the repository are harness bugs and propagate."""
    try:
        return True, fn(*a, **kw)
    except Exception as e:  # noqa
        site = _site(e.__traceback__)
        if site is None:
            raise
        return False, ('C13:exception:%s@%s' % (type(e).__name__, site), repr(e)[:300])


def _frac(s):
    return Fraction(s) if not isinstance(s, Fraction) else s


def _viol(sig, detail, witness, evals=0, distinct=0):
    r = bad(sig, dict(detail, witness=witness))
    r['witness'] = witness
    r.update(evals=max(1, evals), distinct=distinct)
    return r


# ============================================================================= quantile
POW2_SCALES = ['2', '1/4', '8']
OTHER_SCALES = ['3', '1/10']


def _weights_of(case, n):
    if 'ws' in case:
        return [None if w is None else tuple(w) for w in case['ws']]
    out = [None] if case.get('with_none', True) else []
    for w in itertools.product(range(case['wmax'] + 1), repeat=n):
        if sum(w) > 0:
            out.append(w)
    return out


def _arr(v, dt):
    return np.array(v, dtype=float if dt == 'f' else int)


@guarded('C13')
def run_quantile(case):
    """All (w, alpha, scale, dtype) sub-cases of one sample x."""
    wq = _U().weighted_sample_quantile
    x = tuple(case['x'])
    n = len(x)
    alphas = sorted(_frac(a) for a in case['alphas'])
    scales = case['scales']
    dtypes = case.get('dtypes', ['ff'])
    evals = 0
    table = []
    boundary = 0
    upper_at_boundary = 0
    inexact_skipped = 0
    afloat = [float(a) for a in alphas]
    tiny = Fraction(1, 10 ** 9)
    for w in _weights_of(case, n):
        wi = (1,) * n if w is None else w
        orc = ref.QuantileOracle(x, wi)
        adm = [set(float(v) for v in orc.admissible(a)) for a in alphas]
        amax = [max(s_) if len(s_) > 1 else None for s_ in adm]
        off_boundary = [orc.boundary_distance(a) >= tiny for a in alphas]
        for dt in dtypes:
            xa = _arr(x, dt[0])
            base = None
            for sc in (['1'] if w is None else ['1'] + list(scales)):
                c = _frac(sc)
                pow2 = sc in POW2_SCALES or sc == '1'
                if w is None:
                    wa = None
                elif c == 1:
                    wa = _arr(w, dt[1])
                else:
                    wa = np.array(w, dtype=float) * float(c)

                def wit(ais):
                    return {'kind': 'quantile', 'x': list(x), 'ws': [None if w is None else list(w)],
                            'alphas': [str(alphas[i]) for i in ais], 'scales': [] if sc == '1' else [sc], 'dtypes': [dt]}
                cur = []
                for ai, af in enumerate(afloat):
                    good, q = _try(wq, xa, af, weights=wa)
                    evals += 1
                    if not good:
                        return _viol(q[0].replace('C13:exception', 'C13:quantile:exception'), {'error': q[1]}, wit([ai]),
                                     evals, evals)
                    try:
                        qf = float(q)
                    except (TypeError, ValueError):
                        return _viol('C13:quantile:not-an-element', {'q': repr(q)}, wit([ai]), evals, evals)
                    if qf not in adm[ai]:
                        tag, info = orc.judge(q, alphas[ai]) or ('not-an-element', {'q': qf})
                        return _viol('C13:quantile:' + tag, dict(info, admissible=sorted(adm[ai])), wit([ai]), evals, evals)
                    if amax[ai] is not None:
                        boundary += 1
                        upper_at_boundary += int(qf == amax[ai])
                    # monotone in alpha
                    if cur and qf < cur[-1]:
                        return _viol('C13:quantile:not-monotone-in-alpha',
                                     {'alpha_lo': str(alphas[ai - 1]), 'q_lo': cur[-1], 'alpha_hi': str(alphas[ai]),
                                      'q_hi': qf}, wit([ai - 1, ai]), evals, evals)
                    cur.append(qf)
                    # invariance to rescaling
                    if base is not None:
                        if pow2 or off_boundary[ai]:
                            if qf != base[ai]:
                                return _viol('C13:quantile:depends-on-weight-scale',
                                             {'q_scaled': qf, 'q_unscaled': base[ai], 'scale': sc}, wit([ai]), evals, evals)
                        else:
                            inexact_skipped += 1
                if sc == '1':
                    base = cur
                    if dt == dtypes[0]:
                        table.extend(cur)
                    if dt[0] == 'f':
                        # the same sample at a very small / very large scale (binary-exact): the quantile is the same element
                        for xs in (2.0 ** -30, 2.0 ** 30):
                            for ai, af in enumerate(afloat):
                                good, q = _try(wq, xa * xs, af, weights=wa)
                                evals += 1
                                if not good or float(q) != cur[ai] * xs:
                                    return _viol('C13:quantile:not-scale-equivariant',
                                                 {'xscale': xs, 'got': repr(q), 'expected': cur[ai] * xs}, wit([ai]),
                                                 evals, evals)
    r = ok(outcome=digest((x, table)), trivial=False, quantile_calls=evals, quantile_alpha_on_boundary=boundary,
           quantile_upper_neighbour_at_boundary=upper_at_boundary,
           quantile_scale_comparisons_skipped_inexact_boundary=inexact_skipped,
           quantile_ties=int(len(set(x)) < n), quantile_unsorted=int(list(x) != sorted(x)))
    r.update(evals=evals, distinct=evals)
    return r


# ============================================================================= Sample-level quantiles
@guarded('C13')
def run_sample(case):
    """Sample.sample_quantiles / sample_means_and_95CIs on a two-parameter weighted sample."""
    from elfi.methods.results import Sample
    xa, xb = tuple(case['xa']), tuple(case['xb'])
    n = len(xa)
    alphas = [_frac(a) for a in case['alphas']]
    evals = 0
    outs = []
    for w in _weights_of(case, n):
        wi = (1,) * n if w is None else w
        wit = dict(case, ws=[None if w is None else list(w)])
        wit.pop('wmax', None)
        orcs = {'a': ref.QuantileOracle(xa, wi), 'b': ref.QuantileOracle(xb, wi)}
        good, s = _try(Sample, 'vmc', {'a': np.array(xa, dtype=float), 'b': np.array(xb, dtype=float),
                                       'd': np.zeros(n)}, ['a', 'b'], discrepancy_name='d',
                       weights=None if w is None else np.array(w, dtype=float))
        if not good:
            return _viol(s[0], {'error': s[1]}, wit, evals, evals)
        for a in alphas:
            good, qs = _try(s.sample_quantiles, alpha=float(a))
            evals += 1
            if not good:
                return _viol(qs[0].replace('C13:exception', 'C13:sample:exception'), {'error': qs[1]},
                             dict(wit, alphas=[str(a)]), evals, evals)
            if list(qs.keys()) != ['a', 'b']:
                return _viol('C13:sample:quantile-keys', {'keys': list(qs.keys())}, dict(wit, alphas=[str(a)]), evals, evals)
            for p in 'ab':
                v = orcs[p].judge(qs[p], a)
                if v:
                    return _viol('C13:sample:quantile:' + v[0], dict(v[1], parameter=p), dict(wit, alphas=[str(a)]),
                                 evals, evals)
                outs.append(float(qs[p]))
        good, ci = _try(lambda: s.sample_means_and_95CIs)
        evals += 1
        if not good:
            return _viol(ci[0].replace('C13:exception', 'C13:sample:exception'), {'error': ci[1]}, wit, evals, evals)
        for p, xs in (('a', xa), ('b', xb)):
            mean, lo, hi = ci[p]
            exact = Fraction(sum(a_ * b_ for a_, b_ in zip(wi, xs)), sum(wi))
            if not math.isclose(float(mean), float(exact), rel_tol=1e-12, abs_tol=1e-12):
                return _viol('C13:sample:weighted-mean', {'got': float(mean), 'exact': str(exact)}, wit, evals, evals)
            for q, a in ((lo, Fraction(1, 40)), (hi, Fraction(39, 40))):
                v = orcs[p].judge(q, a)
                if v:
                    return _viol('C13:sample:credible-interval:' + v[0], dict(v[1], parameter=p), wit, evals, evals)
            if float(lo) > float(hi):
                return _viol('C13:sample:credible-interval:not-ordered', {'lo': float(lo), 'hi': float(hi)}, wit, evals, evals)
            outs += [float(lo), float(hi)]
    r = ok(outcome=digest((xa, xb, outs)), sample_calls=evals)
    r.update(evals=evals, distinct=evals)
    return r


# ============================================================================= weighted variance / ESS
WSCALES = ['1', '2', '1/4', '3', '1/10']


def _close(got, exact, rtol=1e-11, atol=1e-12):
    return math.isclose(float(got), float(exact), rel_tol=rtol, abs_tol=atol)


@guarded('C13')
def run_wvar(case):
    """All weight vectors x scales for one data set x (list of scalars or list of rows)."""
    wvar = _U().weighted_var
    x = case['x']
    two_d = isinstance(x[0], (list, tuple))
    n = len(x)
    ncol = len(x[0]) if two_d else 1
    evals = 0
    undefined = 0
    outs = []
    for w in _weights_of(case, n):
        wi = (1,) * n if w is None else w
        exact = ref.wvar_exact(x, wi)
        for dt in case.get('dtypes', ['ff']):
            xa = _arr(x, dt[0])
            for sc in (['1'] if w is None else case.get('scales', WSCALES)):
                c = _frac(sc)
                if w is None:
                    wa = None
                elif c == 1:
                    wa = _arr(w, dt[1])
                else:
                    wa = np.array(w, dtype=float) * float(c)
                wit = {'kind': 'wvar', 'x': x, 'ws': [None if w is None else list(w)], 'scales': [sc], 'dtypes': [dt]}
                with np.errstate(all='ignore'):
                    good, v = _try(wvar, xa, wa)
                evals += 1
                if not good:
                    if exact is None:
                        undefined += 1      # rejecting an input for which the formula is 0/0 is allowed
                        continue
                    return _viol(v[0].replace('C13:exception', 'C13:weighted_var:exception'), {'error': v[1]}, wit,
                                 evals, evals)
                if exact is None:
                    undefined += 1          # 0/0: any answer (nan, inf, ...) accepted
                    continue
                va = np.asarray(v, dtype=float)
                if va.size != ncol or (two_d and va.shape != (ncol,)):
                    return _viol('C13:weighted_var:wrong-shape', {'shape': list(va.shape), 'components': ncol}, wit,
                                 evals, evals)
                va = va.reshape(-1)
                if not all(_close(g, e) for g, e in zip(va, exact)):
                    return _viol('C13:weighted_var:differs-from-reliability-weights-formula',
                                 {'got': va.tolist(), 'exact': [str(e) for e in exact],
                                  'exact_float': [float(e) for e in exact]}, wit, evals, evals)
                if sc != '1':
                    continue
                # the same sample far away from the origin: the variance is shift invariant and the exact value is
                # known (integer offsets are exactly representable); a one-pass sum-of-squares formula loses everything
                # to cancellation there, the two-pass formula stays accurate to ~1e-7 relative
                if dt == 'ff':
                    for off in case.get('offsets', (10 ** 6, 10 ** 9)):
                        with np.errstate(all='ignore'):
                            good2, v2 = _try(wvar, xa + float(off), wa)
                        evals += 1
                        if not good2:
                            return _viol(v2[0].replace('C13:exception', 'C13:weighted_var:exception'), {'error': v2[1]},
                                         dict(wit, offsets=[off]), evals, evals)
                        vo = np.asarray(v2, dtype=float).reshape(-1)
                        for g, e in zip(vo, exact):
                            e = float(e)
                            if not (abs(g - e) <= 1e-5 * abs(e) + 1e-5 * (1e-9 * off) ** 2):
                                return _viol('C13:weighted_var:wrong-far-from-origin',
                                             {'offset': off, 'got': vo.tolist(), 'exact_float': [float(t) for t in exact]},
                                             dict(wit, offsets=[off]), evals, evals)
                # the same sample at a very small / very large scale (binary-exact factors): the variance scales with
                # the square of the factor; an absolute tolerance anywhere in the computation breaks this
                if dt == 'ff':
                    for xs in (2.0 ** -30, 2.0 ** 30):
                        with np.errstate(all='ignore'):
                            good3, v3 = _try(wvar, xa * xs, wa)
                        evals += 1
                        if not good3:
                            return _viol(v3[0].replace('C13:exception', 'C13:weighted_var:exception'), {'error': v3[1]},
                                         dict(wit, xscale=xs), evals, evals)
                        vs_ = np.asarray(v3, dtype=float).reshape(-1)
                        if not all(_close(g, e * Fraction(xs) ** 2) for g, e in zip(vs_, exact)):
                            return _viol('C13:weighted_var:not-scale-equivariant',
                                         {'xscale': xs, 'got': vs_.tolist(),
                                          'exact_float': [float(e * Fraction(xs) ** 2) for e in exact]},
                                         dict(wit, xscale=xs), evals, evals)
                # second, numpy-based reading of the same definition (unscaled weights only)
                wn = np.ones(n) if wa is None else np.asarray(wa, dtype=float)
                with np.errstate(all='ignore'):
                    cv = np.cov(np.asarray(x, dtype=float), rowvar=False, aweights=wn, ddof=1)
                cv = np.atleast_2d(cv)
                if not np.allclose(va, np.diag(cv), rtol=1e-9, atol=1e-12):
                    return _viol('C13:weighted_var:differs-from-numpy-cov-aweights',
                                 {'got': va.tolist(), 'np_cov_diag': np.diag(cv).tolist()}, wit, evals, evals)
                outs.append(va.tolist())
    r = ok(outcome=digest((x, outs)), trivial=False, wvar_calls=evals, wvar_formula_undefined=undefined)
    r.update(evals=evals, distinct=evals - undefined)
    return r


@guarded('C13')
def run_ess(case):
    """compute_ess for every weight vector of length n (or the listed ones) x scales."""
    ess = _U().compute_ess
    norm = _U().normalize_weights
    n = case['n']
    evals = 0
    outs = []
    for w in _weights_of(dict(case, with_none=False), n):
        exact = ref.ess_exact(w)
        for dt in case.get('dtypes', ['f']):
            for sc in case.get('scales', WSCALES):
                c = _frac(sc)
                wa = _arr(w, dt) if c == 1 else np.array(w, dtype=float) * float(c)
                wit = {'kind': 'ess', 'n': n, 'ws': [list(w)], 'scales': [sc], 'dtypes': [dt]}
                good, v = _try(ess, wa)
                evals += 1
                if not good:
                    return _viol(v[0].replace('C13:exception', 'C13:ess:exception'), {'error': v[1]}, wit, evals, evals)
                if np.size(v) != 1 or not _close(np.asarray(v).reshape(-1)[0], exact):
                    return _viol('C13:ess:differs-from-definition',
                                 {'got': jsonable(np.asarray(v)), 'exact': str(exact), 'exact_float': float(exact)},
                                 wit, evals, evals)
                nz = sum(1 for t in w if t)
                if not (1 - 1e-9 <= float(v) <= nz + 1e-9):
                    return _viol('C13:ess:outside-1..n', {'got': float(v), 'nonzero': nz}, wit, evals, evals)
                if sc == '1':
                    outs.append(float(v))
                # normalize_weights: proportional to w, sums to one
                good, nw = _try(norm, wa)
                evals += 1
                if not good:
                    return _viol(nw[0].replace('C13:exception', 'C13:normalize_weights:exception'), {'error': nw[1]},
                                 wit, evals, evals)
                nw = np.asarray(nw, dtype=float)
                tot = sum(w)
                if nw.shape != (n,) or not all(_close(g, Fraction(t, tot)) for g, t in zip(nw, w)):
                    return _viol('C13:normalize_weights:not-w-over-sum', {'got': nw.tolist(), 'w': list(w)}, wit,
                                 evals, evals)
    r = ok(outcome=digest((n, outs)), ess_calls=evals)
    r.update(evals=evals, distinct=evals)
    return r


# ============================================================================= Gaussian mixture: parameters
MEAN_TABLE = np.array([[0.0, 0.0, 0.0], [1.0, 2.0, -1.0], [3.0, 1.0, 0.5]])
COVS = {
    1: {'default': None, 's0.5': 0.5, 's2': 2.0, 'vec': [1.5], 'mat': [[2.0]]},
    2: {'default': None, 's0.5': 0.5, 's2': 2.0, 'diag': [0.5, 2.0], 'full0': [[1.0, 0.3], [0.3, 2.0]],
        'full1': [[2.0, -1.0], [-1.0, 1.0]]},
    3: {'default': None, 's0.5': 0.5, 's2': 2.0, 'diag': [0.5, 2.0, 1.5],
        'full0': [[1.0, 0.3, 0.0], [0.3, 2.0, -0.5], [0.0, -0.5, 1.5]],
        'full1': [[2.0, -1.0, 0.5], [-1.0, 1.5, 0.0], [0.5, 0.0, 1.0]]},
}
GRID = [-1.0, 0.0, 0.5, 2.0]


def gm_params(case):
    """-> (means as passed to elfi, means (k,d) for the oracle, cov as passed, weights as passed)."""
    d, k = case['d'], case['k']
    m2 = MEAN_TABLE[:k, :d].copy() * case.get('mscale', 1)
    form = case.get('form', 'rows')
    if d == 1 and form == 'flat':
        m = m2[:, 0].copy()
    elif form == 'list':
        m = m2.tolist() if d > 1 else m2[:, 0].tolist()
    else:
        m = m2.copy()
    cov = 1e-12 if case['cov'] == 'tiny' else COVS[d][case['cov']]
    cov_arg = None if cov is None else (cov if np.isscalar(cov) else np.array(cov, dtype=float))
    w = case.get('w')
    w_arg = None if w is None else np.array(w, dtype=float)
    return m, m2, cov_arg, w_arg


def _gm_kwargs(cov_arg, w_arg):
    kw = {}
    if cov_arg is not None:
        kw['cov'] = cov_arg
    if w_arg is not None:
        kw['weights'] = w_arg
    return kw


SHAPE_SYMPTOMS = ('exception:', 'wrong-number-of-values', 'wrong-number-of-points', 'size-None-not-one-unwrapped-point')


def _gm_sig(case, what, symptom):
    """One signature per root cause: shape-type failures (wrong count, exception) of a single component in >= 2
    dimensions are one class, whatever the symptom; everything else is named by its symptom."""
    if case['k'] == 1 and case['d'] >= 2 and symptom.startswith(SHAPE_SYMPTOMS):
        return 'C13:gm:one-component-multidim:' + what
    return 'C13:gm:%s:%s' % (what, symptom)


def _x_forms(d, pts, quick):
    """[(name, argument, (n,d) points for the oracle)]"""
    P = np.array(pts, dtype=float)
    out = []
    if d == 1:
        for v in pts:
            out.append(('scalar', float(v[0]), np.array([[v[0]]])))
        out.append(('1d', P[:, 0].copy(), P))
        out.append(('1d-one', P[:1, 0].copy(), P[:1]))
        out.append(('1d-list', P[:, 0].tolist(), P))
        out.append(('2d', P.copy(), P))
        out.append(('2d-one', P[:1].copy(), P[:1]))
    else:
        singles = pts[:: max(1, len(pts) // 5)] if quick else pts
        for v in singles:
            out.append(('1d-point', np.array(v, dtype=float), np.array([v], dtype=float)))
        out.append(('1d-point-list', list(pts[1]), np.array([pts[1]], dtype=float)))
        out.append(('2d', P.copy(), P))
        out.append(('2d-one', P[:1].copy(), P[:1]))
        out.append(('2d-list', P.tolist(), P))
    return out


@guarded('C13')
def run_gm_pdf(case):
    """pdf and logpdf for one (d, k, means form, cov, weights) over every argument shape."""
    GM = _U().GMDistribution
    d = case['d']
    m, m2, cov_arg, w_arg = gm_params(case)
    kw = _gm_kwargs(cov_arg, w_arg)
    pts = list(itertools.product(GRID, repeat=d))
    if case.get('mscale'):
        # well separated components: the component means themselves are query points (there a component of tiny
        # weight is the dominant term of the sum although its weight is far below machine epsilon)
        pts = [tuple(float(v) for v in r) for r in m2] + pts
    evals = 0
    outs = []
    for idx, (name, xarg, P) in enumerate(_x_forms(d, pts, case.get('quick', False) and not case.get('mscale'))):
        if 'xform' in case and idx != case['xform']:
            continue
        wit = dict(case, xform=idx)
        exact = ref.gm_pdf(P, m2, cov_arg, w_arg)
        for fn_name in ('pdf', 'logpdf'):
            with np.errstate(all='ignore'):
                good, v = _try(getattr(GM, fn_name), xarg, m, **kw)
            evals += 1
            if not good:
                return _viol(_gm_sig(case, fn_name, 'exception:' + v[0].split(':', 2)[2]),
                             {'error': v[1], 'x_form': name}, wit, evals, evals)
            va = np.asarray(v, dtype=float)
            if va.size != len(P):
                return _viol(_gm_sig(case, fn_name, 'wrong-number-of-values'),
                             {'x_form': name, 'points': len(P), 'returned_shape': list(va.shape),
                              'returned': va.reshape(-1)[:6].tolist()}, wit, evals, evals)
            va = va.reshape(-1)
            want = exact if fn_name == 'pdf' else np.log(exact)
            if not np.allclose(va, want, rtol=RTOL, atol=(0 if fn_name == 'pdf' else RTOL)):
                sym = 'differs-from-weighted-sum-of-normals' if fn_name == 'pdf' else 'not-log-of-density'
                i = int(np.argmax(np.abs(va - want)))
                return _viol(_gm_sig(case, fn_name, sym),
                             {'x_form': name, 'point': P[i].tolist(), 'got': float(va[i]), 'expected': float(want[i])},
                             wit, evals, evals)
            if name == '2d' and fn_name == 'pdf':
                outs.append(va)
    r = ok(outcome=digest(outs), gm_pdf_calls=evals, gm_zero_weight=int(w_arg is not None and np.any(w_arg == 0)))
    r.update(evals=evals, distinct=evals)
    return r


# ============================================================================= Gaussian mixture: rvs (mode E)
MAX_VIOL = 12


class _StopTree(Exception):
    pass


class Runaway(BaseException):
    """The sampler keeps drawing although every row is accepted: ends the execution (BaseException so that no
    `except Exception` in the code under test can swallow it)."""


class CountingState(np.random.RandomState):
    limit = 10 ** 9
    calls = 0

    def choice(self, *a, **kw):
        self.calls += 1
        if self.calls > self.limit:
            raise Runaway()
        return super().choice(*a, **kw)


ACCEPT = -1.25   # a finite log density


def _point_shape(case):
    d = case['d']
    return () if d == 1 else (d,)


def _rows(a, d):
    a = np.asarray(a, dtype=float)
    return a.reshape(-1, d) if d > 1 else a.reshape(-1, 1)


def _row_keys(a, d):
    return [r.tobytes() for r in np.ascontiguousarray(_rows(a, d))]


def make_rvs_body(case):
    GM = _U().GMDistribution
    m, m2, cov_arg, w_arg = gm_params(case)
    size, R, d = case['size'], case['rounds'], case['d']

    def body(ch):
        log = {'rounds': [], 'exc': None}

        def prior_logpdf(x):
            xx = np.array(x, dtype=float, copy=True)
            rows = _rows(xx, d)
            r = len(log['rounds'])
            ans = []
            for i in range(len(rows)):
                c = ch.choose(2, 'round%d.row%d' % (r, i)) if r < R else 0
                ans.append(c)
            log['rounds'].append({'shape': list(xx.shape), 'rows': rows.copy(), 'answers': ans})
            # an invalid point has a log density that is not finite: -inf (outside a support), or nan (what a joint density
            # of a hierarchical prior gives when a proposed scale is negative) / +inf
            rej = {'nan': np.nan, '+inf': np.inf}.get(case.get('reject'), -np.inf)
            return np.where(np.array(ans, dtype=int) == 0, ACCEPT, rej)

        rs = CountingState(case['seed'])
        rs.limit = R + size + 3
        try:
            out = GM.rvs(m, size=size, prior_logpdf=prior_logpdf, random_state=rs, **_gm_kwargs(cov_arg, w_arg))
            log['out'] = np.array(out, dtype=float, copy=True)
        except Runaway:
            log['exc'] = ('runaway', '')
        except Exception as e:  # noqa  - a behaviour of the code under test (judged by check)
            site = _site(e.__traceback__)
            if site is None:
                raise
            log['exc'] = ('%s@%s' % (type(e).__name__, site), repr(e)[:300])
        return log
    return body


def judge_rvs(case, log):
    """-> None or (symptom, detail)"""
    d, size = case['d'], case['size']
    brief = {'answers': [r['answers'] for r in log['rounds']], 'proposed_per_round': [len(r['rows']) for r in log['rounds']]}
    if log['exc']:
        if log['exc'][0] == 'runaway':
            return 'does-not-terminate-although-all-rows-accepted', brief
        return 'exception:' + log['exc'][0], dict(brief, error=log['exc'][1])
    out = log['out']
    want_shape = (size,) + _point_shape(case)
    if out.shape != want_shape:
        return 'wrong-number-of-points', dict(brief, returned_shape=list(out.shape), expected_shape=list(want_shape))
    accepted = Counter()
    rejected = Counter()
    for r in log['rounds']:
        for key, a in zip(_row_keys(r['rows'], d), r['answers']):
            (accepted if a == 0 else rejected)[key] += 1
    got = Counter(_row_keys(out, d))
    extra = got - accepted
    if extra:
        if any(k in rejected for k in extra):
            return 'returned-a-rejected-point', brief
        return 'returned-a-point-never-accepted', brief
    return None


@guarded('C13')
def run_rvs_tree(case):
    """Complete accept/reject answer tree of one (mixture, size, rounds, seed)."""
    body = make_rvs_body(case)
    explore.determinism_selftest(body, [1] if case['rounds'] > 0 else [])
    outcomes = set()
    depth_rounds = Counter()

    found = []
    own = Counter()

    def check(obs, run):
        outcomes.add(digest((obs.get('out'), [r['answers'] for r in obs['rounds']])))
        depth_rounds[len(obs['rounds'])] += 1
        own['executions'] += 1
        own['choice_points'] += len(run.choices)
        own['max_depth'] = max(own['max_depth'], len(run.choices))
        v = judge_rvs(case, obs)
        if v:
            found.append((v, list(run.choices)))
            if len(found) >= MAX_VIOL:
                # a failing tree is not explored to the end: the first MAX_VIOL violating executions are enough
                # to pick a small witness (a passing tree is always explored completely)
                raise _StopTree()
        return None
    try:
        st = explore.explore(body, check, bound=case.get('bound'), prune=False, max_executions=case.get('max_executions'))
        st['violations'] = found
    except _StopTree:
        st = {'executions': own['executions'], 'choice_points': own['choice_points'], 'capped': False,
              'violations': found, 'max_depth': own['max_depth'], 'complete': own['executions'], 'transitions': 0}
    res = ok(outcome=None, trivial=st['executions'] <= 1, rvs_executions=st['executions'],
             rvs_choice_points=st['choice_points'], rvs_capped=int(st['capped']))
    res.update(max_rounds=int(max(depth_rounds) if depth_rounds else 0), evals=st['executions'], distinct=len(outcomes), transitions=st.get('transitions', 0) + st['executions'],
               validated=st.get('complete', 0), max_depth=st['max_depth'], outcomes=sorted(outcomes))
    if st['violations']:
        v, choices = min(st['violations'], key=lambda vc: (sum(1 for c in vc[1] if c), len(vc[1]), vc[1]))
        wit = dict(case, kind='rvs-answers', answers=choices)
        for k_ in ('bound', 'max_executions'):
            wit.pop(k_, None)
        res['viol'] = {'sig': _gm_sig(case, 'rvs', v[0]),
                       'detail': jsonable(dict(v[1], answers=choices, violating_executions_seen=len(st['violations']),
                                               witness=wit))}
        res['witness'] = wit
    return res


@guarded('C13')
def run_rvs_answers(case):
    """Replay exactly one answer sequence."""
    run = explore.run_once(make_rvs_body(case), case['answers'])
    v = judge_rvs(case, run.obs)
    if v:
        return bad(_gm_sig(case, 'rvs', v[0]), dict(v[1], answers=case['answers']))
    return ok(outcome=digest(run.obs.get('out')))


def _box_logpdf(lo, hi, d):
    def f(x):
        rows = _rows(x, d)
        inside = np.all((rows >= lo) & (rows <= hi), axis=1)
        return np.where(inside, -d * math.log(hi - lo), -np.inf)
    return f


@guarded('C13')
def run_rvs_plain(case):
    """Unconstrained / size=None / size=0 / box-constrained / near-zero-covariance calls for a list of seeds."""
    GM = _U().GMDistribution
    d = case['d']
    m, m2, cov_arg, w_arg = gm_params(case)
    kw = _gm_kwargs(cov_arg, w_arg)
    mode = case['mode']
    evals = 0
    outs = []
    for size in case['sizes']:
        for seed in case['seeds']:
            wit = dict(case, sizes=[size], seeds=[seed])
            rs = CountingState(seed)
            rs.limit = 5000
            call_kw = dict(kw, size=size, random_state=rs)
            if mode == 'box':
                call_kw['prior_logpdf'] = _box_logpdf(-0.5, 3.5, d)
            try:
                good, out = _try(GM.rvs, m, **call_kw)
            except Runaway:
                return _viol(_gm_sig(case, 'rvs', 'does-not-terminate'), {'mode': mode, 'size': size}, wit, evals, evals)
            evals += 1
            if not good:
                return _viol(_gm_sig(case, 'rvs', 'exception:' + out[0].split(':', 2)[2]),
                             {'error': out[1], 'mode': mode, 'size': size}, wit, evals, evals)
            oa = np.asarray(out, dtype=float)
            want = _point_shape(case) if size is None else (size,) + _point_shape(case)
            if oa.shape != want:
                return _viol(_gm_sig(case, 'rvs', 'wrong-number-of-points' if size is not None else 'size-None-not-one-unwrapped-point'),
                             {'mode': mode, 'size': size, 'returned_shape': list(oa.shape), 'expected_shape': list(want)},
                             wit, evals, evals)
            rows = _rows(oa, d)
            if not np.all(np.isfinite(rows)):
                return _viol(_gm_sig(case, 'rvs', 'non-finite-point'), {'mode': mode, 'size': size}, wit, evals, evals)
            if mode == 'box' and len(rows) and not np.all((rows >= -0.5) & (rows <= 3.5)):
                return _viol(_gm_sig(case, 'rvs', 'returned-point-violates-constraint'),
                             {'rows': rows.tolist(), 'box': [-0.5, 3.5]}, wit, evals, evals)
            if case['cov'] == 'tiny' and len(rows):
                # with a covariance of 1e-12 every draw identifies its component: it must have positive weight
                wv = np.ones(len(m2)) if w_arg is None else w_arg
                for row in rows:
                    j = int(np.argmin(np.abs(m2 - row).max(axis=1)))
                    if np.abs(m2[j] - row).max() > 1e-3:
                        return _viol(_gm_sig(case, 'rvs', 'point-not-near-any-component-mean'),
                                     {'row': row.tolist()}, wit, evals, evals)
                    if wv[j] == 0:
                        return _viol(_gm_sig(case, 'rvs', 'point-from-zero-weight-component'),
                                     {'row': row.tolist(), 'component': j}, wit, evals, evals)
            outs.append(oa)
    r = ok(outcome=digest(outs), rvs_plain_calls=evals)
    r.update(evals=evals, distinct=evals)
    return r


RUNNERS = {'quantile': run_quantile, 'sample': run_sample, 'wvar': run_wvar, 'ess': run_ess, 'gm-pdf': run_gm_pdf,
           'rvs-tree': run_rvs_tree, 'rvs-answers': run_rvs_answers, 'rvs-plain': run_rvs_plain}


def replay(case):
    return RUNNERS[case['kind']](case)


# ============================================================================= enumeration
def _run(ctx, runner, cases, section, sample_every=None, chunksize=None):
    """Like ctx.run_cases, but a violating block is recorded under its single failing sub-case (the witness),
    so that replay files and pinned witnesses re-execute exactly one sub-case."""
    from .. import par
    cases = list(cases)
    if ctx.only and section not in ctx.only:
        return []

    def fn(case):
        return case, runner(case)
    results = []
    for i, (case, res) in enumerate(par.pmap(fn, cases, chunksize=chunksize, ordered=True)):
        wit = res.pop('witness', None)
        outs = res.pop('outcomes', None)
        ctx.record(wit if (res.get('viol') and wit) else case, res, section)
        if outs:
            for o in outs:
                ctx.outcomes.add(o)
        if i == 0 or i == len(cases) - 1 or (sample_every and i % sample_every == 0):
            ctx.add_sample(case, key=(section, i))
        results.append((case, res))
    return results


def _alphas(q):
    a = [Fraction(k, 8) for k in range(9)] + [Fraction(1, 40), Fraction(3, 10), Fraction(39, 40)]
    if not q:
        a += [Fraction(k, 16) for k in range(1, 16, 2)]
        a += [Fraction(*t) for t in ((1, 3), (2, 3), (1, 5), (2, 5), (4, 5), (1, 6), (5, 6), (1, 7), (3, 7), (1, 9),
                                     (7, 9), (1, 10), (7, 10), (9, 10), (1, 11), (5, 11), (1, 12), (7, 12),
                                     (1, 1000000), (999999, 1000000))]
    return [str(x) for x in sorted(set(a))]


def _weight_alphabet(k, q):
    if q:
        return {1: [None, [1], [2.5]],
                2: [None, [1, 1], [1, 3], [0, 2], [0.4, 0.1]],
                3: [None, [1, 0, 3], [1, 1, 1], [0, 0, 2], [0.2, 0.3, 0.5]]}[k]
    ws = [None] + [list(w) for w in itertools.product([0, 1, 3], repeat=k) if sum(w)]
    ws.append({1: [2.5], 2: [0.4, 0.1], 3: [0.2, 0.3, 0.5]}[k])
    return ws


def run(ctx):
    q = ctx.quick
    base = ctx.seed * 1000
    alphas = _alphas(q)
    scales = POW2_SCALES + OTHER_SCALES

    # ---- quantile
    cases = []
    nmax = 4 if q else 5
    alphas5 = sorted(set(_alphas(True)) | {'1/3', '1/5', '1/7', '1/15'}, key=Fraction)
    for n in range(1, nmax + 1):
        xvals = range(3) if (q or n >= 5) else range(4)
        for x in itertools.product(xvals, repeat=n):
            c = {'kind': 'quantile', 'x': list(x), 'wmax': 3, 'alphas': alphas, 'scales': scales,
                 'dtypes': ['ff', 'ii', 'if'] if n <= 3 else ['ff']}
            if n >= 5:
                c.update(scales=['3'], alphas=alphas5)
            elif n == 4:
                c['scales'] = ['2', '1/4', '3', '1/10']
            cases.append(c)
    ctx.count(quantile_alphabet_x=len(cases), quantile_alphabet_alpha=len(alphas))
    _run(ctx, run_quantile, cases, 'quantile', sample_every=max(1, len(cases) // 3))

    # ---- Sample-level quantiles / credible intervals
    cases = []
    for n in range(1, 4 if q else 5):
        for xa in itertools.product(range(3), repeat=n):
            xb = [(2 * v + i) % 3 for i, v in enumerate(xa)]
            cases.append({'kind': 'sample', 'xa': list(xa), 'xb': xb, 'wmax': 2 if q else 3,
                          'alphas': _alphas(True)})
    _run(ctx, run_sample, cases, 'sample')

    # ---- weighted variance
    cases = []
    vals1 = [0, 1, 2, 5]
    for n in range(1, 5 if q else 6):
        for x in itertools.product(vals1 if n <= 4 else vals1[:3], repeat=n):
            cases.append({'kind': 'wvar', 'x': list(x), 'wmax': 3 if n <= 4 else 2, 'dtypes': ['ff', 'ii'] if n <= 3 else ['ff']})
    pts2 = [[0, 0], [1, 2], [2, 1], [5, -1]]
    for n in range(1, 4 if q else 5):
        for rows in itertools.product(pts2, repeat=n):
            cases.append({'kind': 'wvar', 'x': [list(r) for r in rows], 'wmax': 3, 'dtypes': ['ff']})
    if not q:
        pts3 = [[0, 0, 1], [1, 2, 1], [2, 1, -3]]
        for n in range(2, 5):
            for rows in itertools.product(pts3, repeat=n):
                cases.append({'kind': 'wvar', 'x': [list(r) for r in rows], 'wmax': 2, 'dtypes': ['ff']})
    _run(ctx, run_wvar, cases, 'wvar')

    # ---- ESS
    cases = [{'kind': 'ess', 'n': n, 'wmax': 3 if n <= (5 if q else 6) else 2, 'dtypes': ['f', 'i']}
             for n in range(1, 7 if q else 9)]
    _run(ctx, run_ess, cases, 'ess', chunksize=1)

    # ---- GM pdf / logpdf
    cases = []
    for d in (1, 2, 3):
        covs = list(COVS[d])
        for k in (1, 2, 3):
            forms = ['flat', 'rows', 'list'] if d == 1 else ['rows', 'list']
            for form in forms:
                for cov in covs:
                    for w in _weight_alphabet(k, q):
                        if form == 'list' and (cov not in ('default', covs[-1])):
                            continue
                        cases.append({'kind': 'gm-pdf', 'd': d, 'k': k, 'form': form, 'cov': cov, 'w': w, 'quick': q})
    # well separated components with weights many orders of magnitude apart (an SMC population after a sharp threshold)
    tiny_w = {2: [[1e-18, 1], [1, 3e-17], [1e-300, 1e-290]], 3: [[1e-18, 1, 3e-17], [2.0, 1e-20, 1e-30]]}
    for d in (1, 2, 3):
        for k in (2, 3):
            for cov in (['default', 's2'] if q else list(COVS[d])):
                for w in tiny_w[k]:
                    cases.append({'kind': 'gm-pdf', 'd': d, 'k': k, 'form': 'rows', 'cov': cov, 'w': w, 'quick': q,
                                  'mscale': 40})
    _run(ctx, run_gm_pdf, cases, 'gm-pdf', sample_every=max(1, len(cases) // 3))

    # ---- GM rvs, mode E
    cases = []
    R = 3 if q else 4
    seeds = [base + s for s in range(2)]
    for d in (1, 2, 3):
        covs = (['s2', 'mat'] if d == 1 else ['s2', 'full0']) if q else [c for c in COVS[d] if c != 's0.5']
        for k in (1, 2, 3):
            forms = ['flat', 'rows'] if d == 1 else ['rows']
            wsel = {1: [None], 2: [None, [0, 2]], 3: [None, [1, 0, 3]]}[k] if q else \
                {1: [None, [2.5]], 2: [None, [0, 2], [1, 3]], 3: [None, [1, 0, 3], [0.2, 0.3, 0.5]]}[k]
            for form in forms:
                for cov in covs:
                    for w in wsel:
                        for size in (1, 2, 3, 4):
                            for s in (seeds[:1] if (q and size == 4) else seeds):
                                cases.append({'kind': 'rvs-tree', 'd': d, 'k': k, 'form': form, 'cov': cov, 'w': w,
                                              'size': size, 'rounds': R, 'seed': s})
                            if size <= 3 and w is None:
                                for rej in (('nan',) if q else ('nan', '+inf')):
                                    cases.append({'kind': 'rvs-tree', 'd': d, 'k': k, 'form': form, 'cov': cov, 'w': w,
                                                  'size': size, 'rounds': R, 'seed': seeds[0], 'reject': rej})
                        if not q and cov == covs[-1] and form == forms[0]:
                            cases.append({'kind': 'rvs-tree', 'd': d, 'k': k, 'form': form, 'cov': cov, 'w': w,
                                          'size': 5, 'rounds': R, 'seed': base})
    if not q:
        for d, k, form, cov, w in ((1, 2, 'flat', 's2', None), (2, 3, 'rows', 'full0', [1, 0, 3]), (3, 2, 'rows', 'diag', None)):
            cases.append({'kind': 'rvs-tree', 'd': d, 'k': k, 'form': form, 'cov': cov, 'w': w, 'size': 6, 'rounds': 3,
                          'seed': base})
            cases.append({'kind': 'rvs-tree', 'd': d, 'k': k, 'form': form, 'cov': cov, 'w': w, 'size': 3, 'rounds': 6,
                          'seed': base})
    # largest trees first: better load balance
    cases.sort(key=lambda c: -((c['rounds'] + 1) ** c['size']))
    res = _run(ctx, run_rvs_tree, cases, 'gm-rvs', sample_every=max(1, len(cases) // 3), chunksize=1)
    if res:
        ctx.extra['gm_rvs_explorer'] = {
            'trees': len(res),
            'executions': int(sum(r['cnt'].get('rvs_executions', 0) for _, r in res)),
            'choice_points': int(sum(r['cnt'].get('rvs_choice_points', 0) for _, r in res)),
            'max_choice_depth': int(max([r.get('max_depth', 0) for _, r in res] or [0])),
            'max_rounds_reached': int(max([r.get('max_rounds', 0) for _, r in res] or [0])),
            'adversarial_rounds': sorted(set(c['rounds'] for c, _ in res)), 'sizes': sorted(set(c['size'] for c, _ in res)),
            'expected_executions_per_tree': '(rounds+1)**size (each row is accepted in round 1..R or in the forced round)',
        }
        if any(r['cnt'].get('rvs_capped') for _, r in res):
            ctx.exhaustive = False
        # every tree must have exactly (R+1)^size executions: the exploration is complete, not cut short
        for c, r in res:
            if not r.get('viol') and r['cnt'].get('rvs_executions') != (c['rounds'] + 1) ** c['size']:
                raise AssertionError('answer tree of %r has %s executions, expected %d'
                                     % (c, r['cnt'].get('rvs_executions'), (c['rounds'] + 1) ** c['size']))

    # ---- GM rvs, plain calls
    cases = []
    pseeds = [base + s for s in range(3 if q else 10)]
    for d in (1, 2, 3):
        for k in (1, 2, 3):
            forms = ['flat', 'rows', 'list'] if d == 1 else ['rows', 'list']
            for form in forms:
                for w in _weight_alphabet(k, True):
                    for mode, cov in (('none', 's2'), ('none', 'default'), ('none', 'mat' if d == 1 else 'full1'), ('box', 's0.5'),
                                      ('none', 'tiny')):
                        cases.append({'kind': 'rvs-plain', 'd': d, 'k': k, 'form': form, 'cov': cov, 'w': w, 'mode': mode,
                                      'sizes': [None, 0, 1, 2, 3, 4] + ([] if q else [7, 16]), 'seeds': pseeds})
    _run(ctx, run_rvs_plain, cases, 'rvs-plain', sample_every=max(1, len(cases) // 3))

    ctx.rule = (
        'quantile: one case = one sample x (all tuples over a small integer alphabet up to length n), the runner '
        'enumerates every weight vector in {0..wmax}^n minus zero (and weights=None) x every alpha of the rational '
        'alphabet x every weight rescaling x dtype pair; wvar/ess/sample: the same product over data sets and weight '
        'vectors; gm-pdf: product dims x components x means form x covariance form x weight vector, every argument '
        'shape per case; gm-rvs: one case = the complete accept/reject answer tree of one (mixture, size, rounds, '
        'seed), evaluations = executions of the real rvs under the scripted constraint, distinct = distinct '
        '(answers, output) pairs; rvs-plain: product mixture x mode x size x seed. All sub-cases are distinct by '
        'construction; sub-cases for which the variance formula is 0/0 are not counted as non-trivial.')
    ctx.assumptions += [
        'quantile oracle in exact rationals with the nominal alpha (a small fraction): q must be an element with '
        'W(<=q) >= alpha and W(<q) <= alpha; when alpha equals a cumulative weight the definition itself admits both '
        'neighbouring elements, so no float-rounding tolerance is needed anywhere else (smallest non-zero distance '
        'between an alpha and a cumulative weight in the alphabets is > 1e-7)',
        'rescaling invariance demanded bit-exactly for c in {2,1/4,8} always, for c in {3,1/10} only when alpha is '
        '>= 1e-9 away from every cumulative weight',
        'x and weights are numpy arrays (float and int dtypes), 1-D; all-zero weights are outside the statement',
        'weighted_var / ESS: exact-rational formula vs float result with rel 1e-11 / abs 1e-12 on integer data '
        '<= 5 and weights <= 3 (x scale); weight vectors with at most one non-zero entry make the unbiased '
        'formula 0/0 and any answer is accepted there',
        'GM density: written-out normal density (solve + slogdet) on a fixed well-conditioned covariance set, '
        'rel 1e-9; points in {-1,0,0.5,2}^d so nothing underflows; only the number of returned values and their '
        'order are demanded, not the ndim of the result',
        'GM rvs: the constraint answers per row through the choice-point explorer (choice 0 = accept = finite '
        'log-density -1.25, 1 = invalid: -inf, and in further trees nan / +inf); after R adversarial rounds every row is accepted (horizon of the retry '
        'loop); oracle = shape (size,)+point shape and the multiset of returned rows is contained in the multiset '
        'of accepted proposed rows (order not demanded); a random_state.choice call count > R+size+3 ends an '
        'execution as non-terminating',
        'a single mixture component in >= 2 dimensions (means of shape (1,d)) is inside the statement '
        '(dimensions 1..k, any number of components)',
    ]
