"""C05 Output pools are transparent: reuse never changes results or re-simulates.  Mode H.

BFS over run histories on one pool (fill, rerun with the same / a larger / a smaller budget, quantile
run, remove a store, replace a downstream node and drop its stores, close+open of an on-disk pool,
contexts that must be refused), for every stored node set of the stated form, in-memory and on-disk
pools.  Every run is compared with the pool-free run of the current model (differential oracle),
operation call counters show that stored nodes are not recomputed, and the pool content is compared
with fresh computations.
"""
import os
import shutil
import tempfile

import numpy as np

from .. import pin
from ..canon import digest
from ..guard import guarded
from ..report import ok, bad

PID = 'C05'
LEVEL = 'model_checking'

CALLS = {}


def _bump(n):
    CALLS[n] = CALLS.get(n, 0) + 1


OBS = np.array([2.0])     # the observed data object itself: operations applied to it are twin computations


def sim(t, batch_size=1, random_state=None):
    _bump('Y')
    return np.asarray(t, dtype=float) + random_state.randint(0, 3, size=batch_size)


def summ(y):
    if y is not OBS:
        _bump('S')
    return np.asarray(y, dtype=float)


def summ2(y):
    if y is not OBS:
        _bump('S')
    return 2.0 * np.asarray(y, dtype=float) - 1.0


def disc(s, observed):
    _bump('d')
    return np.abs(np.asarray(s, dtype=float) - observed[0]).reshape(len(s), -1).sum(axis=1)


def disc2(s, observed):
    _bump('d')
    return ((np.asarray(s, dtype=float) - observed[0]) ** 2).reshape(len(s), -1).sum(axis=1)


def summ_b(y):
    if y is not OBS:
        _bump('S2')
    return 3.0 * np.asarray(y, dtype=float) + 1.0


def disc_b(s, observed):
    _bump('d2')
    return np.abs(np.asarray(s, dtype=float) - observed[0]).reshape(len(s), -1).sum(axis=1)


NEEDED = {'d': {'t', 'Y', 'S', 'd'}, 'd2': {'t', 'Y', 'S2', 'd2'}}    # nodes of the net compiled for a target


def build_model(variant):
    """variant: tuple of applied replacements, subset of ('S', 'd'), applied through become()."""
    import elfi
    m = elfi.ElfiModel(name='pool_model')
    t = elfi.Prior('randint', 0, 5, model=m, name='t')
    Y = elfi.Simulator(sim, t, model=m, name='Y', observed=OBS)
    S = elfi.Summary(summ, Y, model=m, name='S')
    elfi.Discrepancy(disc, S, model=m, name='d')
    # a second branch below the simulator: runs that target 'd' never need it, runs that target 'd2' need it instead
    # of the first branch (a pool that stores S2 then holds batches for some of its stores only)
    S2 = elfi.Summary(summ_b, Y, model=m, name='S2')
    elfi.Discrepancy(disc_b, S2, model=m, name='d2')
    for v in variant:
        apply_become(m, v)
    return m


def apply_become(m, which):
    import elfi
    if which == 'S':
        m['S'].become(elfi.Summary(summ2, m['Y'], model=m, name='S_new'))
    else:
        m['d'].become(elfi.Discrepancy(disc2, m['S'], model=m, name='d_new'))


DESC = {'S': ['S', 'd'], 'd': ['d']}    # node and its descendants


def sample_obs(res):
    return digest(({k: np.asarray(v) for k, v in res.outputs.items()}, float(res.threshold), res.n_sim, res.n_batches))


def run_kwargs(op, bs):
    if op[0] in ('run', 'run_same_obj', 'run2'):
        return dict(n_sim=op[1] * bs)
    if op[0] == 'run_q':
        return dict(quantile=0.5)
    raise KeyError(op)


def n_batches_of(op, bs):
    import math
    if op[0] in ('run', 'run_same_obj', 'run2'):
        return op[1]
    return math.ceil(math.ceil(2 / 0.5) / bs)


class World:
    def __init__(self, cfg, workdir):
        import elfi
        self.cfg = cfg
        self.dir = workdir
        self.variant = ()
        self.m = build_model(())
        stores = list(cfg['sigma']) + (['t'] if cfg['with_params'] else [])
        if cfg['pool'] == 'mem':
            self.pool = elfi.OutputPool(stores)
        else:
            self.pool = elfi.ArrayPool(stores, name='pool', prefix=workdir)
        self.held = 0          # batches 0..held-1 were consumed by some run so far
        self.sampler = None
        self.stale = False     # the pool was opened from a save older than its data files

    def stores_present(self):
        return sorted(k for k in self.pool.stores)

    def enabled(self):
        ops = [('run', 2), ('run', 3), ('run', 5), ('run_q',)]
        if self.cfg.get('branch'):
            ops += [('run2', 2), ('run2', 4)]
        if self.cfg.get('same_obj') and self.sampler is not None:
            ops.append(('run_same_obj', 4))
        for x in self.stores_present():
            if x != 't':
                ops.append(('remove_store', x))
        for w in ('S', 'd'):
            if w not in self.variant:
                ops.append(('become', w))
        if self.cfg['pool'] == 'array':
            ops.append(('reopen',))
            if not self.stale:
                ops.append(('stale_open',))
            else:
                ops.append(('run', 8))       # more batches than the data files of the abandoned pool object hold
        ops += [('refuse_bs',), ('refuse_seed',)]
        if self.cfg['seed'] != 0:
            ops.append(('refuse_seed0',))      # seed 0 is a legal seed that differs from the pool's
        return ops

    def pool_table(self):
        t = {}
        for k, st in self.pool.stores.items():
            if st is None:
                t[k] = {}
                continue
            n = len(st)
            t[k] = {i: np.asarray(st[i]).copy() for i in range(n + 2) if i in st}
        return t

    def apply(self, op, hist_so_far):
        """-> violation tuple or None"""
        import elfi
        cfg = self.cfg
        bs, seed = cfg['bs'], cfg['seed']
        k = op[0]
        what = {'cfg': cfg, 'history': [list(o) for o in hist_so_far]}
        if k in ('run', 'run_q', 'run_same_obj', 'run2'):
            before = self.pool_table()
            CALLS.clear()
            target = 'd2' if k == 'run2' else 'd'
            outs = [('S2' if o == 'S' and target == 'd2' else o) for o in cfg.get('outs', ['S', 'Y'])]
            needed = NEEDED[target]
            if k == 'run_same_obj':
                rej = self.sampler
            else:
                rej = elfi.Rejection(self.m, target, output_names=list(outs), batch_size=bs, seed=seed, pool=self.pool,
                                     max_parallel_batches=1)
                self.sampler = rej if k != 'run2' else None
            res = rej.sample(2, bar=False, **run_kwargs(op, bs))
            calls = dict(CALLS)
            nb = n_batches_of(op, bs)
            # pool-free reference on the current model
            ref_m = build_model(self.variant)
            CALLS.clear()
            ref = elfi.Rejection(ref_m, target, output_names=list(outs), batch_size=bs, seed=seed,
                                 max_parallel_batches=1).sample(2, bar=False, **run_kwargs(op, bs))
            if sample_obs(res) != sample_obs(ref):
                filling = not before or all(not v for v in before.values())
                cls = 'filling' if filling else 'reusing'
                if (not filling and 't' in self.pool.stores and 'Y' not in self.pool.stores and calls.get('Y', 0) > 0):
                    # root-cause class: parameters come from the pool (their draws are skipped) while the simulator
                    # runs again, so it sees a shifted random stream
                    cls = 'parameters-loaded-from-pool-but-simulator-recomputed'
                return ('C05:result-differs-from-pool-free-run:%s' % cls,
                        dict(what, got={k2: np.asarray(v).tolist() for k2, v in res.outputs.items()},
                             ref={k2: np.asarray(v).tolist() for k2, v in ref.outputs.items()}))
            # stored nodes are not recomputed for batches the pool holds
            for x in self.stores_present():
                if x == 't' or x not in needed:
                    continue
                held_x = len(before.get(x, {}))
                exp = max(0, nb - held_x)
                if calls.get(x, 0) > exp:
                    return ('C05:stored-node-recomputed', dict(what, node=x, invoked=calls.get(x, 0), expected=exp,
                                                               held_before=held_x, consumed=nb))
            self.held = max(self.held, nb)
            # pool content: exactly the consumed batches, with freshly computed values
            from elfi.model.elfi_model import ComputationContext
            fresh_m = build_model(self.variant)
            names = self.stores_present()
            bh = elfi.client.BatchHandler(fresh_m, context=ComputationContext(batch_size=bs, seed=seed),
                                          output_names=[n for n in names])
            after = self.pool_table()
            for x in names:
                have = sorted(after[x])
                # a store added when the pool was created holds every batch consumed so far; a batch consumed before
                # the store's node was replaced is dropped together with the store (documented workflow)
                exp_idx = list(range(max(nb, len(before.get(x, {})))))
                if x not in needed:
                    exp_idx = sorted(before.get(x, {}))      # not part of this run's net: untouched
                if have != exp_idx:
                    return ('C05:pool-does-not-hold-exactly-the-consumed-batches', dict(what, node=x, held=have,
                                                                                       expected=exp_idx))
                for i in (have[:nb] if x in needed else have):
                    fresh = np.asarray(bh.compute(i)[x])
                    if not (fresh.shape == after[x][i].shape and np.array_equal(fresh, after[x][i])):
                        sig = 'C05:pool-value-differs-from-fresh-computation'
                        if ('t' in self.pool.stores and 'Y' not in self.pool.stores and calls.get('Y', 0) > 0
                                and i < len(before.get('t', {})) and i not in before.get(x, {})):
                            # same root cause as the known result difference: the batch's parameters came from the pool,
                            # the simulator above this store ran again on a shifted random stream
                            sig += ':parameters-loaded-from-pool-but-simulator-recomputed'
                        return (sig, dict(what, node=x, batch=i,
                                                                                     pool=after[x][i].tolist(),
                                                                                     fresh=fresh.tolist()))
        elif k == 'remove_store':
            st = self.pool.remove_store(op[1])
            if hasattr(st, 'close'):
                st.close()
        elif k == 'become':
            apply_become(self.m, op[1])
            self.variant = self.variant + (op[1],)
            self.sampler = None      # a sampler object copied the model when it was created: it is stale after an edit
            for x in DESC[op[1]]:
                if x in self.pool.stores:
                    st = self.pool.remove_store(x)
                    if hasattr(st, 'close'):
                        st.close()
                    if self.cfg['pool'] == 'array':
                        fn = os.path.join(self.pool.path, x + '.npy')
                        if os.path.exists(fn):
                            os.remove(fn)
        elif k == 'reopen':
            if not self.pool.has_context:
                return None
            name, prefix = self.pool.name, self.pool.prefix
            self.pool.close()
            self.pool = elfi.ArrayPool.open(name, prefix=prefix)
            self.sampler = None
        elif k == 'stale_open':
            # pool restart from a save that is older than the data: save, run two more batches than ever consumed (judged
            # like any run), flush the data, drop the pool object without closing it, open the pool from the disk
            if not self.pool.has_context:
                return None
            import gc
            self.pool.save()
            v = self.apply(('run', self.held + 2), hist_so_far)
            if v:
                return v
            name, prefix = self.pool.name, self.pool.prefix
            self.pool.flush()
            self.sampler = None
            self.pool = None
            gc.collect()
            self.pool = elfi.ArrayPool.open(name, prefix=prefix)
            self.stale = True
        elif k in ('refuse_bs', 'refuse_seed', 'refuse_seed0'):
            if not self.pool.has_context:
                return None
            before = digest(self.pool_table())
            kw = {'refuse_bs': dict(batch_size=bs + 1, seed=seed), 'refuse_seed': dict(batch_size=bs, seed=seed + 1),
                  'refuse_seed0': dict(batch_size=bs, seed=0)}[k]
            try:
                elfi.Rejection(self.m, 'd', pool=self.pool, **kw)
                return ('C05:mismatching-context-accepted:%s' % k[7:].rstrip('0'), what)
            except ValueError:
                pass
            if digest(self.pool_table()) != before:
                return ('C05:refused-context-changed-pool', what)
        else:
            raise KeyError(op)
        return None

    def state(self):
        return digest((self.pool_table(), self.variant, self.held, self.stale,
                       self.sampler is not None and self.cfg.get('same_obj')))

    def close(self):
        try:
            for st in self.pool.stores.values():
                if hasattr(st, 'close'):
                    st.close()
        except Exception:
            pass


def judge(cfg, hist, root):
    from elfi.clients import native
    import elfi.client
    elfi.client.set_client(native.Client())
    pin.reset()
    wd = tempfile.mkdtemp(dir=root)
    w = World(cfg, wd)
    try:
        for i, op in enumerate(hist):
            v = w.apply(tuple(op), hist[:i + 1])
            if v:
                return v, None, None
        return None, w.state(), w.enabled()
    finally:
        w.close()
        shutil.rmtree(wd, ignore_errors=True)


def scratch():
    root = os.environ.get('VMC_SCRATCH')
    if not root:
        root = '/dev/shm' if os.path.isdir('/dev/shm') and os.access('/dev/shm', os.W_OK) else '/var/tmp'
    return root


@guarded('C05')
def run_cfg(case):
    cfg, depth = case['cfg'], case['depth']
    root = tempfile.mkdtemp(prefix='vmc_c05_', dir=scratch())
    n = 0
    states = set()
    seen = set()
    viols = {}
    try:
        with pin.pinned(0):
            frontier = [[('run', 3)]]
            level = 1
            while frontier and level <= depth + 1:
                nxt = []
                for hist in frontier:
                    v, st, en = judge(cfg, hist, root)
                    n += 1
                    if v:
                        # keep exploring the other histories; a violating history is not extended
                        viols.setdefault(v[0], v[1])
                        continue
                    states.add(st)
                    if level <= depth and st not in seen:
                        seen.add(st)
                        for op in en:
                            nxt.append(hist + [op])
                frontier = nxt
                level += 1
    finally:
        shutil.rmtree(root, ignore_errors=True)
    r = ok()
    r.update(evals=n, distinct=n, states=[digest((cfg, s)) for s in states], transitions=n, validated=n,
             outcome_list=[digest(('pool-state', s)) for s in states],
             viols=[[k, v] for k, v in sorted(viols.items())])
    return r


@guarded('C05')
def run_one(case):
    root = tempfile.mkdtemp(prefix='vmc_c05_', dir=scratch())
    try:
        with pin.pinned(0):
            v, st, en = judge(case['cfg'], [tuple(o) for o in case['history']], root)
    finally:
        shutil.rmtree(root, ignore_errors=True)
    return bad(v[0], v[1]) if v else ok()


def simc(t, batch_size=1, random_state=None):
    _bump('Y')
    return np.asarray(t, dtype=float) + random_state.normal(0, 0.5, size=batch_size)


def _bo_model():
    import elfi
    m = elfi.ElfiModel(name='pool_bo')
    t = elfi.Prior('uniform', 0, 4, model=m, name='t')
    Y = elfi.Simulator(simc, t, model=m, name='Y', observed=OBS)
    S = elfi.Summary(summ, Y, model=m, name='S')
    elfi.Discrepancy(disc, S, model=m, name='d')
    return m


@guarded('C05')
def run_bo(case):
    """Bayesian optimisation (parameters of the acquired batches are supplied to the batch, not drawn) over one pool:
    fill, rerun, rerun needing more batches - surrogate evidence equal to the pool-free run, stored nodes not re-run."""
    import elfi
    from .. import models
    models.native_client()

    def bo(pool, n_ev):
        CALLS.clear()
        m = _bo_model()
        kw = dict(batch_size=case['bs'], initial_evidence=case['init'], update_interval=100, bounds={'t': (0, 4)},
                  seed=case['seed'], max_parallel_batches=1)
        if pool is not None:
            kw['pool'] = pool
        b = elfi.BayesianOptimization(m, 'd', **kw)
        b.infer(n_evidence=n_ev, bar=False)
        return (np.asarray(b.target_model.X).copy(), np.asarray(b.target_model.Y).copy()), dict(CALLS)
    with pin.pinned(0):
        stores = list(case['sigma']) + (['t'] if case['with_params'] else [])
        pool = elfi.OutputPool(stores)
        held = 0
        for step, n_ev in enumerate(case['runs']):
            ref, _ = bo(None, n_ev)
            got, calls = bo(pool, n_ev)
            what = {'case': case, 'step': step, 'n_evidence': n_ev}
            if not (np.array_equal(ref[0], got[0]) and np.array_equal(ref[1], got[1])):
                return bad('C05:bo:evidence-differs-from-pool-free-run', dict(what, with_pool=got[0].ravel().tolist(),
                                                                              pool_free=ref[0].ravel().tolist()))
            nb = -(-n_ev // case['bs'])
            for node in case['sigma']:
                fresh = max(0, nb - held)
                if calls.get(node, 0) > fresh:
                    return bad('C05:bo:stored-node-recomputed', dict(what, node=node, calls=calls.get(node, 0),
                                                                     batches_not_in_pool=fresh))
            held = max(held, nb)
            for k in stores:
                if len(pool.stores[k]) != held:
                    return bad('C05:bo:pool-does-not-hold-exactly-the-consumed-batches',
                               dict(what, store=k, batches=len(pool.stores[k]), consumed=held))
    return ok(outcome=digest(got), bo_runs=len(case['runs']))


RUNNERS = {'cfg': run_cfg, 'history': run_one, 'bo': run_bo}


def replay(case):
    return RUNNERS[case['kind']](case)


def run(ctx):
    import itertools
    q = ctx.quick
    depth = 2 if q else 3
    base = ctx.seed * 1000
    cfgs = []
    sigmas = [s for r in (1, 2, 3) for s in itertools.combinations(['Y', 'S', 'd'], r)]
    for sigma in sigmas:
        for wp in (False, True):
            for pool in ('mem', 'array'):
                for bs in (1, 3):
                    for seed in ([base + 1] if q else [base + 1, base + 2]):
                        for outs in (['S', 'Y'], []):
                            if q and outs == [] and (pool == 'array' or bs == 3):
                                continue
                            cfgs.append({'sigma': list(sigma), 'with_params': wp, 'pool': pool, 'bs': bs, 'seed': seed,
                                         'same_obj': (not q) or (pool == 'mem' and bs == 1 and bool(outs)), 'outs': outs})
    # branching configurations: the pool also stores the summary of the second branch
    for sigma in (['Y', 'S', 'S2'], ['S', 'S2'], ['S2'], ['S2', 'd']):
        for wp in (False, True):
            for pool in ('mem', 'array'):
                for bs in ((1,) if q else (1, 3)):
                    cfgs.append({'sigma': list(sigma), 'with_params': wp, 'pool': pool, 'bs': bs, 'seed': base + 1,
                                 'same_obj': False, 'outs': [], 'branch': True})
    cases = [{'kind': 'cfg', 'cfg': c, 'depth': depth} for c in cfgs]

    def post(case, r):
        if r.get('viol') and isinstance(r['viol'].get('detail'), dict) and 'history' in r['viol']['detail']:
            d = r['viol']['detail']
            return {'kind': 'history', 'cfg': d['cfg'], 'history': d['history']}
        return case
    from .. import par

    def fn(case):
        return case, run_cfg(case)
    for i, (case, r) in enumerate(par.pmap(fn, cases, chunksize=1, ordered=True)):
        ctx.record(post(case, r), r, 'histories')
        for sig, detail in r.get('viols') or ():
            ctx.record({'kind': 'history', 'cfg': detail['cfg'], 'history': detail['history']},
                       dict(bad(sig, detail), evals=0), 'histories')
        if i % max(1, len(cases) // 5) == 0:
            ctx.add_sample(case, key=i)
    # Bayesian optimisation over one pool (acquired parameters are supplied to the batch)
    bo_cases = [{'kind': 'bo', 'sigma': list(sigma), 'with_params': wp, 'bs': bs, 'init': init, 'seed': base + 1, 'runs': runs}
                for sigma in (['Y'], ['Y', 'd'], ['S', 'd'], ['d'])
                for wp in (False, True) for bs in (1, 2) for init in (2, 4)
                for runs in ([6, 6], [6, 8], [6, 4, 8])
                if not (q and (bs == 2 and init == 4))]
    ctx.run_cases(run_bo, bo_cases, 'bo-over-a-pool', chunksize=1)
    ctx.add_sample({'history': [['run', 3], ['become', 'S'], ['run', 5]], 'note': 'fill, replace the summary and drop the '
                    'stores of S and d, rerun needing more batches than stored'}, key='ex')
    ctx.extra['depth_after_fill'] = depth
    ctx.rule = ('per configuration (stored node set: every non-empty subset of {simulator, summary, discrepancy}, optionally '
                'plus all parameters; in-memory | on-disk pool; batch_size; seed; extra requested outputs {summary, simulator} or none; plus branching configurations whose pool also stores the summary of a second branch and whose runs alternate between two target discrepancies) BFS over histories of depth <= %d after the '
                'filling run over {run with 2/3/5 batches, quantile run, remove a store, replace summary|discrepancy via become '
                'and drop its stores, close+open (on-disk), open from a save older than the data files (on-disk), refused contexts%s}; canonical-state dedup on (pool content, model '
                'variant); every history distinct; bo-over-a-pool: BayesianOptimization (real GP, default acquisition) fill / rerun / longer rerun over in-memory pools for stored sets x with/without parameters x batch_size x initial evidence: evidence equal to the pool-free run, stored nodes not re-run, stores hold the consumed batches' % (depth, '' if q else ', rerun on the same sampler object'))
    ctx.assumptions += [
        'stored sets of the form in the statement only: a parameter-only store set legitimately changes the random stream',
        'after replacing a node with become() the stores of that node and of its descendants are dropped (documented workflow)',
        'fresh sampler object per run, plus reruns on the same sampler object (quick: in-memory pools with batch_size 1 only); max_parallel_batches=1, in-process client',
        'pool-free reference = the same seeded run on a freshly built copy of the current model',
    ]
