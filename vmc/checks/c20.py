"""C20 BSL: the synthetic likelihoods and the Metropolis-Hastings step are the stated ones.  Modes P + E.

Sections
  lik-standard : gaussian_syn_likelihood on explicit integer-ish matrices x ssy grids x whitening x shrinkage
                 (Warton with the code base's penalty convention, glasso only at penalty 0) against the
                 Gaussian log density of the (whitened, shrunk) sample moments.
  lik-unbiased : gaussian_syn_likelihood_ghurye_olkin against Price et al. (2018) eq. 5 (incl. psi = 0 when its
                 argument is not positive definite).
  lik-misspec  : syn_likelihood_misspec (mean / variance adjustment) against Frazier & Drovandi (2021).
  lik-semiparam: semi_param_kernel_estimate (no whitening) against An et al. (2020) - the fourth member of the
                 BSL likelihood family; it is not named in the property statement, see assumptions.
  transform    : BSL._para_logit_transform / _para_logit_back_transform / _jacobian_logit_transform on every
                 tuple of bound-row types: round trips, containment, log-Jacobian == log|d back/dy| (central
                 differences of the implementation's own back-transform) == closed form.
  mh-ratio     : a BSL object made by its constructor, chain state arrays filled by the harness,
                 _get_mh_ratio() against posterior ratio x Jacobian ratio at the *transformed* points.
  mh-process   : same object, a proposal in place, _process_simulated() with a scripted likelihood:
                 accept iff u < min(1, ratio), bookkeeping of the accepted / rejected row.
  mh-step      : mode E - the environment (proposal step, simulation finite or not, round log-likelihood; the
                 uniform comes from a real RandomState) answers through vmc.explore; _init_round() and update()
                 are driven from a harness-filled post-initialisation state; every answer sequence up to the
                 chain length is executed and compared with a 20-line reference Metropolis.
  mh-chain     : mode E on the real BSL.sample() loop (real client, counting simulator): chain == reference,
                 simulator invocations == rounds whose proposal was inside the prior support (+ the initial one).
"""
import itertools
import math

import numpy as np

from .. import explore
from ..canon import digest, jsonable
from ..guard import elfi_site
from ..report import ok, bad
from ..ref import c20_ref as R

PID = 'C20'
LEVEL = 'model_checking'


# =============================================================================================== helpers
def _f(x):
    """decode a JSON-able number ('inf' / '-inf' strings allowed)"""
    return float(x)


def _call(fn, *a, **kw):
    """-> ('v', value) or ('exc', signature, info): an exception raised inside the repo is a behaviour."""
    try:
        return ('v', fn(*a, **kw))
    except Exception as e:  # noqa
        site = elfi_site(e.__traceback__)
        if site is None:
            raise
        return ('exc', 'C20:exception:%s@%s' % (type(e).__name__, site), repr(e)[:300])


def _scalar(v):
    """likelihood return value -> float (the functions return a float, a 0-d or a size-1 array)"""
    a = np.asarray(v, dtype=float)
    if a.size != 1:
        raise ValueError('likelihood returned %d values' % a.size)
    return float(a.reshape(-1)[0])


def _close(got, ref, tol):
    if ref == -math.inf or got == -math.inf:
        return got == ref
    if got != got:
        return False
    return abs(got - ref) <= tol


def _result(n, distinct, outcome, **cnt):
    r = ok(outcome=outcome, **cnt)
    r.update(evals=n, distinct=distinct)
    return r


# =============================================================================================== inputs
FIXED = {
    # hand-written, always explored (seed independent): n x 3, the first d columns are used
    5: [[1, 2, 0], [2, 0, 3], [4, 3, 1], [0, 1, 4], [3, 4, 2]],
    6: [[1, 2, 0], [2, 0, 3], [4, 3, 1], [0, 1, 4], [3, 4, 2], [5, 2, 2]],
    8: [[1, 2, 0], [2, 1, 3], [3, 5, 1], [4, 3, 2], [0, 1, 4], [2, 2, 2], [5, 0, 1], [1, 4, 3]],
    20: [[(7 * i * i + 3 * i) % 11 - 5, (5 * i + (i * i) % 7) % 9 - 4, (i * i * i + 2 * i) % 13 - 6] for i in range(20)],
}


def _well_conditioned(X):
    if X.shape[1] == 1:
        return float(np.var(X[:, 0], ddof=1)) >= 0.5
    S = np.cov(X, rowvar=False)
    ev = np.linalg.eigvalsh(S)
    return bool(np.diag(S).min() >= 0.5 and ev.min() / ev.max() >= 0.04)


def matrices(n, d, k, base, tie_free=False):
    """k explicit matrices: the fixed one and k-1 from enumerated seeds (ill-conditioned draws are skipped
    deterministically).  Integer or half-integer entries."""
    out = []
    X0 = np.array(FIXED[n], dtype=float)[:, :d]
    if tie_free:
        X0 = X0 + 0.07 * np.arange(n)[:, None] * (1 + np.arange(d))[None, :]
    assert _well_conditioned(X0)
    out.append(X0.tolist())
    s = base * 7919 + 101 * n + 13 * d
    while len(out) < k:
        rs = np.random.RandomState(s)
        s += 1
        if tie_free:
            X = np.column_stack([rs.permutation(n) * 0.75 + 0.25 * j for j in range(d)]).astype(float)
            X = X + 0.01 * X ** 2
        else:
            X = rs.randint(-4, 5, size=(n, d)).astype(float)
            if len(out) % 2 == 0:
                X = X / 2.0 + 1.5
        if _well_conditioned(X):
            out.append(X.tolist())
    return out


def ssy_grid(X, offsets, far=False):
    """grid around the column means rounded to halves (+ optional far points along the axes / diagonal)"""
    X = np.asarray(X, dtype=float)
    d = X.shape[1]
    c = np.round(2 * X.mean(axis=0)) / 2
    pts = [list(c + np.array(o)) for o in itertools.product(offsets, repeat=d)]
    if far:
        sd = X.std(axis=0, ddof=1)
        for mult in (1.5, 3.0, 6.0, 12.0):
            e = np.zeros(d)
            e[0] = mult * math.sqrt(len(X)) * sd[0]
            pts.append(list(c + e))
            pts.append(list(c - mult * math.sqrt(len(X)) * sd))
    return pts


def whitening_matrix(name, d):
    if name is None:
        return None
    if name == 'I':
        return np.eye(d)
    if name == 'rot':   # a fixed rotation-scale (invertible, well conditioned)
        W = np.array([[1.6, 0.9, 0.0], [-0.45, 0.8, 0.3], [0.2, -0.5, 1.25]])
        return W[:d, :d].copy()
    raise KeyError(name)


# =============================================================================================== lik-standard
def _std_sub(X, y, yshape, wname, shrink):
    """one sub-case -> None or (signature, detail)"""
    from elfi.methods.bsl import pdf_methods as pm
    d = X.shape[1]
    W = whitening_matrix(wname, d)
    yy = np.array(y, dtype=float)
    if yshape == 'row':
        yy = yy.reshape(1, -1)
    kw = {}
    if W is not None:
        kw['whitening'] = W
    if shrink is not None:
        kw['shrinkage'] = shrink[0]
        kw['penalty'] = float(shrink[1])
        if shrink[0] == 'glasso':
            kw['standardise'] = bool(shrink[2])
    r = _call(pm.gaussian_syn_likelihood, X.copy(), yy, **kw)
    if r[0] == 'exc':
        return r[1], {'exception': r[2]}
    got = _scalar(r[1])
    if shrink is not None and shrink[0] == 'glasso':
        # only consistency at penalty 0: the estimate must be the unshrunk likelihood
        ref, tol = R.standard_ref(X, y, W, None, None)
        tol = 1e-8 * max(1.0, abs(ref))
        if not _close(got, ref, tol):
            sig = 'C20:standard:glasso-penalty-0-differs-from-unshrunk'
            if shrink[2]:
                sig = 'C20:standard:glasso-standardise-covariance-not-rescaled'
            return sig, {'got': got, 'expected': ref}
        return None
    ref, tol = R.standard_ref(X, y, W, shrink[0] if shrink else None, float(shrink[1]) if shrink else None)
    if not _close(got, ref, tol):
        part = 'warton' if shrink else ('whitening' if W is not None else 'plain')
        return 'C20:standard:%s-mismatch' % part, {'got': got, 'expected': ref, 'tol': tol}
    return None


def run_standard(case):
    X = np.array(case['ssx'], dtype=float)
    d = X.shape[1]
    shrink = case.get('shrink')
    ys = [case['ssy']] if 'ssy' in case else ssy_grid(X, case['offsets'])
    shapes = [case['yshape']] if 'yshape' in case else ['vec', 'row']
    n = 0
    vals = []
    for y in ys:
        for sh in shapes:
            n += 1
            v = _std_sub(X, y, sh, case.get('whitening'), shrink)
            if v:
                w = dict(case, ssy=list(y), yshape=sh)
                w.pop('offsets', None)
                return bad(v[0], dict(v[1], witness_case=w))
        vals.append(y)
    return _result(n, n, digest((case['ssx'], case.get('whitening'), shrink)), std_calls=n)


# =============================================================================================== lik-unbiased
def _go_sub(X, y, yshape):
    from elfi.methods.bsl import pdf_methods as pm
    n, d = X.shape
    yy = np.array(y, dtype=float)
    if yshape == 'row':
        yy = yy.reshape(1, -1)
    ref, margin = R.ghurye_olkin_ref(X, y)
    if abs(margin) < 1e-6:
        return 'skip'
    r = _call(pm.gaussian_syn_likelihood_ghurye_olkin, X.copy(), yy)
    if r[0] == 'exc':
        return r[1], {'exception': r[2]}
    got = _scalar(r[1])
    tol = 1e-8 * max(1.0, abs(ref) if np.isfinite(ref) else 1.0, 0.5 * n * (n - 1))
    if _close(got, ref, tol):
        return None
    info = {'got': got, 'expected': ref, 'n': n, 'd': d, 'psi_margin': margin}
    if ref == -math.inf:
        return 'C20:ghurye-olkin:finite-value-although-psi-not-positive-definite', info
    if got == -math.inf and d == 1:
        return 'C20:ghurye-olkin:single-summary-gives-minus-inf', info
    off = 0.5 * (n - d - 2) * (d - 1) * math.log(n - 1)
    if np.isfinite(got) and abs((got - ref) - off) <= 1e-7 * max(1.0, abs(off)):
        info['offset'] = off
        return 'C20:ghurye-olkin:logdet-of-scaled-covariance-misses-factor-d', info
    return 'C20:ghurye-olkin:formula-mismatch', info


def run_unbiased(case):
    X = np.array(case['ssx'], dtype=float)
    ys = [case['ssy']] if 'ssy' in case else ssy_grid(X, case['offsets'], far=True)
    shapes = [case['yshape']] if 'yshape' in case else ['vec', 'row']
    n = skipped = ninf = 0
    for y in ys:
        for sh in shapes:
            v = _go_sub(X, y, sh)
            if v == 'skip':
                skipped += 1
                continue
            n += 1
            if v:
                w = dict(case, ssy=list(y), yshape=sh)
                w.pop('offsets', None)
                return bad(v[0], dict(v[1], witness_case=w))
        if R.ghurye_olkin_ref(X, y)[0] == -math.inf:
            ninf += 1
    return _result(n, n, digest(case['ssx']), go_calls=n, go_psi_not_pd_points=ninf, go_skipped_near_singular=skipped)


# =============================================================================================== lik-misspec
def run_misspec(case):
    from elfi.methods.bsl import pdf_methods as pm
    X = np.array(case['ssx'], dtype=float)
    d = X.shape[1]
    adj = case['adjustment']
    ys = [case['ssy']] if 'ssy' in case else ssy_grid(X, case['offsets'])
    gs = [case['gamma']] if 'gamma' in case else [list(g) for g in itertools.product(case['gammas'], repeat=d)]
    n = 0
    for y in ys:
        for g in gs:
            n += 1
            w = dict(case, ssy=list(y), gamma=list(g))
            w.pop('offsets', None)
            w.pop('gammas', None)
            # the sampler passes its observed row (1, d) and a gamma vector of length d
            r = _call(pm.syn_likelihood_misspec, X.copy(), np.array(y, dtype=float).reshape(1, -1),
                      np.array(g, dtype=float), adj)
            if r[0] == 'exc':
                return bad(r[1], {'exception': r[2], 'witness_case': w})
            got = _scalar(r[1])
            ref, tol = R.misspec_ref(X, y, g, adj)
            if not _close(got, ref, tol):
                return bad('C20:misspec:%s-adjustment-mismatch' % adj, {'got': got, 'expected': ref, 'witness_case': w})
    return _result(n, n, digest((case['ssx'], adj)), misspec_calls=n)


# =============================================================================================== lik-semiparam
def run_semiparam(case):
    from elfi.methods.bsl import pdf_methods as pm
    X = np.array(case['ssx'], dtype=float)
    shrink = case.get('shrink')
    ys = [case['ssy']] if 'ssy' in case else ssy_grid(X, case['offsets'])
    n = 0
    for y in ys:
        n += 1
        w = dict(case, ssy=list(y))
        w.pop('offsets', None)
        kw = {}
        if shrink is not None:
            kw = {'shrinkage': shrink[0], 'penalty': float(shrink[1])}
        r = _call(pm.semi_param_kernel_estimate, X.copy(), np.array(y, dtype=float).reshape(1, -1), **kw)
        if r[0] == 'exc':
            return bad(r[1], {'exception': r[2], 'witness_case': w})
        got = _scalar(r[1])
        ref, tol = R.semiparam_ref(X, y, shrink[0] if shrink else None, float(shrink[1]) if shrink else None)
        if not _close(got, ref, tol):
            return bad('C20:semiparam:%s-mismatch' % ('warton' if shrink else 'plain'),
                       {'got': got, 'expected': ref, 'witness_case': w})
    return _result(n, n, digest((case['ssx'], shrink)), semiparam_calls=n)


# =============================================================================================== transform
ROWS_QUICK = [[0, 4], [-1, 5], [0, 'inf'], ['-inf', 4], ['-inf', 'inf']]
ROWS_MORE = [[2, 2.5], [-3, 'inf'], ['-inf', 0], [-10, -9.5]]


def _bound(rows):
    return np.array([[_f(a), _f(b)] for a, b in rows], dtype=float)


def theta_grid_row(a, b, fine=False):
    t = R.row_type(a, b)
    if t == 'two-sided':
        fr = (0.1, 0.5, 0.9, 0.999) + ((0.001, 0.3) if fine else ())
        return [a + (b - a) * f for f in fr]
    if t == 'lower-only':
        return [a + v for v in ((0.01, 1.0, 30.0) + ((0.5, 4.0) if fine else ()))]
    if t == 'upper-only':
        return [b - v for v in ((0.01, 1.0, 30.0) + ((0.5, 4.0) if fine else ()))]
    return [-7.0, 0.0, 2.5] + ([0.3] if fine else [])


Y_GRID = (-3.0, -0.5, 0.0, 1.0, 4.0)
Y_GRID_MORE = (-8.0, 0.25, 8.0)


def _transform_sub(bound, kind, point, shape):
    """kind 'theta': round trip + forward; kind 'y': round trip + containment + Jacobian."""
    import elfi
    B = elfi.BSL
    p = len(bound)
    x = np.array(point, dtype=float)
    arg = x.reshape(1, -1) if shape == 'row' else x
    if kind == 'theta':
        r = _call(B._para_logit_transform, arg.copy(), bound.copy())
        if r[0] == 'exc':
            return r[1], {'exception': r[2]}
        y = np.asarray(r[1], dtype=float).reshape(-1)
        if len(y) != p or not np.all(np.isfinite(y)):
            return 'C20:transform:forward-not-finite', {'forward': y}
        r = _call(B._para_logit_back_transform, y.copy(), bound.copy())
        if r[0] == 'exc':
            return r[1], {'exception': r[2]}
        xb = np.asarray(r[1], dtype=float).reshape(-1)
        if not np.allclose(xb, x, rtol=1e-12, atol=1e-12):
            return 'C20:transform:back-of-forward-is-not-identity', {'back': xb, 'theta': x}
        return None
    r = _call(B._para_logit_back_transform, arg.copy(), bound.copy())
    if r[0] == 'exc':
        return r[1], {'exception': r[2]}
    th = np.asarray(r[1], dtype=float).reshape(-1)
    if len(th) != p or not all(a < t < b for t, (a, b) in zip(th, bound)):
        return 'C20:transform:back-transform-leaves-the-bounds', {'back': th}
    r = _call(B._para_logit_transform, th.copy(), bound.copy())
    if r[0] == 'exc':
        return r[1], {'exception': r[2]}
    y2 = np.asarray(r[1], dtype=float).reshape(-1)
    if not np.allclose(y2, x, rtol=0, atol=1e-9):
        return 'C20:transform:forward-of-back-is-not-identity', {'forward': y2, 'y': x}
    r = _call(B._jacobian_logit_transform, arg.copy(), bound.copy())
    if r[0] == 'exc':
        return r[1], {'exception': r[2]}
    lj = _scalar(r[1])
    back = lambda v, b: B._para_logit_back_transform(np.asarray(v, dtype=float), np.array(b, dtype=float))  # noqa
    num = R.logjac_numeric5(back, x, bound)
    if abs(lj - num) > 1e-7 * max(1.0, abs(num)):
        types = sorted(set(R.row_type(a, b) for (a, b), v in zip(bound, x)
                           if abs(R.logjac_numeric5(back, [v], [(a, b)]) -
                                  _scalar(B._jacobian_logit_transform(np.array([v]), np.array([[a, b]])))) > 1e-7))
        return ('C20:transform:log-jacobian-is-not-the-derivative-of-the-back-transform:' + '+'.join(types or ['sum']),
                {'log_jacobian': lj, 'numeric_derivative_of_back_transform': num})
    return None


def run_transform(case):
    bound = _bound(case['rows'])
    fine = bool(case.get('fine'))
    if 'point' in case:
        subs = [(case['pkind'], case['point'], case['shape'])]
    else:
        tg = itertools.product(*[theta_grid_row(a, b, fine) for a, b in bound])
        yg = itertools.product(*[Y_GRID + (Y_GRID_MORE if fine else ()) for _ in bound])
        subs = [('theta', list(t), s) for t in tg for s in ('vec', 'row')] + \
               [('y', list(y), s) for y in yg for s in ('vec', 'row')]
    n = 0
    for kind, pt, shape in subs:
        n += 1
        v = _transform_sub(bound, kind, pt, shape)
        if v:
            return bad(v[0], dict(v[1], witness_case={'kind': 'transform', 'rows': case['rows'], 'pkind': kind,
                                                      'point': pt, 'shape': shape}))
    return _result(n, n, digest(case['rows']), transform_points=n)


# =============================================================================================== MH: toy model
OFFS = np.array([0.0, 1.0, -1.0, 0.5])
STEPS = [0.5, -1.25, 3.0, -2.5]            # proposal steps (in proposal space); choice 0 = default answer
LLS = [0.0, -2.0, 1.0, '-inf']             # round log-likelihoods; choice 0 = default answer
THETA0 = 2.0
SUPPORT = (0.0, 4.0)
_ENV = [None]
SIG_L8 = 'C20:mh-ratio:jacobian-evaluated-at-untransformed-parameters'
SIG_SIGN = 'C20:transform:log-jacobian-is-not-the-derivative-of-the-back-transform:upper-only'


def sim_det(*ts, batch_size=1, random_state=None):
    """deterministic counting simulator: first parameter + fixed offsets (inf when the environment says so)"""
    from .. import models
    models._bump('sim')
    t = np.asarray(ts[0], dtype=float).reshape(-1)
    out = (t + OFFS[:batch_size]) if len(t) == batch_size else (t[0] + OFFS[:batch_size])
    env = _ENV[0]
    if env is not None and not env.sim_answer():
        out = out.copy()
        out[0] = np.inf
    return out


def summ(y):
    return y


def build_model(p=1, prior='uniform'):
    import elfi
    m = elfi.ElfiModel(name='c20_%d_%s' % (p, prior))
    ps = []
    for i in range(p):
        name = 't' if p == 1 else 't%d' % (i + 1)
        if prior == 'uniform':
            ps.append(elfi.Prior('uniform', 0, 4, model=m, name=name))
        else:   # truncated normal on [0,4]: loc 1, scale 2
            ps.append(elfi.Prior('truncnorm', -0.5, 1.5, 1, 2, model=m, name=name))
    Y = elfi.Simulator(sim_det, *ps, model=m, name='Y', observed=np.array([2.0]))
    elfi.Summary(summ, Y, model=m, name='S')
    return m


def logprior_ref(theta, prior):
    import scipy.stats as ss
    if prior == 'uniform':
        return float(ss.uniform.logpdf(theta, 0, 4))
    return float(ss.truncnorm.logpdf(theta, -0.5, 1.5, 1, 2))


def _typed(v, ret):
    v = _f(v)
    if ret == 'array1':        # what gaussian_syn_likelihood & co. return
        return np.array([v])
    if ret == 'float':         # what syn_likelihood_misspec returns
        return np.float64(v)
    raise KeyError(ret)


def ratio_variant(lp_cur, lp_prev, th_cur, th_prev, bound, at='transformed', flip_upper=False):
    """models of the two known ways to get the Jacobian term wrong (used only to *name* a mismatch)"""
    def lj(pt):
        s = 0.0
        for v, (a, b) in zip(pt, bound):
            t = R.row_type(a, b)
            if t == 'two-sided':
                s += math.log(b - a) - abs(v) - 2.0 * math.log1p(math.exp(-abs(v)))
            elif t == 'lower-only':
                s += v
            elif t == 'upper-only':
                s += v if flip_upper else -v
        return s
    a = R.fwd_closed(th_cur, bound) if at == 'transformed' else np.asarray(th_cur, dtype=float)
    b = R.fwd_closed(th_prev, bound) if at == 'transformed' else np.asarray(th_prev, dtype=float)
    x = lj(a) - lj(b) + lp_cur - lp_prev
    if x == -math.inf:
        return 0.0
    return math.exp(R.clip700(x))


def classify_ratio(match, lp_cur, lp_prev, th_cur, th_prev, bound):
    """match(ratio) -> bool says whether the implementation's behaviour agrees with that ratio."""
    if bound is not None:
        has_upper = any(R.row_type(a, b) == 'upper-only' for a, b in bound)
        if match(ratio_variant(lp_cur, lp_prev, th_cur, th_prev, bound, 'untransformed', False)) or \
                (has_upper and match(ratio_variant(lp_cur, lp_prev, th_cur, th_prev, bound, 'untransformed', True))):
            return SIG_L8
        if has_upper and match(ratio_variant(lp_cur, lp_prev, th_cur, th_prev, bound, 'transformed', True)):
            return SIG_SIGN
    return None


def ratio_matches(got, x):
    if x <= 1e-300:
        return 0.0 <= got <= 1e-300
    return abs(got - x) <= 1e-7 * x      # the reference Jacobian is a 5-point numeric derivative


def record_ratio(bsl, sink):
    """instrument the constructed object: every value _get_mh_ratio returns is appended to sink"""
    orig = getattr(bsl, '_get_mh_ratio', None)
    if orig is None:
        return

    def wrapped(*a, **kw):
        r = orig(*a, **kw)
        sink(_scalar(r))
        return r
    bsl._get_mh_ratio = wrapped


def _bind_transform():
    """Metropolis-Hastings references are built on the implementation's own (separately validated) bijection."""
    import elfi
    fwd = getattr(elfi.BSL, '_para_logit_transform', None)
    back = getattr(elfi.BSL, '_para_logit_back_transform', None)
    if fwd is not None and back is not None:
        R.use_implementation_transform(fwd, back)


def make_bsl(cfg, likelihood=None, n_sim_round=2, batch_size=2, p=1):
    import elfi
    _bind_transform()
    m = build_model(p, cfg.get('prior', 'uniform'))
    names = ['t'] if p == 1 else ['t%d' % (i + 1) for i in range(p)]
    bsl = elfi.BSL(m, n_sim_round, feature_names=['S'], likelihood=likelihood, batch_size=batch_size,
                   seed=cfg.get('seed', 0))
    return m, bsl, names


def fill_chain_state(bsl, thetas, logpriors, logposts, n_samples_done, N=None):
    """the layout BSL._init_state creates, filled by the harness"""
    thetas = np.atleast_2d(np.asarray(thetas, dtype=float))
    N = N or len(thetas)
    k = thetas.shape[1]
    bsl.state['params'] = np.zeros((N, k))
    bsl.state['params'][:len(thetas)] = thetas
    bsl.state['logprior'] = np.zeros(N)
    bsl.state['logprior'][:len(logpriors)] = logpriors
    bsl.state['logposterior'] = np.zeros(N)
    bsl.state['logposterior'][:len(logposts)] = logposts
    bsl.state['n_samples'] = n_samples_done
    bsl.num_accepted = 1


# =============================================================================================== mh-ratio
LP_PREV = [0.0, -2.0, 1.0]
LP_CUR = [0.0, -2.0, 1.0, '-inf', 800.0, -800.0]


def _ratio_sub(bsl, bound, th_prev, th_cur, lp_prev, lp_cur):
    fill_chain_state(bsl, [th_prev, th_cur], [0.0, 0.0], [lp_prev, lp_cur], 1)
    r = _call(bsl._get_mh_ratio)
    if r[0] == 'exc':
        return r[1], {'exception': r[2]}
    got = _scalar(r[1])
    ref = R.mh_ratio_ref(lp_cur, lp_prev, th_cur, th_prev, bound)

    def match(x):
        return ratio_matches(got, x)
    if match(ref):
        return None
    sig = classify_ratio(match, lp_cur, lp_prev, th_cur, th_prev, bound) or 'C20:mh-ratio:mismatch'
    return sig, {'got': got, 'expected': ref}


def run_ratio(case):
    rows = case.get('rows')
    bound = _bound(rows) if rows is not None else None
    p = len(rows) if rows is not None else case.get('p', 1)
    _, bsl, _ = make_bsl({'prior': 'uniform'}, p=p)
    bsl.logit_transform_bound = np.array(bound) if bound is not None else None
    if 'sub' in case:
        subs = [tuple(case['sub'])]
    else:
        grid_rows = bound if bound is not None else [(-np.inf, np.inf)] * p
        tg = [list(t) for t in itertools.product(*[theta_grid_row(a, b)[:3] for a, b in grid_rows])]
        subs = [(a, b, lp, lc) for a in tg for b in tg for lp in LP_PREV for lc in LP_CUR]
    n = 0
    for th_prev, th_cur, lp, lc in subs:
        n += 1
        v = _ratio_sub(bsl, bound, th_prev, th_cur, _f(lp), _f(lc))
        if v:
            w = {'kind': 'ratio', 'rows': rows, 'p': p, 'sub': [th_prev, th_cur, lp, lc]}
            return bad(v[0], dict(v[1], witness_case=w))
    return _result(n, n, digest(rows), ratio_calls=n)


# =============================================================================================== mh-process
class RecordingStream:
    """a real RandomState whose draws are recorded (the oracle needs u, not a particular stream discipline)"""

    def __init__(self, seed):
        self.real = np.random.RandomState(seed)
        self.us = []

    def uniform(self, *a, **kw):
        u = self.real.uniform(*a, **kw)
        self.us.append(float(u))
        return u

    def __getattr__(self, name):
        return getattr(self.real, name)


def _judge_decision(us, ratio):
    """-> 'accept' | 'reject' | 'either' (tie or unrecognised use of randomness) for acceptance prob min(1,ratio)"""
    prob = min(1.0, ratio)
    if len(us) == 0:
        if ratio >= 1.0:
            return 'accept'
        if ratio <= 1e-300:
            return 'reject'
        return 'nodraw'
    if len(us) > 1:
        return 'either'
    u = us[0]
    if abs(u - prob) <= 1e-9 * max(prob, 1e-300):
        return 'either'
    return 'accept' if u < prob else 'reject'


def _process_sub(cfg, bsl, bound, prior, th_prev, th_cur, ll_prev, ll_cur, finite, state_box):
    lp_prev = logprior_ref(th_prev, prior)
    lp_cur = logprior_ref(th_cur, prior)
    N = 3
    fill_chain_state(bsl, [[th_prev], [th_cur]], [lp_prev, lp_cur], [ll_prev + lp_prev], 1, N=N)
    bsl.burn_in = 0
    bsl.simulated = np.array([[th_cur + OFFS[0]], [th_cur + OFFS[1]]])
    if not finite:
        bsl.simulated[0, 0] = np.inf
    state_box['ll'] = ll_cur
    state_box['asked'] = 0
    stream = bsl.random_state
    stream.us = []
    state_box['ratios'] = []
    r = _call(bsl._process_simulated)
    if r[0] == 'exc':
        return r[1], {'exception': r[2]}
    ll_eff = ll_cur if finite else -math.inf
    if finite and state_box['asked'] != 1:
        return 'C20:mh-step:likelihood-not-evaluated-once-per-round', {'asked': state_box['asked']}
    if not finite and state_box['asked'] != 0 and not np.isfinite(ll_cur):
        pass
    ratio = R.mh_ratio_ref(ll_eff + lp_cur, ll_prev + lp_prev, [th_cur], [th_prev], bound)
    want = _judge_decision(stream.us, ratio)
    for got_ratio in state_box['ratios']:
        if not ratio_matches(got_ratio, ratio):
            sig = classify_ratio(lambda x: ratio_matches(got_ratio, x), ll_eff + lp_cur, ll_prev + lp_prev,
                                 [th_cur], [th_prev], bound) or 'C20:mh-ratio:mismatch'
            return sig, {'got': got_ratio, 'expected': ratio}
    st = bsl.state
    row = (float(st['params'][1, 0]), float(st['logprior'][1]), float(st['logposterior'][1]))
    acc_row = (th_cur, lp_cur, ll_eff + lp_cur)
    rej_row = (th_prev, lp_prev, ll_prev + lp_prev)

    def same(a, b):
        return all((x == y) or abs(x - y) <= 1e-12 * max(1.0, abs(y)) for x, y in zip(a, b))
    info = {'row': row, 'accepted_row_would_be': acc_row, 'rejected_row_would_be': rej_row, 'ratio': ratio,
            'u': stream.us}
    if st['n_samples'] != 2:
        return 'C20:mh-step:chain-index-not-advanced-by-one', dict(info, n_samples=int(st['n_samples']))
    if want == 'nodraw':
        return 'C20:mh-step:no-uniform-drawn-for-a-probabilistic-decision', info
    is_acc, is_rej = same(row, acc_row), same(row, rej_row)
    if not (is_acc or is_rej):
        return 'C20:mh-step:row-is-neither-the-proposal-nor-the-previous-state', info
    if want == 'either' or (is_acc and is_rej):
        return None
    if (want == 'accept') != is_acc:
        return 'C20:mh-step:acceptance-differs-from-u-below-min-1-ratio', dict(info, expected=want)
    return 'acc' if is_acc else 'rej'


def run_process(case):
    rows = case.get('rows')
    bound = _bound(rows) if rows is not None else None
    prior = case.get('prior', 'uniform')
    box = {}

    def lik(ssx, ssy):
        box['asked'] += 1
        return _typed(box['ll'], case['ret'])
    _, bsl, _ = make_bsl({'prior': prior}, likelihood=lik)
    bsl.logit_transform_bound = np.array(bound) if bound is not None else None
    bsl.random_state = RecordingStream(case['useed'])
    record_ratio(bsl, lambda v: box['ratios'].append(v))
    if 'sub' in case:
        subs = [tuple(case['sub'])]
    else:
        lo, hi = SUPPORT
        if bound is not None:
            lo, hi = max(lo, bound[0, 0]), min(hi, bound[0, 1])
        tg = [lo + (hi - lo) * f for f in (0.1, 0.5, 0.9)]
        subs = [(a, b, lp, lc, fin) for a in tg for b in tg if a != b for lp in LLS[:3] for lc in LLS
                for fin in (True, False)]
    n = acc = rej = 0
    for k, (a, b, lp, lc, fin) in enumerate(subs):
        n += 1
        if 'sub' in case:
            # replay of one sub-case: advance the stream to the position it had in the enumeration
            for _ in range(int(case.get('stream_pos', 0))):
                bsl.random_state.real.uniform()
        pos = len(bsl.random_state.us)
        total_before = box.get('drawn', 0)
        v = _process_sub(case, bsl, bound, prior, a, b, _f(lp), _f(lc), fin, box)
        box['drawn'] = total_before + len(bsl.random_state.us)
        if isinstance(v, tuple):
            w = dict(case, sub=[a, b, lp, lc, fin], stream_pos=total_before)
            return bad(v[0], dict(v[1], witness_case=w))
        acc += v == 'acc'
        rej += v == 'rej'
    return _result(n, n, digest((rows, prior, case['ret'])), process_calls=n, process_accepted=acc,
                   process_rejected=rej)


# =============================================================================================== mh-step / mh-chain
class Horizon(BaseException):
    pass


class Env:
    """The scripted environment of one execution: proposal steps, simulation finiteness and round
    log-likelihoods are choices; the uniform comes from a real RandomState (recorded)."""

    def __init__(self, ch, cfg):
        self.ch = ch
        self.cfg = cfg
        self.real = np.random.RandomState(cfg['useed'])
        self.events = []
        self.sim_calls_in_round = 0
        self.bpr = cfg['n_sim_round'] // cfg['batch_size']
        self.sim_fin = True

    # --- random_state interface used by BSL
    def multivariate_normal(self, mean, cov, *a, **kw):
        i = self.ch.choose(len(STEPS), 'proposal')
        self.events.append(('prop', i))
        return np.asarray(mean, dtype=float).reshape(-1) + STEPS[i]

    def uniform(self, *a, **kw):
        u = float(self.real.uniform())
        self.events.append(('u', u))
        return u

    # --- simulator side
    def sim_answer(self):
        if self.sim_calls_in_round == 0:
            i = self.ch.choose(2, 'sim-finite')
            self.events.append(('sim', i))
            self.sim_fin = (i == 0)
        self.sim_calls_in_round = (self.sim_calls_in_round + 1) % self.bpr
        return self.sim_fin

    # --- likelihood
    def likelihood(self, ssx, ssy):
        i = self.ch.choose(len(LLS), 'loglik')
        self.events.append(('ll', i, np.array(ssx, dtype=float).reshape(-1).tolist()))
        return _typed(LLS[i], self.cfg['ret'])


def make_body(cfg):
    """cfg: drive ('steps'|'sample'), rows, prior, ret, useed, N, n_sim_round, batch_size, ll0 (steps only)"""
    from elfi.model.extensions import ModelPrior
    from .. import models
    rows = cfg.get('rows')
    bound = _bound(rows) if rows is not None else None
    N = cfg['N']
    nsr, bs = cfg['n_sim_round'], cfg['batch_size']

    def body(ch):
        env = Env(ch, cfg)
        models.reset_calls()
        m, bsl, names = make_bsl(cfg, likelihood=env.likelihood, n_sim_round=nsr, batch_size=bs)
        bsl.random_state = env
        record_ratio(bsl, lambda v: env.events.append(('ratio', v)))
        obs = {'events': env.events, 'init_error': None}
        if cfg['drive'] == 'sample':
            models.native_client()
            _ENV[0] = env
            try:
                kw = {}
                if rows is not None:
                    kw['logit_transform_bound'] = [[_f(a), _f(b)] for a, b in rows]
                try:
                    res = bsl.sample(N, sigma_proposals=np.array([[1.0]]), params0=[THETA0], bar=False, **kw)
                except RuntimeError as e:
                    if 'initialisation round' not in str(e):
                        raise
                    obs['init_error'] = str(e)
                    return obs
            finally:
                _ENV[0] = None
            obs['result_samples'] = np.asarray(res.samples_array, dtype=float).reshape(-1).tolist() \
                if hasattr(res, 'samples_array') else None
            obs['result_n_sim'] = int(res.n_sim)
            obs['sim_calls'] = int(models.CALLS.get('sim', 0))
        else:
            # what sample() sets up, then the state _init_state and the initial round leave behind
            bsl.sigma_proposals = np.array([[1.0]])
            bsl.param_names = None
            bsl.prior = ModelPrior(m, parameter_names=names)
            bsl.burn_in = 0
            bsl.logit_transform_bound = np.array(bound) if bound is not None else None
            lp0 = logprior_ref(THETA0, cfg.get('prior', 'uniform'))
            fill_chain_state(bsl, [[THETA0]], [lp0], [cfg['ll0'] + lp0], 1, N=N)
            bsl.state.update(n_batches=env.bpr, n_sim=nsr, round=1, n_sim_round=nsr)
            bsl.set_objective(N)
            if bsl.state['round'] < bsl.objective['round']:
                bsl._init_round()
            fed = 0
            while not bsl.finished:
                if fed > 4 * N * env.bpr:
                    raise Horizon()
                idx = env.bpr + fed
                pb = bsl.prepare_new_batch(idx)
                t = np.asarray(pb[names[0]], dtype=float).reshape(-1)
                fin = env.sim_answer()
                y = t[0] + OFFS[:bs]
                if not fin:
                    y = y.copy()
                    y[0] = np.inf
                bsl.update({'S': y}, idx)
                fed += 1
            obs['sim_calls'] = env.bpr + fed
        st = bsl.state
        obs['state_keys'] = sorted(st.keys())
        obs.update(params=np.asarray(st['params'], dtype=float)[:, 0].tolist(),
                   logprior=np.asarray(st['logprior'], dtype=float).tolist(),
                   logposterior=np.asarray(st['logposterior'], dtype=float).tolist(),
                   n_samples=int(st['n_samples']), n_batches=int(st['n_batches']), n_sim=int(st['n_sim']))
        return obs
    return body


def judge_execution(cfg, obs):
    """Reference Metropolis over the recorded environment answers -> None | 'unjudged' | (signature, detail)."""
    rows = cfg.get('rows')
    bound = _bound(rows) if rows is not None else None
    prior = cfg.get('prior', 'uniform')
    N, nsr, bs = cfg['N'], cfg['n_sim_round'], cfg['batch_size']
    bpr = nsr // bs
    ev = list(obs['events'])
    pos = [0]

    def nxt(kind):
        if pos[0] < len(ev) and ev[pos[0]][0] == kind:
            pos[0] += 1
            return ev[pos[0] - 1]
        return None

    def peek():
        return ev[pos[0]][0] if pos[0] < len(ev) else 'end'

    def sims_at(theta):
        return [theta + o for o in OFFS[:bs]] * bpr

    lp0 = logprior_ref(THETA0, prior)
    rounds = 1
    if cfg['drive'] == 'sample':
        e = nxt('sim')
        if e is None:
            return 'C20:mh-step:environment-queried-in-unexpected-order', {'at': 'initial round', 'next': peek()}
        if e[1] == 0:
            e = nxt('ll')
            if e is None:
                return 'C20:mh-step:environment-queried-in-unexpected-order', {'at': 'initial likelihood', 'next': peek()}
            ll0 = _f(LLS[e[1]])
            if not np.allclose(e[2], sims_at(THETA0), rtol=1e-12, atol=1e-12):
                return 'C20:mh-step:simulations-not-made-at-the-candidate-parameters', {'ssx': e[2], 'theta': THETA0}
        else:
            ll0 = -math.inf
        if ll0 == -math.inf:
            # a chain cannot start from a zero-likelihood point; any explicit refusal is accepted
            return None if obs.get('init_error') else ('C20:mh-step:chain-started-from-non-finite-likelihood', {})
        if obs.get('init_error'):
            return 'C20:mh-step:finite-initial-likelihood-refused', {'error': obs['init_error']}
    else:
        ll0 = cfg['ll0']
    th, lpr, lpo = [THETA0], [lp0], [ll0 + lp0]
    trace = []
    for n in range(1, N):
        e = nxt('prop')
        if e is None:
            if peek() in ('sim', 'll') and trace and trace[-1][1] == 'outside':
                return 'C20:mh-step:outside-support-proposal-was-simulated', {'trace': trace}
            return 'C20:mh-step:environment-queried-in-unexpected-order', {'slot': n, 'next': peek(), 'trace': trace}
        step = STEPS[e[1]]
        prev = th[-1]
        prop = prev + step if bound is None else float(R.back_ref(R.fwd_ref([prev], bound) + step, bound)[0])
        if not (SUPPORT[0] <= prop <= SUPPORT[1]):
            th.append(prev), lpr.append(lpr[-1]), lpo.append(lpo[-1])
            trace.append((prop, 'outside'))
            continue
        rounds += 1
        e = nxt('sim')
        if e is None:
            return 'C20:mh-step:inside-support-proposal-not-simulated', {'slot': n, 'next': peek(), 'trace': trace}
        if e[1] == 0:
            e = nxt('ll')
            if e is None:
                return 'C20:mh-step:environment-queried-in-unexpected-order', {'slot': n, 'next': peek()}
            ll = _f(LLS[e[1]])
            if not np.allclose(e[2], sims_at(prop), rtol=1e-10, atol=1e-10):
                return 'C20:mh-step:simulations-not-made-at-the-candidate-parameters', {'ssx': e[2], 'theta': prop}
        else:
            ll = -math.inf
        lp = logprior_ref(prop, prior)
        ratio = R.mh_ratio_ref(ll + lp, lpo[-1], [prop], [prev], bound)
        e = nxt('ratio')
        while e is not None:
            got_ratio = e[1]
            if not ratio_matches(got_ratio, ratio):
                sig = classify_ratio(lambda x: ratio_matches(got_ratio, x), ll + lp, lpo[-1], [prop], [prev], bound) \
                    or 'C20:mh-ratio:mismatch'
                return sig, {'slot': n, 'proposal': prop, 'previous': prev, 'got': got_ratio, 'expected': ratio,
                             'trace': trace}
            e = nxt('ratio')
        us = []
        e = nxt('u')
        while e is not None:
            us.append(e[1])
            e = nxt('u')
        want = _judge_decision(us, ratio)
        got_theta = obs['params'][n] if n < len(obs['params']) else None
        if want == 'nodraw':
            return 'C20:mh-step:no-uniform-drawn-for-a-probabilistic-decision', {'slot': n, 'ratio': ratio}
        if want == 'either':
            return 'unjudged'
        if got_theta is not None:
            is_acc = abs(got_theta - prop) <= 1e-9 * max(1.0, abs(prop))
            is_rej = abs(got_theta - prev) <= 1e-9 * max(1.0, abs(prev))
            if (is_acc != is_rej) and (want == 'accept') != is_acc:
                sig = 'C20:mh-step:acceptance-differs-from-u-below-min-1-ratio'
                return sig, {'slot': n, 'proposal': prop, 'previous': prev, 'ratio': ratio, 'u': us, 'expected': want,
                             'loglik': ll, 'trace': trace}
        if want == 'accept':
            th.append(prop), lpr.append(lp), lpo.append(ll + lp)
        else:
            th.append(prev), lpr.append(lpr[-1]), lpo.append(lpo[-1])
        trace.append((prop, want))
    if pos[0] != len(ev):
        if peek() in ('sim', 'll') and trace and trace[-1][1] == 'outside':
            return 'C20:mh-step:outside-support-proposal-was-simulated', {'trace': trace}
        return 'C20:mh-step:environment-queried-after-the-chain-was-complete', {'next': peek(), 'trace': trace}
    info = {'expected_chain': th, 'got_chain': obs['params'], 'trace': trace}
    if obs['n_samples'] != N:
        return 'C20:mh-step:chain-incomplete', dict(info, n_samples=obs['n_samples'])
    if not np.allclose(obs['params'], th, rtol=1e-9, atol=1e-12):
        k = int(np.argmax(~np.isclose(obs['params'], th, rtol=1e-9, atol=1e-12)))
        if trace[k - 1][1] == 'outside':
            return 'C20:mh-step:outside-support-proposal-not-recorded-as-rejection', info
        return 'C20:mh-step:chain-differs-from-reference-metropolis', info
    if not np.allclose(obs['logposterior'], lpo, rtol=1e-9, atol=1e-9) or \
            not np.allclose(obs['logprior'], lpr, rtol=1e-9, atol=1e-9):
        return 'C20:mh-step:stored-log-densities-differ-from-reference', dict(
            info, logposterior=obs['logposterior'], expected_logposterior=lpo, logprior=obs['logprior'],
            expected_logprior=lpr)
    want_batches = rounds * bpr
    if obs['n_batches'] != want_batches or obs['n_sim'] != want_batches * bs or obs['sim_calls'] != want_batches:
        return 'C20:mh-step:simulation-count-differs-from-supported-proposals', dict(
            info, n_batches=obs['n_batches'], n_sim=obs['n_sim'], sim_calls=obs['sim_calls'],
            expected_batches=want_batches)
    if cfg['drive'] == 'sample':
        if obs.get('result_samples') is not None and not np.allclose(obs['result_samples'], th, rtol=1e-9, atol=1e-12):
            return 'C20:mh-step:returned-sample-differs-from-chain', dict(info, result=obs['result_samples'])
        if obs['result_n_sim'] != want_batches * bs:
            return 'C20:mh-step:simulation-count-differs-from-supported-proposals', dict(info, n_sim=obs['result_n_sim'])
    return None


def _cfg_of(case):
    return {k: case[k] for k in case if k not in ('kind', 'bound', 'choices', 'max_executions')}


def _run_body(body, choices):
    """one execution -> (obs | None, violation | None); exceptions raised inside the repo are behaviours"""
    try:
        run = explore.run_once(body, choices)
    except Horizon:
        return None, ('C20:mh-step:chain-does-not-terminate', {})
    except explore.ReplayDivergence:
        raise
    except Exception as e:  # noqa
        site = elfi_site(e.__traceback__)
        if site is None:
            raise
        return None, ('C20:exception:%s@%s' % (type(e).__name__, site), {'exception': repr(e)[:300]})
    return run, None


def run_tree(case):
    """All answer sequences (optionally with at most `bound` non-default answers) of one configuration."""
    cfg = _cfg_of(case)
    body = make_body(cfg)
    logs, outcomes, states = set(), set(), set()
    cnt = {'unjudged': 0, 'outside_rejections': 0, 'accepts': 0, 'rejects': 0, 'init_refused': 0}
    viols = []
    trans = [0]

    def safe_body(ch):
        # exceptions from the repo must not abort the tree: they become the observation
        try:
            return body(ch)
        except Horizon:
            return {'harness_viol': ('C20:mh-step:chain-does-not-terminate', {})}
        except Exception as e:  # noqa
            site = elfi_site(e.__traceback__)
            if site is None:
                raise
            return {'harness_viol': ('C20:exception:%s@%s' % (type(e).__name__, site), {'exception': repr(e)[:300]})}

    def check(obs, run):
        if 'harness_viol' in obs:
            return obs['harness_viol']
        logs.add(digest([e[:2] for e in obs['events']]))
        v = judge_execution(cfg, obs)
        if v == 'unjudged':
            cnt['unjudged'] += 1
            return None
        if obs.get('init_error'):
            cnt['init_refused'] += 1
            outcomes.add('init-refused')
            return v
        outcomes.add(digest((obs['params'], obs['logposterior'], obs['n_batches'])))
        ps = obs['params']
        for n in range(1, len(ps)):
            states.add(digest((n, ps[n], obs['logposterior'][n])))
        trans[0] += len(obs['events'])
        return v
    if case.get('selftest', True):
        explore.determinism_selftest(safe_body, [])
    st = explore.explore(safe_body, check, bound=case.get('bound'), prune=False,
                         max_executions=case.get('max_executions'))
    res = {'viol': None, 'outcome': None, 'trivial': st['executions'] <= 1,
           'cnt': {'executions': st['executions'], 'choice_points': st['choice_points'], 'capped': int(st['capped']),
                   'distinct_event_logs': len(logs), 'unjudged_ties': cnt['unjudged'],
                   'init_refused': cnt['init_refused']},
           'evals': st['executions'], 'distinct': len(logs), 'transitions': trans[0], 'validated': st.get('complete', 0),
           'states': [digest((jsonable(cfg), s)) for s in states], 'n_outcomes': len(outcomes),
           'outcomes': sorted(outcomes),
           'max_depth': st['max_depth']}
    if st['violations']:
        by_sig = {}
        for v, choices in st['violations']:
            key = (sum(1 for c in choices if c), len(choices), choices)
            if v[0] not in by_sig or key < by_sig[v[0]][0]:
                by_sig[v[0]] = (key, v, choices)
        res['all_viol'] = [(v[0], jsonable(v[1]), ch_) for _, v, ch_ in by_sig.values()]
    return res


def run_path(case):
    """Replay exactly one answer sequence and judge it (replays / witnesses)."""
    cfg = _cfg_of(case)
    run, v = _run_body(make_body(cfg), case['choices'])
    if v:
        return bad(v[0], v[1])
    v = judge_execution(cfg, run.obs)
    if v and v != 'unjudged':
        return bad(v[0], dict(v[1], events=[list(e[:2]) for e in run.obs['events']]))
    return ok(outcome=digest(run.obs.get('params')))


# =============================================================================================== mh-reuse
_REUSE_SIMS = []


def sim_two(t1, t2, batch_size=1, random_state=None):
    t1 = np.broadcast_to(np.asarray(t1, dtype=float).reshape(-1), (batch_size,))
    t2 = np.broadcast_to(np.asarray(t2, dtype=float).reshape(-1), (batch_size,))
    _REUSE_SIMS.append((float(t1[0]), float(t2[0])))
    return np.column_stack((t1, t2)) + random_state.normal(0, 0.3, size=(batch_size, 2))


def summ_two(y):
    return y


def run_reuse(case):
    """Several sample() calls on ONE BSL object, the parameters listed in different orders: in every call no simulation
    happens outside the prior support, every chain state lies inside it and carries its own prior log density."""
    import elfi
    from .. import models
    models.native_client()
    m = elfi.ElfiModel(name='c20reuse')
    elfi.Prior('uniform', 0, 2, model=m, name='t1')          # supports overlap but differ: t1 in [0,2], t2 in [1,3]
    elfi.Prior('uniform', 1, 2, model=m, name='t2')
    elfi.Simulator(sim_two, m['t1'], m['t2'], observed=np.array([[0.4, 0.4]]), model=m, name='sim')
    elfi.Summary(summ_two, m['sim'], model=m, name='S')
    bsl = elfi.BSL(m, n_sim_round=case['nsr'], feature_names='S', batch_size=case['nsr'], seed=case['seed'])
    sigma = np.diag([0.3, 0.3]) ** 2

    def inside(pt):
        return 0 <= pt['t1'] <= 2 and 1 <= pt['t2'] <= 3
    n_calls = 0
    for k, order in enumerate(case['orders']):
        names = ['t1', 't2'] if order is None else list(order)
        start = len(_REUSE_SIMS)
        kw = {} if order is None else {'param_names': list(order)}
        bsl.sample(case['n'], sigma_proposals=sigma, params0=np.array([1.5, 1.5]), bar=False, **kw)
        n_calls += 1
        what = {'case': case, 'call': k, 'param_names': order}
        for t1, t2 in _REUSE_SIMS[start:]:
            if not inside({'t1': t1, 't2': t2}):
                return bad('C20:mh-reuse:simulated-outside-the-prior-support', dict(what, t1=t1, t2=t2))
        st = bsl.state
        params = np.asarray(st['params'], dtype=float)
        lps = st.get('logprior')
        for n_ in range(len(params)):
            pt = dict(zip(names, params[n_]))
            if not inside(pt):
                return bad('C20:mh-reuse:chain-state-outside-the-prior-support', dict(what, state=n_, point=pt))
            if lps is not None and not np.isclose(float(np.ravel(lps[n_])[0]), math.log(0.25), rtol=1e-12, atol=0):
                return bad('C20:mh-reuse:stored-log-prior-is-not-the-prior-of-the-state',
                           dict(what, state=n_, point=pt, stored=float(np.ravel(lps[n_])[0]), prior_log_density=math.log(0.25)))
    del _REUSE_SIMS[:]
    r = ok(outcome=digest((case['orders'], case['seed'])), reuse_calls=n_calls)
    r.update(evals=n_calls, distinct=n_calls)
    return r


def run_misspec_chain(case):
    """A real BSL run with the misspecification-adjusted likelihood: every time the gamma slice sampler is entered, the
    sample moments and the log-likelihood it is given must be those of ONE set of simulated summaries the run produced
    (mean, covariance and the published R-BSL-M / R-BSL-V value at the gamma in force)."""
    import elfi
    import elfi.methods.bsl.pdf_methods as pm
    import elfi.methods.inference.bsl as bslmod
    from .. import models
    models.native_client()
    adj = case['adjustment']
    sims, calls = [], []
    orig_lik = pm.syn_likelihood_misspec
    orig_samplers = {'mean': bslmod.slice_gamma_mean, 'variance': bslmod.slice_gamma_variance}

    def lik(ssx, ssy, *a, **kw):
        sims.append(np.array(ssx, dtype=float, copy=True))
        return orig_lik(ssx, ssy, *a, **kw)

    def make(name):
        def sampler(ssy, *a, **kw):
            calls.append({'n_sims': len(sims), 'loglik': kw.get('loglik'), 'gamma': np.array(kw.get('gamma'), dtype=float, copy=True),
                          'mean': None if kw.get('sample_mean') is None else np.array(kw['sample_mean'], dtype=float, copy=True),
                          'cov': None if kw.get('sample_cov') is None else np.array(kw['sample_cov'], dtype=float, copy=True),
                          'ssy': np.array(ssy, dtype=float, copy=True)})
            return orig_samplers[name](ssy, *a, **kw)
        return sampler
    pm.syn_likelihood_misspec = lik
    bslmod.slice_gamma_mean, bslmod.slice_gamma_variance = make('mean'), make('variance')
    try:
        m = elfi.ElfiModel(name='c20mis')
        elfi.Prior('uniform', 0, 2, model=m, name='t1')
        elfi.Prior('uniform', 1, 2, model=m, name='t2')
        elfi.Simulator(sim_two, m['t1'], m['t2'], observed=np.array([[0.9, 2.4]]), model=m, name='sim')
        elfi.Summary(summ_two, m['sim'], model=m, name='S')
        bsl = elfi.BSL(m, n_sim_round=case['nsr'], feature_names='S', likelihood=pm.robust_likelihood(adj),
                       batch_size=case['nsr'], seed=case['seed'])
        bsl.sample(case['n'], sigma_proposals=np.diag([0.3, 0.3]) ** 2, params0=np.array([1.0, 2.0]), bar=False)
    finally:
        pm.syn_likelihood_misspec = orig_lik
        bslmod.slice_gamma_mean, bslmod.slice_gamma_variance = orig_samplers['mean'], orig_samplers['variance']
        del _REUSE_SIMS[:]
    if not sims:
        raise RuntimeError('C20 harness: the misspecification-adjusted likelihood was never called (interception lost)')
    judged = 0
    for k, c in enumerate(calls):
        if c['mean'] is None or c['cov'] is None:
            continue
        what = {'case': case, 'gamma_sampler_call': k}
        hit = None
        for X in sims[:c['n_sims']]:
            if np.allclose(X.mean(0), c['mean'], rtol=1e-12, atol=0) and \
                    np.allclose(np.atleast_2d(np.cov(X, rowvar=False)), np.atleast_2d(c['cov']), rtol=1e-10, atol=0):
                hit = X
        if hit is None:
            return bad('C20:misspec-chain:gamma-sampler-moments-are-not-those-of-a-simulated-set:' + adj,
                       dict(what, mean=c['mean'].tolist(), cov=np.asarray(c['cov']).tolist(),
                            last_simulated_mean=sims[c['n_sims'] - 1].mean(0).tolist()))
        ref, tol = R.misspec_ref(hit, c['ssy'].reshape(-1), c['gamma'], adj)
        if c['loglik'] is None or not abs(_scalar(c['loglik']) - ref) <= max(tol, 1e-9 * max(1.0, abs(ref))):
            return bad('C20:misspec-chain:current-log-likelihood-is-not-the-adjusted-likelihood-of-the-current-summaries:' + adj,
                       dict(what, got=None if c['loglik'] is None else _scalar(c['loglik']), expected=float(ref)))
        judged += 1
    r = ok(outcome=digest((adj, case['seed'], judged)), trivial=judged == 0, misspec_chain_gamma_updates=judged)
    r.update(evals=max(1, judged), distinct=max(1, judged))
    return r


KNOWN_STATE_KEYS = {'logposterior', 'logprior', 'n_batches', 'n_samples', 'n_sim', 'n_sim_round', 'params', 'round', 'gamma'}


def state_layout():
    """The keys of the chain state the real sample() loop leaves behind (public path, default environment answers).
    Sections that fill the chain state by hand are only meaningful for the layout they know: an implementation that
    keeps further per-slot fields (with its own invariants between them) is judged through the public path only."""
    cfg = {'drive': 'sample', 'rows': [[-1, 5]], 'prior': 'uniform', 'ret': 'array1', 'useed': 1, 'n_sim_round': 2,
           'batch_size': 2, 'N': 2}
    try:
        run = explore.run_once(make_body(cfg), [])
        return sorted(run.obs.get('state_keys') or [])
    except Exception:  # noqa  (the trees report it)
        return None


RUNNERS = {'reuse': run_reuse, 'misspec-chain': run_misspec_chain, 'standard': run_standard, 'unbiased': run_unbiased, 'misspec': run_misspec, 'semiparam': run_semiparam,
           'transform': run_transform, 'ratio': run_ratio, 'process': run_process, 'tree': run_tree, 'path': run_path}


def replay(case):
    if case['kind'] in ('ratio', 'process') or case.get('drive') == 'steps':
        if _LAYOUT[0] is None:
            keys = state_layout()
            _LAYOUT[0] = bool(keys is not None and set(keys) <= KNOWN_STATE_KEYS)
        if not _LAYOUT[0]:     # a hand-filled chain state means nothing for a state layout the harness does not know
            return ok(outcome='hand-filled-state-case-skipped:unknown-chain-state-layout', trivial=True)
    return _guard(RUNNERS[case['kind']])(case)


_LAYOUT = [None]


def _guard(fn):
    from ..guard import guarded
    return guarded('C20')(fn)


g_standard = _guard(run_standard)
g_unbiased = _guard(run_unbiased)
g_misspec = _guard(run_misspec)
g_semiparam = _guard(run_semiparam)
g_transform = _guard(run_transform)
g_ratio = _guard(run_ratio)
g_process = _guard(run_process)
g_tree = _guard(run_tree)


def _record_with_witness(ctx, runner, cases, section, sample_every=None):
    """like ctx.run_cases, but a violating sub-case is recorded as its own single-sub-case witness case"""
    from .. import par

    def fn(case):
        return case, runner(case)
    cases = list(cases)
    for i, (case, res) in enumerate(par.pmap(fn, cases, ordered=True)):
        v = res.get('viol')
        rec = case
        if v and isinstance(v.get('detail'), dict) and 'witness_case' in v['detail']:
            rec = v['detail']['witness_case']
        ctx.record(rec, res, section)
        if i == 0 or i == len(cases) - 1 or (sample_every and i % sample_every == 0):
            ctx.add_sample(case, key=(section, i))


def _record_trees(ctx, cases, section):
    from .. import par

    def fn(case):
        return case, g_tree(case)
    for case, res in par.pmap(fn, cases, chunksize=1, ordered=True):
        allv = res.pop('all_viol', None)
        for o in res.pop('outcomes', ()):
            ctx.outcomes.add(digest((jsonable(_cfg_of(case)), o)))
        ctx.record(case, res, section)
        if 'executions' in (res.get('cnt') or {}):
            ctx.extra.setdefault('trees', []).append({
                'drive': case['drive'], 'rows': case.get('rows'), 'prior': case.get('prior'), 'ret': case['ret'],
                'N': case['N'], 'bound': case.get('bound'), 'useed': case['useed'],
                'executions': res['cnt']['executions'], 'event_logs': res['cnt']['distinct_event_logs'],
                'outcomes': res.get('n_outcomes'), 'max_depth': res.get('max_depth')})
            if res['cnt']['capped']:
                ctx.exhaustive = False
        for sig, detail, choices in allv or ():
            w = dict(case, kind='path', choices=choices)
            for k in ('bound', 'max_executions', 'selftest'):
                w.pop(k, None)
            ctx.record(w, {'viol': {'sig': sig, 'detail': dict(detail or {}, choices=choices)}, 'evals': 0,
                           'trivial': True}, section)
        ctx.add_sample({'case': case, 'executions': (res.get('cnt') or {}).get('executions')},
                       key=(section, case['drive'], str(case.get('rows')), case['N']))


def run(ctx):
    q = ctx.quick
    base = ctx.seed * 1000
    only = ctx.only

    def want(sec):
        if sec == 'lik-semiparam':
            # the semi-parametric estimator is not named in the property statement: not part of the verdict, it runs only
            # when asked for explicitly (bin/check C20 --only lik-semiparam). On this tree it raises on every input under
            # NumPy 2 (pdf_methods.py:227, np.NINF) - recorded in DESIGN 10.6 as outside the statement, not fixed.
            return only is not None and sec in only
        return only is None or sec in only

    # reference self-test (harness error if it fails): the coded Ghurye-Olkin estimator is unbiased (d = 1, quadrature)
    if want('lik-unbiased'):
        e, t = R.ghurye_olkin_unbiasedness_selftest()
        if abs(e - t) > 1e-6 * t:
            raise AssertionError('reference Ghurye-Olkin formula is not unbiased: %r vs %r' % (e, t))
        ctx.extra['ghurye_olkin_reference_selftest'] = {'expectation_by_quadrature': e, 'true_density': t}

    K = 2 if q else 6
    offs = [-1.5, 0.0, 1.0] if q else [-2.5, -1.0, 0.0, 0.5, 2.0]
    nd = [(n, d) for n in (5, 8, 20) for d in (1, 2, 3)]

    # ---------------------------------------------------------------- lik-standard
    if want('lik-standard'):
        pens = [0.0, 0.5, 1.0] + ([] if q else [0.25, 0.9])
        cases = []
        for n, d in nd:
            for X in matrices(n, d, K, base):
                for wn in (None, 'I', 'rot'):
                    shr = [None] + [['warton', p_] for p_ in pens]
                    if d > 1:   # sklearn's graphical_lasso refuses 1x1 input
                        shr += [['glasso', 0.0, False], ['glasso', 0.0, True]]
                    for sh in shr:
                        c = {'kind': 'standard', 'ssx': X, 'whitening': wn, 'offsets': offs}
                        if sh is not None:
                            c['shrink'] = sh
                        cases.append(c)
        _record_with_witness(ctx, g_standard, cases, 'lik-standard', sample_every=max(1, len(cases) // 3))

    # ---------------------------------------------------------------- lik-unbiased
    if want('lik-unbiased'):
        cases = []
        for n, d in [(5, 1), (6, 1), (6, 2), (8, 1), (8, 2), (8, 3), (20, 1), (20, 2), (20, 3)]:
            for X in matrices(n, d, K, base):
                cases.append({'kind': 'unbiased', 'ssx': X, 'offsets': offs})
        _record_with_witness(ctx, g_unbiased, cases, 'lik-unbiased', sample_every=max(1, len(cases) // 3))

    # ---------------------------------------------------------------- lik-misspec
    if want('lik-misspec'):
        cases = []
        for n, d in nd:
            for X in matrices(n, d, K, base):
                cases.append({'kind': 'misspec', 'ssx': X, 'adjustment': 'mean', 'offsets': offs[:3],
                              'gammas': [-0.5, 0.0, 1.0] + ([] if q else [2.5])})
                cases.append({'kind': 'misspec', 'ssx': X, 'adjustment': 'variance', 'offsets': offs[:3],
                              'gammas': [0.0, 0.5, 2.0] + ([] if q else [0.1])})
        _record_with_witness(ctx, g_misspec, cases, 'lik-misspec', sample_every=max(1, len(cases) // 3))

    # ---------------------------------------------------------------- lik-semiparam
    if want('lik-semiparam'):
        cases = []
        for n, d in ([(8, 2), (8, 3), (20, 2)] if q else [(6, 2), (8, 2), (8, 3), (20, 2), (20, 3)]):
            for X in matrices(n, d, 2 if q else 4, base, tie_free=True):
                for sh in [None, ['warton', 0.0], ['warton', 0.5], ['warton', 1.0]]:
                    c = {'kind': 'semiparam', 'ssx': X, 'offsets': [-1.0, 0.5] if q else [-1.5, 0.0, 1.0]}
                    if sh is not None:
                        c['shrink'] = sh
                    cases.append(c)
        _record_with_witness(ctx, g_semiparam, cases, 'lik-semiparam', sample_every=max(1, len(cases) // 2))

    # ---------------------------------------------------------------- transform
    rows = ROWS_QUICK + ([] if q else ROWS_MORE)
    if want('transform'):
        cases = [{'kind': 'transform', 'rows': [list(r) for r in t], 'fine': not q or len(t) == 1}
                 for p_ in range(1, 3 if q else 4) for t in itertools.product(rows, repeat=p_)]
        if not q:   # three rows: the coarse grids keep 9^3 tuples affordable
            for c in cases:
                if len(c['rows']) == 3:
                    c['fine'] = False
        _record_with_witness(ctx, g_transform, cases, 'transform', sample_every=max(1, len(cases) // 3))

    # hand-filled chain states are only used when the implementation's state has the layout the harness knows
    keys = state_layout()
    handbuilt = keys is not None and set(keys) <= KNOWN_STATE_KEYS
    ctx.extra['chain_state_layout'] = {'keys_left_by_sample': keys, 'hand_filled_sections_run': bool(handbuilt)}
    if not handbuilt:
        ctx.assumptions.append('the chain state of this tree has fields the harness does not know (%r): the sections that '
                               'fill the state by hand (mh-ratio, mh-process, mh-step) were skipped, the Metropolis-Hastings '
                               'clauses are decided by mh-chain (real sample() loop) alone, explored deeper' % (keys,))

    # ---------------------------------------------------------------- mh-ratio
    if want('mh-ratio') and handbuilt:
        cases = [{'kind': 'ratio', 'rows': None, 'p': 1}, {'kind': 'ratio', 'rows': None, 'p': 2}]
        cases += [{'kind': 'ratio', 'rows': [list(r) for r in t]}
                  for p_ in (1, 2) for t in itertools.product(rows, repeat=p_)]
        _record_with_witness(ctx, g_ratio, cases, 'mh-ratio', sample_every=max(1, len(cases) // 3))

    # ---------------------------------------------------------------- mh-process
    one = [None] + [[list(r)] for r in rows]
    if want('mh-process') and handbuilt:
        cases = [{'kind': 'process', 'rows': r, 'prior': pr, 'ret': ret, 'useed': base + k}
                 for r in one if r is None or max(_f(r[0][0]), 0.0) < min(_f(r[0][1]), 4.0) for pr in ('uniform', 'truncnorm') for ret in ('array1', 'float')
                 for k in range(2 if q else 6)]
        _record_with_witness(ctx, g_process, cases, 'mh-process', sample_every=max(1, len(cases) // 3))

    # ---------------------------------------------------------------- mh-step (mode E, harness-driven steps)
    env_rows = [None, [[0, 4]], [[-1, 5]], [[0, 'inf']], [['-inf', 4]], [['-inf', 'inf']]]
    if want('mh-step') and handbuilt:
        cases = []
        for r in env_rows:
            combos = [('uniform', 'array1', (2, 2)), ('truncnorm', 'float', (2, 1))]
            if not q:
                combos += [('uniform', 'float', (2, 1)), ('truncnorm', 'array1', (4, 1))]
            for ci, (pr, ret, lay) in enumerate(combos):
                if True:
                    for k in range(1 if q else 2):
                        c = {'kind': 'tree', 'drive': 'steps', 'rows': r, 'prior': pr, 'ret': ret, 'useed': base + k,
                             'n_sim_round': lay[0], 'batch_size': lay[1], 'll0': 0.5,
                             'N': 3 if (q or k > 0) else 4}
                        cases.append(c)
                        if not q and k == 0 and ci == 0:
                            deep = r in (None, [[-1, 5]], [['-inf', 4]])
                            cases.append(dict(c, N=7, bound=3 if deep else 2))
                            if r == [[-1, 5]]:
                                cases.append(dict(c, N=5))
        _record_trees(ctx, cases, 'mh-step')

    # ---------------------------------------------------------------- mh-chain (mode E on the real sample() loop)
    if want('mh-chain'):
        cases = []
        for r in ([None, [[-1, 5]], [[0, 'inf']]] if (q and handbuilt) else env_rows):
            for lay in ((2, 2), (2, 1)):
                c = {'kind': 'tree', 'drive': 'sample', 'rows': r, 'prior': 'uniform', 'ret': 'array1',
                     'useed': base + 1, 'n_sim_round': lay[0], 'batch_size': lay[1], 'N': 2 if q else 3}
                cases.append(c)
                if not q or lay == (2, 2):
                    cases.append(dict(c, N=4 if q else 5, bound=3 if (not q and lay == (2, 2)) else 2))
        _record_trees(ctx, cases, 'mh-chain')

    # ---------------------------------------------------------------- mh-reuse (one object, several calls, parameter orders)
    if want('mh-reuse'):
        orders = [None, ['t1', 't2'], ['t2', 't1']]
        cases = [{'kind': 'reuse', 'orders': [a, b], 'seed': base + k, 'n': 40 if q else 120, 'nsr': 4}
                 for a in orders for b in orders for k in range(1 if q else 3)]
        _record_with_witness(ctx, _guard(run_reuse), cases, 'mh-reuse', sample_every=max(1, len(cases) // 2))

    # ---------------------------------------------------------------- misspec-chain (robust BSL on the public path)
    if want('misspec-chain'):
        cases = [{'kind': 'misspec-chain', 'adjustment': adj, 'seed': base + k, 'n': 25 if q else 80, 'nsr': nsr}
                 for adj in ('mean', 'variance') for nsr in ((6,) if q else (4, 6, 12)) for k in range(2 if q else 5)]
        _record_with_witness(ctx, _guard(run_misspec_chain), cases, 'misspec-chain', sample_every=max(1, len(cases) // 2))

    ctx.rule = (
        'likelihood sections: product (n,d) x explicit matrix x whitening x shrinkage, each case enumerates its ssy grid '
        '(x gamma grid) itself, evaluations = calls of the real likelihood function, every sub-case distinct by content; '
        'transform / mh-ratio / mh-process: product over tuples of bound-row types, each case enumerates its point grid; '
        'mh-step / mh-chain: one case = the complete tree of environment answer sequences of one configuration explored '
        'with vmc.explore (evaluations = executions of the real step methods, distinct = distinct answer sequences); '
        'mh-reuse: all ordered pairs of parameter orders for two sample() calls on one object (real random stream, seeded); misspec-chain: adjustment x n_sim_round x seed, a real robust-BSL run whose gamma updates are judged one by one; '
        'non-trivial = the oracle compared a value (near-singular Ghurye-Olkin points and u==prob ties are counted apart)')
    ctx.assumptions += [
        'matrices are integer / half-integer valued with variances >= 0.5 and covariance eigenvalue ratio >= 0.04; ssy on '
        'grids around the column means; nothing is claimed for ill-conditioned inputs',
        'tolerances: 1e-10 relative for unshrunk Gaussian formulas; Warton variants get the exact first-order bound of '
        'the documented 1e-5 diagonal jitter of cov_warton; 1e-8 for Ghurye-Olkin and semi-parametric',
        'shrinkage convention is the one the repository tests pin: penalty 0 = no shrinkage (Warton gamma = 1 - penalty); '
        'glasso is a third-party iterative solver: only penalty 0 == unshrunk is checked (d >= 2)',
        'Ghurye-Olkin needs n > d + 3; points whose psi argument is within 1e-6 (relative) of singular are skipped',
        'semi-parametric likelihood is not named in the property statement; it is checked without whitening, on '
        'tie-free columns, d in {2,3} (d = 1 and the whitened variant are not explored)',
        'transform: the forward map is required to be the documented logit / log family; round trips rtol 1e-12, '
        'forward(back(y)) atol 1e-9 for |y| <= 8; Jacobian by central differences h=1e-5, atol 1e-6',
        'MH: the exponent clip at +-700 of the implementation is accepted (ratio for a -inf likelihood may be '
        'exp(-700) instead of 0); u == prob ties (1e-9 relative) accept either decision; prior support [0,4] '
        '(uniform or truncated normal); the slice sampler for gamma itself is not explored (only what it is given: the moments and the adjusted log-likelihood of the current summaries)',
        'mh-step: the chain state after initialisation is filled by the harness in the layout of BSL._init_state, '
        'then _init_round / prepare_new_batch / update are the real methods; mh-chain runs the real sample() loop on the '
        'in-process client with max_parallel_batches default',
    ]
