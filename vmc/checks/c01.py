"""C01 Rejection ABC returns exactly the best simulated draws, row-consistent.  Mode P.

Every case is one seeded Rejection run on a toy model; the full product of
(model, batch_size, n_samples, objective form, seed) inside the tier's bound is run.
Independent record of the consumed draws: the number of simulator invocations
(max_parallel_batches=1 => executed batches == consumed batches) and, for every consumed
batch index, a fresh BatchHandler.compute(i) on a fresh context with the same seed
(generation is a pure function of (model, seed, index): property C02).
"""
import math
from collections import Counter
from fractions import Fraction

import numpy as np

from .. import models
from ..canon import digest
from ..guard import guarded
from ..report import ok, bad

PID = 'C01'
LEVEL = 'exploration'
HORIZON = 400  # batches; a threshold run that needs more is counted as horizon, not judged


class Horizon(BaseException):
    pass


def _rows(outputs, names, idx=None):
    """Row keys across all outputs (bytes of every output's i-th row)."""
    n = len(outputs[names[0]])
    keys = []
    def cell(a):
        a = np.asarray(a)
        # values, not storage types: the sampler's buffer may hold an integer / boolean output as float64
        if a.dtype.kind in 'iubf':
            a = a.astype(np.float64)
        return np.ascontiguousarray(a).tobytes()
    for i in range(n):
        keys.append(tuple((k, cell(outputs[k][i])) for k in names))
    return keys


def _dvec(d):
    """The sorting discrepancy of a (n,), (n,1) or nested (n,k) discrepancy output: last column."""
    return np.atleast_2d(np.transpose(np.asarray(d)))[-1]


def reference_batches(model, names, bs, seed, n_batches):
    """Fresh computation of batches 0..n_batches-1 (no sampler, no pool)."""
    import elfi
    from elfi.model.elfi_model import ComputationContext
    ctx = ComputationContext(batch_size=bs, seed=seed)
    bh = elfi.client.BatchHandler(model, context=ctx, output_names=list(names))
    out = {k: [] for k in names}
    for i in range(n_batches):
        b = bh.compute(i)
        for k in names:
            out[k].append(np.asarray(b[k]))
    return {k: np.concatenate(v) for k, v in out.items()}


def _budget(case):
    """-> set of admissible simulation budgets, or None in threshold mode."""
    form, val = case['obj']
    if form == 'n_sim':
        return {int(val)}
    if form == 'quantile':
        q = Fraction(val)
        n = case['n_samples']
        exact = math.ceil(Fraction(n) / q)
        flt = math.ceil(n / float(q))
        return {exact, flt}
    return None


def _obj_kwargs(case):
    form, val = case['obj']
    if form == 'n_sim':
        return {'n_sim': int(val)}
    if form == 'quantile':
        return {'quantile': float(Fraction(val))}
    return {'threshold': float(val)}


@guarded('C01')
def run_rejection(case):
    """One Rejection object; case['obj'] is one objective, or case['objs'] a sequence of objectives run one after
    the other on the SAME sampler object (every run of the sequence is judged)."""
    import elfi
    models.native_client()
    models.reset_calls()
    m, dname, extras = models.build(case['model'])
    bs, seed = case['bs'], case['seed']
    rej = elfi.Rejection(m, dname, output_names=list(extras), batch_size=bs, seed=seed, max_parallel_batches=1)
    names = list(rej.output_names)

    # horizon for the retry-until-success loop of threshold mode
    orig_update = rej.update

    def update(batch, batch_index):
        if batch_index >= HORIZON:
            raise Horizon()
        return orig_update(batch, batch_index)
    rej.update = update
    objs = case.get('objs') or [case['obj']]
    ns = case.get('ns') or [case['n_samples']] * len(objs)
    last = None
    for k, (obj, n) in enumerate(zip(objs, ns)):
        sub = dict(case, obj=obj, n_samples=n)
        before = models.CALLS.get('sim', 0)
        try:
            res = rej.sample(n, bar=False, **_obj_kwargs(sub))
        except Horizon:
            return ok(outcome='horizon', trivial=True, horizon=1)
        calls = models.CALLS.get('sim', 0) - before
        r = _judge_run(sub, res, calls, m, names, dname, bs, n, seed)
        if r.get('viol'):
            if len(objs) > 1:
                r['viol']['sig'] = r['viol']['sig'] + (':on-reused-sampler' if k > 0 else '')
                r['viol']['detail'] = dict(r['viol'].get('detail') or {}, run_index=k, objectives=objs)
            return r
        last = r
    return last


def _judge_run(case, res, calls, m, names, dname, bs, n, seed):
    form = case['obj'][0]
    info = {'calls': calls, 'n_sim': int(res.n_sim), 'threshold': float(np.asarray(res.threshold).ravel()[-1])}

    # counts
    if res.n_sim != bs * calls:
        return bad('C01:n_sim-not-batch_size-times-consumed', info)
    budget = _budget(case)
    if budget is not None and calls not in {math.ceil(b / bs) for b in budget}:
        return bad('C01:budget-batches', dict(info, expected_batches=sorted(math.ceil(b / bs) for b in budget)))
    if getattr(res, 'n_batches', calls) != calls:
        return bad('C01:n_batches-meta', info)

    ref = reference_batches(m, names, bs, seed, calls)
    for k in names:
        if k not in res.outputs:
            return bad('C01:missing-output', {'output': k})
        if len(res.outputs[k]) != n:
            return bad('C01:wrong-number-of-samples', {'output': k, 'len': len(res.outputs[k]), 'n_samples': n})
    d_ret = _dvec(res.outputs[dname])
    d_all = _dvec(ref[dname])
    info['returned_d'] = d_ret.tolist()
    # ascending
    if np.any(np.diff(d_ret) < 0) or np.any(np.isnan(d_ret)):
        return bad('C01:not-ascending', info)
    # best n among consumed (restricted to <= threshold)
    cand = d_all
    if form == 'threshold':
        cand = d_all[d_all <= float(case['obj'][1])]
    best = np.sort(cand)[:n]
    info['best_d'] = best.tolist()
    if len(best) < n:
        return bad('C01:returned-more-than-acceptable', info)
    if not np.array_equal(np.sort(d_ret), best):
        return bad('C01:not-the-smallest-discrepancies', info)
    # row consistency with multiplicity
    have = Counter(_rows(ref, names))
    got = Counter(_rows(res.outputs, names))
    missing = got - have
    if missing:
        bad_d = [float(_dvec(res.outputs[dname])[i]) for i, r in enumerate(_rows(res.outputs, names)) if r in missing]
        if all(np.isinf(x) for x in bad_d):
            return bad('C01:row-not-simulated:infinite-discrepancy-placeholder', dict(info, bad_d=bad_d))
        return bad('C01:row-not-simulated', dict(info, bad_d=bad_d))
    thr = float(np.asarray(res.threshold).ravel()[-1])
    if thr != float(d_ret.max()):
        return bad('C01:threshold-not-largest-returned', info)
    has_tie = len(set(d_all.tolist())) < len(d_all)
    return ok(outcome=digest((d_ret, calls)), trivial=False, ties=int(has_tie), inf_draws=int(np.isinf(d_all).any()),
              bs_gt_n=int(bs > n), bs_lt_n=int(bs < n), indivisible=int(budget is not None and min(budget) % bs != 0))


@guarded('C01')
def run_adaptive(case):
    """Adaptive-distance Rejection: rows consistent, discrepancy is the newest distance of the row's summaries."""
    import elfi
    models.native_client()
    models.reset_calls()
    m, dname, extras = models.build('Madapt')
    bs, n, seed = case['bs'], case['n_samples'], case['seed']
    rej = elfi.Rejection(m, dname, output_names=list(extras), batch_size=bs, seed=seed, max_parallel_batches=1)
    names = list(rej.output_names)
    res = rej.sample(n, bar=False, n_sim=int(case['n_sim']))
    calls = models.CALLS.get('sim', 0)
    if res.n_sim != bs * calls or calls != math.ceil(case['n_sim'] / bs):
        return bad('C01:adaptive:counts', {'calls': calls, 'n_sim': int(res.n_sim)})
    # reference rows with a fresh copy of the model (its distance is still un-adapted)
    m2, _, _ = models.build('Madapt')
    others = [k for k in names if k != dname]
    ref = reference_batches(m2, others, bs, seed, calls)
    got_rows = _rows(res.outputs, others)
    missing = Counter(got_rows) - Counter(_rows(ref, others))
    if missing:
        return bad('C01:adaptive:row-not-simulated', {'n_missing': sum(missing.values())})
    S_all = np.column_stack([ref['S1'], ref['S2']])
    scale = np.std(S_all, axis=0)
    obs = np.array([2.0, 10.0])
    S_ret = np.column_stack([res.outputs['S1'], res.outputs['S2']])
    d_exp = np.sqrt((((S_ret - obs) / scale) ** 2).sum(axis=1))
    d_ret = _dvec(res.outputs[dname])
    if len(d_ret) != n:
        return bad('C01:adaptive:wrong-number-of-samples', {'len': len(d_ret)})
    if not np.allclose(d_ret, d_exp, rtol=1e-9, atol=1e-12):
        if np.allclose(np.sort(d_ret), np.sort(d_exp), rtol=1e-9, atol=1e-12):
            return bad('C01:adaptive:discrepancy-column-not-aligned-with-rows',
                       {'returned_d': d_ret.tolist(), 'd_of_returned_rows': d_exp.tolist()})
        return bad('C01:adaptive:discrepancy-mismatch', {'returned_d': d_ret.tolist(), 'd_of_returned_rows': d_exp.tolist()})
    if np.any(np.diff(d_ret) < 0):
        return bad('C01:adaptive:not-ascending', {'returned_d': d_ret.tolist()})
    return ok(outcome=digest(d_ret), adaptive=1)


RUNNERS = {'rej': run_rejection, 'adaptive': run_adaptive}


def replay(case):
    return RUNNERS[case['kind']](case)


def objectives(model, n, q):
    objs = []
    nsims = range(1, 13) if q else range(1, 21)
    for k in nsims:
        if k >= n:
            objs.append(['n_sim', k])
    for qq in ['1', '1/2', '1/3', '1/4', '3/10'] + ([] if q else ['2/3', '1/7', '9/10']):
        objs.append(['quantile', qq])
    thr = {'M1': [0, 0.5, 1, 2, 'inf'], 'Mcol': [0, 1, 'inf'], 'Minf': [0, 1, 'inf'], 'Mint': [0, 1, 'inf'],
           'Mbool': [0, 1],
           'M2': [1, 2, 3.5, 'inf'], 'M1c': [0.3, 1.0, 'inf']}[model]
    for t in thr:
        objs.append(['threshold', t])
    return objs


def run(ctx):
    q = ctx.quick
    base = ctx.seed * 1000
    seeds = [base + k for k in range(3 if q else 10)]
    mods = ['M1', 'M2', 'Minf', 'Mcol', 'Mint', 'Mbool'] + ([] if q else ['M1c'])
    cases = []
    for model in mods:
        for bs in (1, 2, 3, 4) if q else (1, 2, 3, 4, 5, 7):
            for n in (1, 2, 3, 5) if q else (1, 2, 3, 4, 5, 8):
                for obj in objectives(model, n, q):
                    for s in seeds:
                        cases.append({'kind': 'rej', 'model': model, 'bs': bs, 'n_samples': n, 'obj': obj, 'seed': s})
    ctx.run_cases(run_rejection, cases, 'rejection', sample_every=max(1, len(cases) // 6))
    # the same sampler object used for several runs: every sequence of objectives up to a depth
    alph = [['threshold', 1], ['threshold', 0], ['n_sim', 7], ['n_sim', 4], ['quantile', '1/2'], ['quantile', '1/4']]
    import itertools
    hcases = []
    for model in ('M1', 'M2') if q else ('M1', 'M2', 'Minf', 'Mcol'):
        halph = [o if not (model == 'M2' and o[0] == 'threshold') else ['threshold', 2 + o[1]] for o in alph]
        for bs in (1, 3):
            for L in (2,) if q else (2, 3):
                for seq in itertools.product(halph, repeat=L):
                    for s in seeds[:1] if q else seeds[:2]:
                        hcases.append({'kind': 'rej', 'model': model, 'bs': bs, 'n_samples': 2, 'ns': [2, 3, 2][:L],
                                       'objs': [list(o) for o in seq], 'seed': s})
    ctx.run_cases(run_rejection, hcases, 'reused-sampler', sample_every=max(1, len(hcases) // 3))
    cases = [{'kind': 'adaptive', 'bs': bs, 'n_samples': n, 'n_sim': ns, 'seed': s}
             for bs in (1, 2, 3) for n in (2, 3, 5) for ns in (6, 9, 10) for s in seeds if ns >= n]
    ctx.run_cases(run_adaptive, cases, 'adaptive')
    ctx.rule = ('full product model x batch_size x n_samples x objective(n_sim|quantile|threshold) x seed; each case is '
                'one real Rejection run compared with an independent recomputation of every consumed batch; '
                'non-trivial = run completed inside the horizon; distinct by case content; counters report how many '
                'runs had tied discrepancies, infinite discrepancies, batch_size >,< n_samples, indivisible budgets')
    ctx.assumptions += [
        'max_parallel_batches=1 with the in-process client, so simulator invocations == consumed batches (schedules are C04)',
        'reference rows come from fresh BatchHandler.compute(i) calls with the same seed (purity is C02)',
        'budget forms require budget >= n_samples; threshold runs longer than %d batches are counted as horizon' % HORIZON,
        'quantile budget ceil(n_samples/quantile) accepted in exact-rational and in float reading',
        'ties: only multisets and row membership are compared, never positions',
        'reused-sampler section: every sequence of 2 (3 thorough) objectives over {two thresholds, two n_sim budgets, two '
        'quantiles} on one Rejection object, n_samples varying between the runs; each run judged like a fresh one',
    ]
