"""C17 Regression adjustment and model comparison equal their formulas.  Mode P.

Sections (every sub-case is one call of the real elfi API on explicit small inputs)
  grid      : every summary matrix over a small integer grid (n rows x k summaries) x a family of parameter
              vectors x observed summaries on the grid: adjust_posterior vs numpy.linalg.lstsq.
  nonfinite : base data sets x every placement of <= 2 (3) entries from {nan, inf(, -inf)} anywhere in the
              summaries/parameters: only rows finite for *that* parameter are used and returned, in order.
  affine    : base data (with <= 1 non-finite entry) x invertible affine re-expressions S -> S.A + c of the
              summaries (observed summaries mapped along): the adjusted values must not change.
  names     : parameter_names None/subsets/reordered, summary_names reordered, the three API entry points.
  refit     : one LinearAdjustment object fitted on case A then on case B (all ordered pairs): the second
              adjustment must be the adjustment of B.
  e2e       : Sample objects produced by real Rejection runs on a two-parameter toy model.
  compare   : compare_models on 2-3 hand-made Sample objects: discrepancy vectors over a small alphabet,
              n_sim and prior weights from {1,2,5}, every model order; exact rational oracle; with a tie at
              the cut every valid split of the tied values is accepted.
  cmp-e2e   : compare_models on Samples of real Rejection runs (integer discrepancies => ties).
"""
import itertools

import numpy as np

from .. import models, par
from ..canon import digest
from ..guard import guarded
from ..report import ok, bad
from ..ref import c17_ref as ref

PID = 'C17'
LEVEL = 'exploration'

PN = ['t1', 't2']
SN = ['S1', 'S2']
RTOL, ATOL = 1e-8, 1e-9


# =========================================================================== plumbing
def col1(y):
    return y[:, 1]


_MODELS = {}


def _model(obs):
    """Real ElfiModel whose observed summaries S1, S2 are computed by elfi from observed simulator data."""
    import elfi
    key = (float(obs[0]), float(obs[1]))
    m = _MODELS.get(key)
    if m is None:
        if len(_MODELS) > 256:
            _MODELS.clear()
        m = elfi.ElfiModel(name='c17')
        t1 = elfi.Prior('uniform', 0, 4, model=m, name='t1')
        t2 = elfi.Prior('uniform', 0, 4, model=m, name='t2')
        Y = elfi.Simulator(models.sim_gauss2, t1, t2, model=m, name='Y', observed=np.array([[key[0], key[1]]]))
        S1 = elfi.Summary(models.col0, Y, model=m, name='S1')
        S2 = elfi.Summary(col1, Y, model=m, name='S2')
        elfi.Distance('euclidean', S1, S2, model=m, name='d')
        _MODELS[key] = m
    return m


def _dec(rows, width=None):
    a = np.array([[float(x) for x in r] for r in rows], dtype=float)
    if a.size == 0 and width is not None:
        a = a.reshape(len(rows), width)
    return a


def _obs2(obs):
    o = [float(x) for x in obs]
    return o + [0.0] * (2 - len(o))


def _sample(S, T, dtype='float'):
    from elfi.methods.results import Sample
    n, k = S.shape
    p = T.shape[1]
    conv = (lambda a: a.astype(np.int64)) if dtype == 'int' else (lambda a: a.copy())
    outputs = {}
    for j in range(p):
        outputs[PN[j]] = conv(T[:, j])
    for j in range(k):
        outputs[SN[j]] = conv(S[:, j])
    outputs['d'] = np.zeros(n)
    return Sample(method_name='Rejection', outputs=outputs, parameter_names=PN[:p], discrepancy_name='d',
                  n_sim=10 * n, threshold=1.0)


def _call(api, sample, model, sn_names, pn_names, obj=None):
    """The three public entry points; -> outputs dict of the returned Sample."""
    from elfi.methods.post_processing import LinearAdjustment, adjust_posterior
    if obj is not None:
        obj.fit(sample, model, sn_names, pn_names)
        res = obj.adjust()
    elif api == 'func':
        res = adjust_posterior(sample, model, sn_names, pn_names)
    elif api == 'func-kw':
        res = adjust_posterior(model=model, sample=sample, parameter_names=pn_names, summary_names=sn_names,
                               adjustment='linear')
    elif api == 'func-obj':
        res = adjust_posterior(sample, model, sn_names, pn_names, LinearAdjustment())
    elif api == 'fit-adjust':
        la = LinearAdjustment()
        la.fit(sample, model, sn_names, parameter_names=pn_names)
        res = la.adjust()
    else:
        raise KeyError(api)
    return res


def _h48(x):
    return int(digest(x)[:12], 16)


# =========================================================================== the oracle for one adjustment
def _judge(S, obs, T, req, out, tag):
    """S (n,k) summaries *in the order handed to elfi*, obs (k,), T (n,p), req = requested parameter indices,
    out = outputs of the returned Sample.  -> (sig or None, detail, counters, outcome-able, per-param info)"""
    cnt = {'full_rank': 0, 'rank_deficient': 0, 'no_finite_rows': 0, 'rows_at_observed': 0, 'params': 0}
    names = [PN[j] for j in req]
    if sorted(out.keys()) != sorted(names):
        return 'C17:adjust:output-names', {'got': sorted(out.keys()), 'expected': names}, cnt, None, None
    outcome = []
    infos = []
    for j in req:
        r = ref.ref_adjust(S, obs, T[:, j])
        a = np.asarray(out[PN[j]])
        cnt['params'] += 1
        if a.shape != (r['n_fin'],):
            return ('C17:adjust:wrong-output-length' + tag,
                    {'param': PN[j], 'shape': list(a.shape), 'finite_rows': r['n_fin']}, cnt, None, None)
        infos.append(r)
        if r['n_fin'] == 0:
            cnt['no_finite_rows'] += 1
            continue
        a = a.astype(float)
        det = {'param': PN[j], 'got': a.tolist(), 'expected': r['adjusted'].tolist(),
               'finite_rows': np.flatnonzero(r['mask']).tolist()}
        if not np.all(np.isfinite(a)):
            return 'C17:adjust:nonfinite-output' + tag, det, cnt, None, None
        at_obs = np.all(r['X'] == 0, axis=1)
        if at_obs.any():
            cnt['rows_at_observed'] += int(at_obs.sum())
            if np.any(np.abs(a[at_obs] - r['t'][at_obs]) > 1e-12 * np.maximum(1.0, np.abs(r['t'][at_obs]))):
                return 'C17:adjust:row-at-observed-changed' + tag, det, cnt, None, None
        if r['full_rank']:
            cnt['full_rank'] += 1
            if not np.allclose(a, r['adjusted'], rtol=RTOL, atol=ATOL):
                return 'C17:adjust:lstsq-mismatch' + tag, det, cnt, None, None
        else:
            cnt['rank_deficient'] += 1
            if not ref.is_some_ls_adjustment(r['X'], r['t'], a):
                return 'C17:adjust:not-a-least-squares-adjustment:rank-deficient' + tag, det, cnt, None, None
        outcome.append((PN[j], np.round(a, 9) + 0.0))
    return None, None, cnt, outcome, infos


def _arrays(case):
    S = _dec(case['S'])
    T = _dec(case['T'])
    obs = np.array([float(x) for x in case['obs']], dtype=float)
    return S, T, obs


def _adj_check(case, obj=None):
    S, T, obs = _arrays(case)
    n, k = S.shape
    p = T.shape[1]
    sn = case.get('sn') or list(range(k))
    pn = case.get('pn')
    req = list(range(p)) if pn is None else list(pn)
    api = case.get('api', 'func')
    dtype = case.get('dtype', 'float')
    nonfinite = not (np.isfinite(S).all() and np.isfinite(T).all())
    tag = ':with-nonfinite-entries' if nonfinite else ''
    sn_names = [SN[j] for j in sn]
    pn_names = None if pn is None else [PN[j] for j in pn]
    degenerate = any(ref.finite_rows(S[:, sn], T[:, j]).sum() == 0 for j in req)

    model = _model(_obs2(obs))
    sample = _sample(S, T, dtype)
    try:
        res = _call(api, sample, model, sn_names, pn_names, obj)
    except Exception:
        if degenerate:      # no usable row for some parameter: nothing to regress on, a rejection is accepted
            return ok(outcome=None, trivial=True, degenerate_raise=1)
        raise
    out = dict(res.outputs)
    sig, det, cnt, outcome, infos = _judge(S[:, sn], obs[sn], T, req, out, tag)
    if sig:
        return bad(sig, det, **cnt)
    if list(getattr(res, 'parameter_names', [])) != [PN[j] for j in req]:
        return bad('C17:adjust:parameter_names-of-result', {'got': list(res.parameter_names)}, **cnt)
    cnt['with_nonfinite'] = int(nonfinite)
    if len(req) == 2 and not np.array_equal(infos[0]['mask'], infos[1]['mask']):
        cnt['params_with_different_masks'] = 1

    # the same Sample object adjusted once more, with another selection of summaries (the first one only, or the same
    # ones when there is a single summary): still the formula applied to the accepted draws - an adjustment that
    # writes into the sample it was given, or returns arrays aliasing it, shows here
    sn2 = sn[:1] if len(sn) > 1 else sn
    try:
        res_b = _call(api, sample, model, [SN[j] for j in sn2], pn_names)
    except Exception:
        if not any(ref.finite_rows(S[:, sn2], T[:, j]).sum() == 0 for j in req):
            raise
        res_b = None
    if res_b is not None:
        sig, det, _, _, _ = _judge(S[:, sn2], obs[sn2], T, req, dict(res_b.outputs), tag)
        if sig:
            return bad(sig + ':second-adjustment-of-the-same-sample', dict(det or {}, summaries_first=sn_names,
                                                                         summaries_second=[SN[j] for j in sn2]), **cnt)
        sig, det, _, _, _ = _judge(S[:, sn], obs[sn], T, req, out, tag)
        if sig:
            return bad('C17:adjust:earlier-result-changed-by-a-later-adjustment', det, **cnt)
        cnt['second_adjustments_of_the_same_sample'] = 1

    # invariance under invertible affine re-expressions of the summaries
    nmaps = 0
    for A, c in case.get('maps') or []:
        A = np.array(A, dtype=float).reshape(k, k)
        c = np.array(c, dtype=float)
        with np.errstate(all='ignore'):
            S2 = S @ A + c
            obs2 = obs @ A + c
        if not np.array_equal(np.isfinite(S2).all(axis=1), np.isfinite(S).all(axis=1)):
            raise AssertionError('harness: affine map changed the finite rows')
        res2 = _call(api, _sample(S2, T, 'float'), _model(_obs2(obs2)), sn_names, pn_names)
        nmaps += 1
        for j, r in zip(req, infos):
            if not r['full_rank']:
                continue    # slope not unique => adjustment not unique, nothing to compare
            a1 = np.asarray(out[PN[j]], dtype=float)
            a2 = np.asarray(res2.outputs[PN[j]], dtype=float)
            if a1.shape != a2.shape or not np.allclose(a1, a2, rtol=RTOL, atol=ATOL):
                return bad('C17:adjust:not-affine-invariant' + tag,
                           {'param': PN[j], 'A': A.tolist(), 'c': c.tolist(), 'original': a1.tolist(),
                            'mapped': a2.tolist()}, **cnt)
    cnt['maps_checked'] = nmaps
    trivial = cnt['full_rank'] + cnt['rank_deficient'] == 0
    return ok(outcome=_h48(outcome), trivial=trivial, **cnt)


@guarded('C17')
def run_adj(case):
    """Replays exactly one adjustment sub-case."""
    return _adj_check(case)


# =========================================================================== refit (object reuse)
@guarded('C17')
def run_refit(case):
    from elfi.methods.post_processing import LinearAdjustment
    la = LinearAdjustment()
    n = 0
    for i, sub in enumerate(case['seq']):
        fresh = run_adj(sub)
        if fresh['viol']:
            return fresh
        try:
            r = _adj_check(sub, obj=la)
        except Exception as e:  # the same case passes on a fresh object
            r = bad('exception', {'exception': repr(e)[:300]})
        n += 1
        if r['viol']:
            if i == 0:
                return r
            return bad('C17:adjust:reused-adjustment-object-keeps-earlier-fit',
                       {'step': i, 'as_fresh_object': 'passes', 'on_reused_object': r['viol']})
        # adjust() twice on the same fit
        if not r.get('trivial'):
            o1 = {k: np.array(v, copy=True) for k, v in la.adjust().outputs.items()}
            o2 = {k: np.array(v, copy=True) for k, v in la.adjust().outputs.items()}
            if any(not np.array_equal(o1[k], o2[k]) for k in o1):
                return bad('C17:adjust:adjust-not-repeatable', {'step': i})
    return ok(outcome=_h48([s['S'] for s in case['seq']]), refit_steps=n)


# =========================================================================== end to end (real Rejection sample)
@guarded('C17')
def run_e2e(case):
    import elfi
    from elfi.methods.post_processing import adjust_posterior
    models.native_client()
    obs = _obs2(case['obs'])
    m = _model(obs)
    k = case['k']
    pn = case.get('pn')
    sn = case.get('sn') or list(range(k))
    rej = elfi.Rejection(m['d'], output_names=SN[:k], batch_size=case['bs'], seed=case['seed'])
    res = rej.sample(case['n'], n_sim=case['n_sim'], bar=False)
    S = np.column_stack([res.outputs[SN[j]] for j in range(k)])
    T = np.column_stack([res.outputs[PN[j]] for j in range(2)])
    before = {kk: np.array(v, copy=True) for kk, v in res.outputs.items()}
    adj = adjust_posterior(res, m, [SN[j] for j in sn], None if pn is None else [PN[j] for j in pn])
    req = [0, 1] if pn is None else list(pn)
    sig, det, cnt, outcome, infos = _judge(S[:, sn], np.array(obs)[sn], T, req, dict(adj.outputs), '')
    if sig:
        return bad(sig + ':rejection-sample', det, **cnt)
    if any(not np.array_equal(before[kk], res.outputs[kk]) for kk in before):
        # not demanded by the statement; recorded only
        cnt['input_sample_modified'] = 1
    return ok(outcome=_h48(outcome), **cnt)


# =========================================================================== compare_models
def _cmp_sample(d, n_sim, shape='flat'):
    from elfi.methods.results import Sample
    d = np.array([float(x) for x in d], dtype=float)
    if shape == 'col':      # what Rejection returns for a discrepancy node with (batch_size, 1) output
        d = d[:, None]
    return Sample(method_name='Rejection', outputs={'t': np.zeros(len(d)), 'd': d}, parameter_names=['t'],
                  discrepancy_name='d', n_sim=int(n_sim))


def _cmp_judge(p, cands, tie):
    """p: returned array; cands: allowed probability vectors (Fractions). -> signature or None"""
    p = np.asarray(p, dtype=float)
    if p.shape != (len(cands[0]),):
        return 'C17:compare:wrong-shape'
    if not np.all(np.isfinite(p)) or abs(float(p.sum()) - 1.0) > 1e-12:
        return 'C17:compare:not-summing-to-one'
    for c in cands:
        if np.allclose(p, [float(x) for x in c], rtol=1e-12, atol=1e-15):
            return None
    return 'C17:compare:tie-at-cut:no-valid-split-gives-result' if tie else 'C17:compare:formula-mismatch'


def _cmp_check(case):
    from elfi.methods.model_selection import compare_models
    ds = [[float(x) for x in d] for d in case['ds']]
    nsims = case['nsims']
    w = case.get('w')
    wmode = case.get('wmode', 'none')
    m = len(ds)
    cands, tie = ref.ref_compare(ds, nsims, w)
    unique = len(cands) == 1
    shape = case.get('shape', 'flat')
    stag = ':column-shaped-discrepancies' if shape == 'col' else ''
    samples = [_cmp_sample(d, ns, shape) for d, ns in zip(ds, nsims)]
    if w is None:
        pri = None
    elif wmode == 'norm':
        tot = float(sum(w))
        pri = [x / tot for x in w]
    elif wmode == 'norm-array':
        pri = np.array(w, dtype=float) / float(sum(w))
    else:
        pri = list(w)
    ncalls = 0
    first = None
    for perm in (itertools.permutations(range(m)) if case.get('perms', True) else [tuple(range(m))]):
        ss = [samples[i] for i in perm]
        pp = None if pri is None else (np.array([pri[i] for i in perm]) if isinstance(pri, np.ndarray)
                                       else [pri[i] for i in perm])
        p = compare_models(ss, pp) if pp is not None else compare_models(ss)
        ncalls += 1
        cp = [tuple(c[i] for i in perm) for c in cands]
        sig = _cmp_judge(p, cp, tie)
        if sig:
            ident = perm == tuple(range(m))
            det = {'order': list(perm), 'got': np.asarray(p).tolist(),
                   'allowed': [[str(x) for x in c] for c in cp], 'tie_at_cut': tie}
            if not ident and sig in ('C17:compare:formula-mismatch', 'C17:compare:tie-at-cut:no-valid-split-gives-result'):
                sig = 'C17:compare:result-does-not-permute-with-models'
                det['first_order_result'] = first
            if stag and sig not in ('C17:compare:wrong-shape', 'C17:compare:not-summing-to-one'):
                sig = 'C17:compare:wrong-probabilities'      # one root cause, one signature
            return bad(sig + stag, det, calls=ncalls)
        if first is None:
            first = np.asarray(p).tolist()
    return ok(outcome=_h48(np.round(np.asarray(first), 12)), calls=ncalls, tie_at_cut=int(tie),
              unique_share=int(unique), open_share=int(not unique))


@guarded('C17')
def run_cmp(case):
    return _cmp_check(case)


@guarded('C17')
def run_cmp_e2e(case):
    import elfi
    from elfi.methods.model_selection import compare_models
    models.native_client()
    samples = []
    for (kind, obs), n, nsim in zip(case['models'], case['ns'], case['n_sims']):
        m, dname, _ = models.build(kind, obs=float(obs))
        rej = elfi.Rejection(m, dname, batch_size=case['bs'], seed=case['seed'])
        samples.append(rej.sample(n, n_sim=nsim, bar=False))
    ds, stag = [], ''
    for s in samples:
        d = np.asarray(s.discrepancies, dtype=float)
        if d.ndim == 2 and d.shape[1] == 1:
            d, stag = d[:, 0], ':column-shaped-discrepancies'
        if d.ndim != 1:
            raise AssertionError('harness: toy model does not return scalar discrepancies')
        ds.append(d.tolist())
    nsims = [int(s.n_sim) for s in samples]
    w = case.get('w')
    cands, tie = ref.ref_compare(ds, nsims, w)
    ncalls = 0
    m_ = len(samples)
    for perm in itertools.permutations(range(m_)):
        pri = None if w is None else [w[i] / float(sum(w)) for i in perm]
        p = compare_models([samples[i] for i in perm], pri)
        ncalls += 1
        sig = _cmp_judge(p, [tuple(c[i] for i in perm) for c in cands], tie)
        if sig:
            if stag and sig not in ('C17:compare:wrong-shape', 'C17:compare:not-summing-to-one'):
                return bad('C17:compare:wrong-probabilities' + stag,
                           {'order': list(perm), 'got': np.asarray(p).tolist(), 'ds': ds, 'nsims': nsims, 'w': w,
                            'from': 'Rejection samples'}, calls=ncalls)
            return bad(sig + stag + ':rejection-sample', {'order': list(perm), 'got': np.asarray(p).tolist(), 'ds': ds,
                                                   'nsims': nsims, 'w': w}, calls=ncalls)
    return ok(outcome=_h48((ds, nsims, w)), calls=ncalls, tie_at_cut=int(tie), open_share=int(len(cands) > 1),
              unique_share=int(len(cands) == 1))


# =========================================================================== blocks of sub-cases
def gen_grid(b):
    """All summary matrices over b['vals'] (or all row-sorted ones) x the parameter matrices of the block."""
    n, k = b['n'], b['k']
    vals = b['vals']
    if b.get('rows_sorted'):
        it = itertools.combinations_with_replacement(list(itertools.product(vals, repeat=k)), n)
        it = ([list(r) for r in rows] for rows in it)
    else:
        it = ([list(flat[i * k:(i + 1) * k]) for i in range(n)] for flat in itertools.product(vals, repeat=n * k))
    it = itertools.islice(it, b['lo'], b['hi'])
    for S in it:
        for T in b['thetas']:
            for v in b['variants']:
                c = {'kind': 'adj', 'S': S, 'T': T, 'obs': b['obs']}
                c.update(v)
                yield c


def placements(ncells, symbols, kmax):
    yield ()
    for r in range(1, kmax + 1):
        for cells in itertools.combinations(range(ncells), r):
            for syms in itertools.product(symbols, repeat=r):
                yield tuple(zip(cells, syms))


def gen_place(b):
    """Base data x every placement of <= b['max'] non-finite symbols in its cells x variants."""
    S0, T0 = b['S'], b['T']
    n, k, p = len(S0), len(S0[0]), len(T0[0])
    w = k + p
    it = itertools.islice(placements(n * w, b['symbols'], b['max']), b.get('lo', 0), b.get('hi'))
    for pl in it:
        S = [list(r) for r in S0]
        T = [list(r) for r in T0]
        for cell, sym in pl:
            i, j = divmod(cell, w)
            if j < k:
                S[i][j] = sym
            else:
                T[i][j - k] = sym
        for v in b['variants']:
            c = {'kind': 'adj', 'S': S, 'T': T, 'obs': b['obs']}
            c.update(v)
            yield c


def _specs(n, dvals, nsims, wvals):
    return [(list(d), ns, w) for d in itertools.product(dvals, repeat=n) for ns in nsims for w in wvals]


def gen_cmp(b):
    sizes = b['sizes']
    wvals = [None] if b['wmode'] == 'none' else b['wvals']
    sp = [_specs(n, b['dvals'], b['nsims'], wvals) for n in sizes]
    first = range(b['lo'], min(b['hi'], len(sp[0])))
    for idx in itertools.product(first, *[range(len(s)) for s in sp[1:]]):
        # models of equal sample size: unordered (all orders are called explicitly in the sub-case)
        if any(sizes[i] == sizes[i + 1] and idx[i] > idx[i + 1] for i in range(len(sizes) - 1)):
            continue
        chosen = [sp[i][j] for i, j in enumerate(idx)]
        yield {'kind': 'cmp', 'ds': [c[0] for c in chosen], 'nsims': [c[1] for c in chosen],
               'w': None if b['wmode'] == 'none' else [c[2] for c in chosen], 'wmode': b['wmode'],
               'shape': b.get('shape', 'flat')}


GENS = {'blk-grid': (gen_grid, run_adj), 'blk-place': (gen_place, run_adj), 'blk-cmp': (gen_cmp, run_cmp)}


def run_block(b, keep=3):
    """Run every sub-case of a block. -> aggregated result + the smallest violating sub-cases per signature."""
    import json
    gen, runner = GENS[b['kind']]
    cnt = {}
    outs = set()
    viols = {}
    n = nontrivial = 0
    first = last = None
    for sub in gen(b):
        r = runner(sub)
        n += 1
        if first is None:
            first = sub
        last = sub
        for kk, v in r['cnt'].items():
            cnt[kk] = cnt.get(kk, 0) + v
        if r['viol']:
            lst = viols.setdefault(r['viol']['sig'], [])
            lst.append((len(json.dumps(sub)), sub, r))
            lst.sort(key=lambda t: (t[0], json.dumps(t[1], sort_keys=True)))
            del lst[keep:]
            nontrivial += 1
            continue
        if not r.get('trivial'):
            nontrivial += 1     # sub-cases of a block are pairwise different by construction
        if r.get('outcome') is not None:
            outs.add(r['outcome'])
    res = ok(outcome=None, **cnt)
    res.update(evals=n, distinct=nontrivial)
    return {'res': res, 'outs': sorted(outs), 'viols': [(s, r) for lst in viols.values() for _, s, r in lst],
            'first': first, 'last': last}


@guarded('C17')
def run_block_replay(b):
    out = run_block(b)
    if out['viols']:
        sub, r = out['viols'][0]
        r = dict(r)
        r['viol'] = dict(r['viol'], detail={'sub_case': sub, 'detail': r['viol'].get('detail')})
        return r
    return out['res']


RUNNERS = {'adj': run_adj, 'refit': run_refit, 'e2e': run_e2e, 'cmp': run_cmp, 'cmp-e2e': run_cmp_e2e,
           'blk-grid': run_block_replay, 'blk-place': run_block_replay, 'blk-cmp': run_block_replay}


def replay(case):
    return RUNNERS[case['kind']](case)


def _run_blocks(ctx, blocks, section):
    if ctx.only and section not in ctx.only:
        return
    def fn(b):
        return b, run_block(b)
    for i, (b, out) in enumerate(par.pmap(fn, blocks, chunksize=1, ordered=True)):
        ctx.record(b, out['res'], section)
        ctx.outcomes.update(out['outs'])
        for sub, r in out['viols']:
            r = dict(r, evals=0, trivial=True)     # already counted in the block's evals/distinct
            ctx.record(sub, r, section)
        if i == 0 and out['first'] is not None:
            ctx.add_sample(out['first'], key=(section, 'first'))
        if i == len(blocks) - 1 and out['last'] is not None:
            ctx.add_sample(out['last'], key=(section, 'last'))


def _run_cases(ctx, runner, cases, section, **kw):
    if ctx.only and section not in ctx.only:
        return
    ctx.run_cases(runner, cases, section, **kw)


# =========================================================================== alphabets
def _val(i, col, j):
    """Deterministic small integers (no random source): entry of row i, column col of base data set j."""
    return ((i + 1) * (2 * col + 3 + j) + i * i * (j % 5 + 1) + col * (j + 1) + (j // 7) * (i + col)) % 7


def base_data(n, k, p, j):
    S = [[_val(i, c, j) for c in range(k)] for i in range(n)]
    T = [[_val(i, 2 + c, j) for c in range(p)] for i in range(n)]
    return S, T


def bases(n, k, p, start, count):
    """The first `count` base data sets with index >= start whose design [1 S] has full column rank, whose
    parameters are not exactly linear in the summaries and, for p == 2, differ between the parameters."""
    out = []
    j = start
    while len(out) < count:
        S, T = base_data(n, k, p, j)
        A = np.column_stack([np.ones(n), np.array(S, dtype=float)])
        Tm = np.array(T, dtype=float)
        good = np.linalg.matrix_rank(A) == k + 1 and (p == 1 or not np.array_equal(Tm[:, 0], Tm[:, 1]))
        if good and n > k + 1:
            beta = np.linalg.lstsq(A, Tm, rcond=None)[0]
            good = bool(np.all(np.abs(beta[1:]).sum(axis=0) > 1e-6))   # a non-zero slope for every parameter
        if good:
            out.append((j, S, T))
        j += 1
        if j > start + 500:
            raise AssertionError('harness: no base data found')
    return out


# binary-exact common rescalings to very small / large scales (a unit such as metres vs nanometres): absolute tolerances
# anywhere in the adjustment show only there; the columns keep a common scale (no conditioning argument involved)
_SC = (2.0 ** -30, 2.0 ** -45, 2.0 ** 40)
MAPS1 = [([[2]], [0]), ([[0.5]], [0]), ([[-1]], [0]), ([[1]], [5]), ([[-3]], [2])] + [([[s_]], [0]) for s_ in _SC]
MAPS2 = [([[2, 0], [0, 0.5]], [0, 0]), ([[1, 1], [0, 1]], [0, 0]), ([[0, 1], [1, 0]], [0, 0]),
         ([[1, 0], [0, 1]], [3, -1]), ([[2, 0], [0, 0.5]], [3, -1])] + [([[s_, 0], [0, s_]], [0, 0]) for s_ in _SC]
MAPS1_T = MAPS1 + [([[4]], [-7]), ([[0.25]], [1])]
MAPS2_T = MAPS2 + [([[1, 1], [0, 1]], [3, -1]), ([[0, 1], [1, 0]], [3, -1]), ([[1, 1], [1, -1]], [0, 0]),
                   ([[2, 1], [1, 1]], [-2, 5]), ([[0, -1], [1, 0]], [0, 0]), ([[1, 0], [-2, 1]], [1, 1])]


def _chunks(total, size):
    return [(lo, min(total, lo + size)) for lo in range(0, total, size)]


CMP_QUICK = [
    # sizes, discrepancy alphabet, n_sim alphabet, [(weight mode, weight alphabet)]
    ((1, 1), [0, 1, 2], [1, 2, 5], [('none', None), ('norm', [1, 2, 5]), ('raw', [1, 2, 5])]),
    ((1, 2), [0, 1, 2], [1, 2, 5], [('none', None), ('norm', [1, 2, 5]), ('raw', [1, 2, 5])]),
    ((2, 2), [0, 1, 2], [1, 2, 5], [('none', None), ('norm', [1, 2, 5]), ('raw', [1, 2, 5])]),
    ((2, 3), [0, 1, 2], [1, 2, 5], [('none', None)]),
    ((2, 3), [0, 1, 2], [1, 5], [('norm', [2, 5])]),
    ((1, 1, 1), [0, 1, 2], [1, 2, 5], [('none', None), ('norm', [1, 2, 5])]),
    ((1, 1, 2), [0, 1, 2], [1, 2, 5], [('none', None)]),
    ((1, 1, 2), [0, 1, 2], [1, 5], [('norm', [2, 5])]),
    ((1, 2, 2), [0, 1, 2], [1, 5], [('none', None), ('norm', [2, 5])]),
]
CMP_COL_QUICK = [((1, 2), [0, 1, 2], [1, 2, 5], [('none', None)]), ((2, 2), [0, 1, 2], [1, 5], [('norm', [2, 5])])]
CMP_COL_THOROUGH = CMP_COL_QUICK + [((2, 3), [0, 1, 2], [1, 2, 5], [('none', None)]),
                                    ((1, 1, 2), [0, 1, 2], [1, 5], [('norm', [2, 5])])]
D4 = [0, 1, 2, 'inf']
ALLW = [('none', None), ('norm', [1, 2, 5]), ('raw', [1, 2, 5]), ('norm-array', [1, 2, 5])]
CMP_THOROUGH = [
    ((1, 1), D4, [1, 2, 5], ALLW),
    ((1, 2), D4, [1, 2, 5], ALLW),
    ((2, 2), D4, [1, 2, 5], ALLW),
    ((1, 3), D4, [1, 2, 5], ALLW),
    ((2, 3), D4, [1, 2, 5], [('none', None), ('norm', [1, 2, 5])]),
    ((2, 3), [0, 1, 2], [1, 2, 5], [('raw', [1, 2, 5]), ('norm-array', [1, 2, 5])]),
    ((3, 3), D4, [1, 2, 5], [('none', None), ('norm', [1, 2, 5])]),
    ((3, 3), [0, 1, 2], [1, 2, 5], [('raw', [1, 2, 5])]),
    ((1, 1, 1), D4, [1, 2, 5], ALLW),
    ((1, 1, 2), D4, [1, 2, 5], [('none', None), ('norm', [1, 2, 5])]),
    ((1, 1, 2), [0, 1, 2], [1, 2, 5], [('raw', [1, 2, 5])]),
    ((1, 2, 2), D4, [1, 2, 5], [('none', None)]),
    ((1, 2, 2), [0, 1, 2], [1, 2, 5], [('norm', [1, 2, 5])]),
    ((2, 2, 2), D4, [1, 2, 5], [('none', None)]),
    ((2, 2, 2), [0, 1, 2], [1, 2, 5], [('norm', [2, 5])]),
    ((1, 2, 3), [0, 1, 2], [1, 2, 5], [('none', None)]),
    ((1, 2, 3), [0, 1, 2], [1, 5], [('norm', [2, 5])]),
    ((2, 2, 3), [0, 1, 2], [1, 2, 5], [('none', None)]),
    ((2, 2, 3), [0, 1, 2], [1, 5], [('norm', [2, 5])]),
]


def _name_variants(k, p, q):
    pns = [None] + ([[0]] if p == 1 else [[0], [1], [0, 1], [1, 0]])
    sns = [None] + ([[1, 0]] if k == 2 else [])
    vs = [{'pn': pn, 'sn': sn, 'api': 'func'} for pn in pns for sn in sns if not (pn is None and sn is None)]
    vs += [{'pn': None, 'sn': None, 'api': api} for api in ('func-kw', 'func-obj', 'fit-adjust')]
    if not q:
        vs += [{'pn': pns[-1], 'sn': sns[-1], 'api': api} for api in ('func-kw', 'func-obj', 'fit-adjust')]
    return vs


def run(ctx):
    q = ctx.quick
    base = ctx.seed * 1000
    V = [{}]
    per_section = {}

    def section(name, fn, *a, **kw):
        n0 = len(ctx.outcomes)
        fn(ctx, *a, **kw)
        per_section[name] = len(ctx.outcomes) - n0

    # ------------------------------------------------------------------ grid
    blocks = []
    vals = [0, 1, 2]
    shapes = [(3, 1), (4, 1), (3, 2), (4, 2)] if q else [(3, 1), (4, 1), (5, 1), (6, 1), (3, 2), (4, 2), (5, 2)]
    n_theta = 2 if q else 3
    for n, k in shapes:
        total = len(vals) ** (n * k)
        obs_list = [[1, 2]] if q or (n, k) == (5, 2) else [[1, 2], [0, 0], [5, -1]]
        for p in (1, 2):
            if p == 2 and (q and (n, k) not in ((3, 1), (4, 1), (3, 2)) or not q and (n, k) == (5, 2)):
                continue
            thetas = [T for _, _, T in bases(n, k, p, base, 1 if q and (n, k) == (4, 2) else 2 if (n, k) == (5, 2) else n_theta)]
            for obs in obs_list:
                for lo, hi in _chunks(total, 150 if q else 1000):
                    blocks.append({'kind': 'blk-grid', 'n': n, 'k': k, 'p': p, 'vals': vals, 'obs': obs[:k],
                                   'thetas': thetas, 'variants': V, 'lo': lo, 'hi': hi})
        if k == 1 and (not q or n == 4):    # integer dtype inputs (e.g. a randint prior, a counting summary)
            thetas = [T for _, _, T in bases(n, k, 1, base, 1)]
            for lo, hi in _chunks(total, 1500):
                blocks.append({'kind': 'blk-grid', 'n': n, 'k': k, 'p': 1, 'vals': vals, 'obs': [1], 'thetas': thetas,
                               'variants': [{'dtype': 'int'}], 'lo': lo, 'hi': hi})
    if not q:
        # n = 6, k = 2: all row-sorted matrices (one representative per row-permutation class of S)
        import math
        total = math.comb(9 + 6 - 1, 6)
        thetas = [T for _, _, T in bases(6, 2, 1, base, 6)]
        for lo, hi in _chunks(total, 300):
            blocks.append({'kind': 'blk-grid', 'n': 6, 'k': 2, 'p': 1, 'vals': vals, 'obs': [1, 2], 'thetas': thetas,
                           'variants': V, 'lo': lo, 'hi': hi, 'rows_sorted': True})
    section('grid', _run_blocks, blocks, 'grid')

    # ------------------------------------------------------------------ nonfinite / affine / names
    ns = (3, 4, 5, 6)
    nb = 2 if q else 4
    blocks_nf, blocks_af, blocks_nm = [], [], []
    refit_pool = []
    for n in ns:
        for k in (1, 2):
            for p in (1, 2):
                for bi, (j, S, T) in enumerate(bases(n, k, p, base, 1 if q and n == 6 else nb)):
                    # observed summaries: a row of the data (even bases) or a point off the data (odd bases)
                    obs = list(S[0]) if bi % 2 == 0 else [1.5, -2][:k]
                    cells = n * (k + p)
                    symbols = ['nan', 'inf'] if q else ['nan', 'inf', '-inf']
                    total = sum(1 for _ in placements(cells, symbols, 2))
                    for lo, hi in _chunks(total, 150 if q else 800):
                        blocks_nf.append({'kind': 'blk-place', 'S': S, 'T': T, 'obs': obs, 'symbols': symbols,
                                          'max': 2, 'variants': V, 'lo': lo, 'hi': hi})
                    if (n <= 4 and not q) or (q and n == 3 and k == 1 and bi == 0):
                        total = sum(1 for _ in placements(cells, ['nan', 'inf'], 3))
                        skip = sum(1 for _ in placements(cells, ['nan', 'inf'], 2))
                        for lo, hi in _chunks(total - skip, 150 if q else 800):
                            blocks_nf.append({'kind': 'blk-place', 'S': S, 'T': T, 'obs': obs, 'symbols': ['nan', 'inf'],
                                              'max': 3, 'variants': V, 'lo': skip + lo, 'hi': skip + hi})
                    # affine maps
                    if bi < (1 if q else 3):
                        maps = (MAPS1 if q else MAPS1_T) if k == 1 else (MAPS2 if q else MAPS2_T)
                        va = [{'maps': [list(mp) for mp in maps]}]
                        mx = 1 if q or n > 4 else 2
                        total = sum(1 for _ in placements(cells, ['nan', 'inf'], mx))
                        for lo, hi in _chunks(total, 15 if q else 40):
                            blocks_af.append({'kind': 'blk-place', 'S': S, 'T': T, 'obs': obs, 'symbols': ['nan', 'inf'],
                                              'max': mx, 'variants': va, 'lo': lo, 'hi': hi})
                    # names / api variants
                    if bi < (1 if q else 2):
                        mx = 1 if q or n > 4 else 2
                        total = sum(1 for _ in placements(cells, ['nan', 'inf'], mx))
                        for lo, hi in _chunks(total, 20 if q else 50):
                            blocks_nm.append({'kind': 'blk-place', 'S': S, 'T': T, 'obs': obs, 'symbols': ['nan', 'inf'],
                                              'max': mx, 'variants': _name_variants(k, p, q), 'lo': lo, 'hi': hi})
                    if bi == 0 and n in ((3, 5) if q else (3, 4, 5)):
                        refit_pool.append({'kind': 'adj', 'S': S, 'T': T, 'obs': obs})
                        # the same data against other observed summaries (same summary node names, other model):
                        # a reused adjustment object must not remember the observed data of an earlier fit
                        if n == 3:
                            refit_pool.append({'kind': 'adj', 'S': S, 'T': T, 'obs': [1.5, -2][:k]})
                        if p == 2:
                            T2 = [list(r) for r in T]
                            T2[1][0] = 'nan'
                            S2 = [list(r) for r in S]
                            S2[n - 1][0] = 'inf'
                            refit_pool.append({'kind': 'adj', 'S': S2, 'T': T2, 'obs': obs, 'pn': [1, 0]})
    section('nonfinite', _run_blocks, blocks_nf, 'nonfinite')
    section('affine', _run_blocks, blocks_af, 'affine')
    section('names', _run_blocks, blocks_nm, 'names')

    # ------------------------------------------------------------------ refit
    depth = 2 if q else 3
    seqs = [list(s) for d in range(2, depth + 1) for s in itertools.product(range(len(refit_pool)), repeat=d)]
    if not q:
        seqs = [s for s in seqs if len(s) == 2 or max(s) < 6]
    cases = [{'kind': 'refit', 'seq': [refit_pool[i] for i in s]} for s in seqs]
    section('refit', _run_cases, run_refit, cases, 'refit')

    # ------------------------------------------------------------------ e2e
    cases = []
    for seed in range(base, base + (3 if q else 12)):
        for bs in (5, 20) if q else (1, 7, 20):
            for n, n_sim in ((4, 20), (8, 40)) if q else ((3, 20), (5, 20), (8, 40), (20, 100), (50, 200)):
                for k in (1, 2):
                    for pn in (None, [1]) if q else (None, [0], [1], [1, 0]):
                        for sn in ([None] if k == 1 or q else [None, [1, 0]]):
                            cases.append({'kind': 'e2e', 'seed': seed, 'bs': bs, 'n': n, 'n_sim': n_sim, 'k': k,
                                          'obs': [2.0, 1.0], 'pn': pn, 'sn': sn})
    section('e2e', _run_cases, run_e2e, cases, 'e2e')

    # ------------------------------------------------------------------ compare_models
    blocks = []
    table = [(c, 'flat') for c in (CMP_QUICK if q else CMP_THOROUGH)] + \
            [(c, 'col') for c in (CMP_COL_QUICK if q else CMP_COL_THOROUGH)]
    for (sizes, dv, nsims, wlist), shape in table:
        for wmode, wv in wlist:
            counts = [len(_specs(n, dv, nsims, [None] if wmode == 'none' else wv)) for n in sizes]
            total = 1
            for c in counts:
                total *= c
            step = max(1, counts[0] * 1200 // total)
            for lo, hi in _chunks(counts[0], step):
                blocks.append({'kind': 'blk-cmp', 'sizes': list(sizes), 'dvals': dv, 'nsims': nsims, 'wvals': wv,
                               'wmode': wmode, 'lo': lo, 'hi': hi, 'shape': shape})
    section('compare', _run_blocks, blocks, 'compare')

    cases = []
    for seed in range(base, base + (4 if q else 20)):
        for mods in ([['M1', 2.0], ['M1', 3.0]], [['M1', 2.0], ['M1', 4.0], ['M1', 1.0]], [['M1', 2.0], ['Minf', 2.0]],
                     [['Mcol', 2.0], ['Mcol', 4.0]]):
            for ns_ in ((2, 3, 2), (4, 4, 4)) if q else ((1, 2, 3), (2, 3, 2), (4, 4, 4), (5, 3, 6)):
                for w in (None, [1, 2, 5]):
                    cases.append({'kind': 'cmp-e2e', 'seed': seed, 'models': mods, 'ns': list(ns_[:len(mods)]),
                                  'n_sims': [8, 12, 20][:len(mods)], 'bs': 4, 'w': None if w is None else w[:len(mods)]})
    section('cmp-e2e', _run_cases, run_cmp_e2e, cases, 'cmp-e2e')

    ctx.extra['new_distinct_outcomes_per_section'] = per_section
    ctx.rule = (
        'grid: all matrices over {0,1,2}^(n x k) (n=6,k=2: all row-sorted ones) x parameter vectors x observed points; '
        'nonfinite: base data x every placement of <=2 (<=3 for small n) symbols from {nan,inf(,-inf)} over all '
        'summary and parameter cells; affine/names: base data x placements of <=1 (2) symbols x (affine maps | '
        'parameter_names x summary order x API entry point); refit: all ordered pairs (thorough: also triples) of cases '
        'on one object; e2e: product of seed x batch_size x (n,n_sim) x k x names on real Rejection samples; compare: '
        'product of discrepancy vectors x n_sim x prior weights per model (unordered for equal sizes) with every model '
        'order called explicitly. A sub-case is non-trivial when at least one requested parameter has a finite row '
        '(adjust) / always (compare); sub-cases of a block differ by construction; outcomes = digests of the rounded '
        'returned values')
    ctx.assumptions += [
        'scalar parameters and scalar summary nodes (the documented scope of RegressionAdjustment); values are small '
        'integers/halves, so the designs are well conditioned: value comparisons use rtol %g atol %g' % (RTOL, ATOL),
        'the slope is unique only for full column rank [1, S-s_obs] on the finite rows; for rank-deficient finite rows '
        '(incl. fewer rows than columns) any least-squares slope is accepted (normal equations + column-space test) '
        'and affine invariance is not demanded; a parameter without any finite row may be rejected with an exception',
        'a row at the observed summaries must be returned unchanged up to 1e-12 relative',
        'compare_models: discrepancy arrays of shape (n,) and (n,1) (both are returned by Rejection) without nan; weights exact rationals in the oracle, floats compared '
        'with rtol 1e-12; with a tie at the cut every split of the tied values between the models is accepted',
        'reference = numpy.linalg.lstsq with explicit intercept column / fractions; trusted',
        'reusing one LinearAdjustment object for a second fit is treated as legitimate use of adjust_posterior('
        'adjustment=<object>)',
        'VERIF_SEED shifts the index window of the base data sets / parameter vectors and the sampler seeds only',
    ]
