"""C15 Batch sub-seeds are distinct and depend only on (seed, index).  Mode H (explicit state).

Sections
  closure   : for every (seed, high) the reachable cache states of get_sub_seed are explored to
              closure (BFS over index requests, canonical cache state); in every state every index in
              -2..high+1 is requested: served indices must equal the cache-free answer, lie in
              [0,high), be pairwise distinct; unserveable indices must raise and leave the cache usable.
  sequences : the same without state merging - every index sequence up to a depth (confirms that the
              canonical state hides nothing).
  loader    : the same question one level up, through ComputationContext + RandomStateLoader with the
              default range: every batch-index sequence over a small index set, generator handed to
              the batch must equal the one of a fresh context.
  default   : default high = 2**31, indices 0..N in increasing / decreasing / jumping orders.
  nocache-interleaved : cache-free requests of two master seeds interleaved in every order (depth <= 3/4).
"""
import itertools

import numpy as np

from ..canon import digest
from ..guard import guarded
from ..report import ok, bad

PID = 'C15'
LEVEL = 'model_checking'


def _get():
    from elfi.utils import get_sub_seed
    return get_sub_seed


def _call(seed, i, high, cache):
    """-> ('v', int) or ('raise', type name)"""
    f = _get()
    try:
        if cache is None:
            r = f(seed, i, high=high)
        else:
            r = f(seed, i, high=high, cache=cache)
    except Exception as e:  # any exception is a rejection
        return ('raise', type(e).__name__)
    return ('v', int(r))


def _servable(i, high):
    return 0 <= i < high


def _baseline(seed, high):
    """Cache-free answers for all indices; checks range/injectivity/rejection. Returns (table, viol)."""
    table = {}
    for i in range(-2, high + 2):
        table[i] = _call(seed, i, high, None)
    vals = []
    for i in range(-2, high + 2):
        k, v = table[i]
        if _servable(i, high):
            if k != 'v':
                return table, ('serveable-index-rejected', {'i': i, 'got': table[i]})
            if not (0 <= v < high):
                return table, ('out-of-range', {'i': i, 'got': v})
            vals.append(v)
        else:
            if k == 'v':
                return table, ('unserveable-index-aliased', {'i': i, 'got': v})
    if len(set(vals)) != len(vals):
        return table, ('collision', {'values': vals})
    return table, None


def _apply(seed, high, hist):
    cache = {}
    res = []
    for i in hist:
        res.append(_call(seed, i, high, cache))
    return cache, res


@guarded('C15')
def run_closure(case):
    seed, high, max_depth = case['seed'], case['high'], case['max_depth']
    table, v = _baseline(seed, high)
    if v:
        return bad('C15:nocache:' + v[0], dict(v[1], seed=seed, high=high))
    alphabet = list(range(-2, high + 2))
    seen = {}
    cache0, _ = _apply(seed, high, [])
    seen[digest(cache0)] = []
    frontier = [[]]
    transitions = 0
    depth = 0
    closed = False
    while frontier and depth < max_depth:
        nxt = []
        for hist in frontier:
            for i in alphabet:
                cache, res = _apply(seed, high, hist + [i])
                transitions += 1
                if res[-1] != table[i] and not (res[-1][0] == 'raise' and table[i][0] == 'raise'):
                    return bad('C15:cache-history-dependence',
                               {'seed': seed, 'high': high, 'history': hist + [i], 'got': res[-1],
                                'cache_free': table[i]})
                k = digest(cache)
                if k not in seen:
                    seen[k] = hist + [i]
                    nxt.append(hist + [i])
        frontier = nxt
        depth += 1
    closed = not frontier
    return {'viol': None, 'outcome': digest(sorted(table.items())), 'trivial': False,
            'cnt': {'calls': transitions, 'closed': int(closed), 'not_closed': int(not closed)},
            'states': [digest((seed, high, k)) for k in seen], 'transitions': transitions,
            'validated': transitions, 'evals': transitions, 'distinct': transitions}


@guarded('C15')
def run_sequences(case):
    seed, high, depth = case['seed'], case['high'], case['depth']
    table, v = _baseline(seed, high)
    if v:
        return bad('C15:nocache:' + v[0], dict(v[1], seed=seed, high=high))
    alphabet = list(range(-1, high + 1))
    n = 0
    for L in range(1, depth + 1):
        for hist in itertools.product(alphabet, repeat=L):
            _, res = _apply(seed, high, list(hist))
            n += 1
            for i, r in zip(hist, res):
                t = table[i]
                if r != t and not (r[0] == 'raise' and t[0] == 'raise'):
                    return bad('C15:cache-history-dependence',
                               {'seed': seed, 'high': high, 'history': list(hist), 'got': res,
                                'cache_free': [table[j] for j in hist]})
    r = ok(outcome=None, calls=n)
    r.update(validated=n, evals=n, distinct=n)
    return r


def _loader_state(seed, hist):
    """Digest of the generator handed to the last batch of `hist` by a context with shared caches."""
    import networkx as nx
    from elfi.model.elfi_model import ComputationContext
    from elfi.loader import RandomStateLoader
    ctx = ComputationContext(batch_size=1, seed=seed)
    out = []
    for bi in hist:
        net = nx.DiGraph()
        net.add_node('_random_state')
        net = RandomStateLoader.load(ctx, net, bi)
        rs = net.nodes['_random_state']['output']
        out.append(digest(rs))
    return out


@guarded('C15')
def run_loader(case):
    seed, idx, depth = case['seed'], case['indices'], case['depth']
    fresh = {i: _loader_state(seed, [i])[0] for i in idx}
    if len(set(fresh.values())) != len(fresh):
        return bad('C15:loader-collision', {'seed': seed, 'indices': idx})
    n = 0
    for L in range(1, depth + 1):
        for hist in itertools.product(idx, repeat=L):
            got = _loader_state(seed, list(hist))
            n += 1
            exp = [fresh[i] for i in hist]
            if got != exp:
                return bad('C15:loader-history-dependence', {'seed': seed, 'history': list(hist)})
    r = ok(outcome=digest(fresh), calls=n)
    r.update(validated=n, evals=n, distinct=n)
    return r


@guarded('C15')
def run_default(case):
    seed, n = case['seed'], case['n']
    f = _get()
    base = [int(f(seed, i)) for i in range(n)]
    if len(set(base)) != n:
        return bad('C15:default-collision', {'seed': seed})
    if not all(0 <= v < 2 ** 31 for v in base):
        return bad('C15:default-out-of-range', {'seed': seed})
    orders = {
        'increasing': list(range(n)),
        'decreasing': list(range(n - 1, -1, -1)),
        'jumping': [j for i in range(0, n, 7) for j in (i, n - 1 - i, i // 2)],
        'repeated': [j for i in range(0, n, 5) for j in (i, i, 0)],
    }
    calls = 0
    for name, order in orders.items():
        cache = {}
        for i in order:
            v = int(f(seed, i, cache=cache))
            calls += 1
            if v != base[i]:
                return bad('C15:cache-history-dependence', {'seed': seed, 'order': name, 'index': i})
    # out of range must raise with and without cache, and leave the cache usable
    for cache in (None, {}):
        kw = {} if cache is None else {'cache': cache}
        if cache is not None:
            f(seed, 3, **kw)
        try:
            f(seed, 2 ** 31, **kw)
            return bad('C15:unserveable-index-aliased', {'seed': seed, 'i': 2 ** 31})
        except Exception:
            pass
        if int(f(seed, 5, **kw)) != base[5]:
            return bad('C15:cache-unusable-after-reject', {'seed': seed})
    r = ok(outcome=digest(base[:4]), calls=calls)
    r.update(validated=calls, evals=calls, distinct=len(orders))
    return r


@guarded('C15')
def run_nocache(case):
    """Cache-free requests interleaved between different master seeds and ranges: every sequence up to a depth over
    (seed, high, index) triples; each answer must equal the answer of the same request made with a fresh explicit cache
    (callers that pass no cache - SMC round seeds, BOLFI chain seeds, external operations - must not influence each
    other)."""
    f = _get()
    triples = [tuple(t) for t in case['triples']]
    ref = {}
    for (seed, high, i) in triples:
        ref[(seed, high, i)] = int(f(seed, i, high=high, cache={}))
    n = 0
    for L in range(1, case['depth'] + 1):
        for seq in itertools.product(triples, repeat=L):
            got = [int(f(seed, i, high=high)) for (seed, high, i) in seq]
            n += 1
            exp = [ref[t] for t in seq]
            if got != exp:
                return bad('C15:cache-free-request-depends-on-earlier-requests',
                           {'sequence': [list(t) for t in seq], 'got': got, 'alone': exp})
    r = ok(outcome=digest(sorted(ref.items())), calls=n)
    r.update(validated=n, evals=n, distinct=n)
    return r


# ---------------------------------------------------------------- a caller: the chains of BOLFI.sample
def _chain_sim(mu, batch_size=1, random_state=None):
    return mu + 0.1 * random_state.randn(batch_size, 1).reshape(np.shape(mu))


def _chain_seeds(master, n_chains, evidence_mu):
    """The seeds BOLFI.sample hands to its MCMC chains (recorded at elfi.methods.mcmc.metropolis)."""
    import elfi
    import elfi.methods.mcmc as mcmc
    from .. import models
    models.native_client()
    m = elfi.ElfiModel(name='c15chains')
    mu = elfi.Prior('uniform', 0, 1, model=m, name='mu')
    sim = elfi.Simulator(_chain_sim, mu, observed=np.array([0.5]), model=m, name='sim')
    d = elfi.Distance('euclidean', sim, model=m, name='d')
    ev = {'mu': np.asarray(evidence_mu, dtype=float), 'd': np.linspace(0.05, 1.0, len(evidence_mu))}
    bolfi = elfi.BOLFI(d, batch_size=1, initial_evidence=ev, bounds={'mu': (-1, 2)}, seed=master)
    seen = []
    real = mcmc.metropolis

    def rec(*a, seed=0, **kw):
        seen.append(int(seed))
        return real(*a, seed=seed, **kw)
    mcmc.metropolis = rec
    import contextlib
    import io
    try:
        with contextlib.redirect_stdout(io.StringIO()):
            bolfi.sample(6, n_chains=n_chains, algorithm='metropolis', sigma_proposals={'mu': 0.1},
                         n_evidence=len(evidence_mu))
    finally:
        mcmc.metropolis = real
    return seen


@guarded('C15')
def run_chains(case):
    """The seed of chain number i depends only on (master seed, i): the same for every evidence set, whatever candidate
    starting points (outside the prior support: log posterior -inf) had to be skipped before; chains differ pairwise."""
    inside = [0.50, 0.45, 0.55, 0.40, 0.60, 0.35, 0.65, 0.30, 0.70, 0.25, 0.75, 0.20]
    base = None
    n = 0
    for bad_at in case['unusable']:
        ev = list(inside)
        for j, i in enumerate(bad_at):
            ev[i] = -0.5 if j % 2 == 0 else 1.5
        got = _chain_seeds(case['seed'], case['n_chains'], ev)
        n += 1
        if len(got) != case['n_chains'] or len(set(got)) != len(got):
            return bad('C15:bolfi-chains:seeds-not-pairwise-different', {'case': case, 'unusable': bad_at, 'seeds': got})
        if base is None:
            base = got
        elif got != base:
            return bad('C15:bolfi-chains:chain-seed-depends-on-skipped-starting-points',
                       {'case': case, 'unusable': bad_at, 'seeds': got, 'seeds_with_all_points_usable': base})
    r = ok(outcome=digest(base), chain_seed_runs=n)
    r.update(evals=n, distinct=n)
    return r


RUNNERS = {'chains': run_chains, 'closure': run_closure, 'sequences': run_sequences, 'loader': run_loader, 'default': run_default,
           'nocache': run_nocache}


def replay(case):
    return RUNNERS[case['kind']](case)


def run(ctx):
    q = ctx.quick
    base = ctx.seed * 1000
    seeds = sorted(set([0, 1, 2, 3, 2 ** 31 - 1] + [base + k for k in range(4 if q else 12)]))
    highs = range(1, 6 if q else 9)
    ctx.rule = ('closure: BFS over index requests per (seed,high) with canonical cache state, all indices -2..high+1 '
                'requested in every reachable state; sequences: all index sequences up to depth d without state '
                'merging; loader: all batch-index sequences through ComputationContext+RandomStateLoader; '
                'bolfi-chains: master seed x number of chains x which of the best evidence points are unusable as chain starts; '
                'non-trivial = every case (each exercises a cache with >=1 earlier request); distinct by case content')
    cases = [{'kind': 'closure', 'seed': s, 'high': h, 'max_depth': 8} for s in seeds for h in highs]
    ctx.run_cases(run_closure, cases, 'closure')
    cases = [{'kind': 'sequences', 'seed': s, 'high': h, 'depth': (3 if q else 5) if h <= 4 else (2 if q else 4)}
             for s in seeds for h in highs]
    ctx.run_cases(run_sequences, cases, 'sequences')
    cases = [{'kind': 'loader', 'seed': s, 'indices': [0, 1, 2, 3, 5, 9], 'depth': 3 if q else 4}
             for s in seeds[: (4 if q else 8)]]
    ctx.run_cases(run_loader, cases, 'loader')
    cases = [{'kind': 'default', 'seed': s, 'n': 60 if q else 200} for s in seeds[: (4 if q else 10)]]
    ctx.run_cases(run_default, cases, 'default', chunksize=1, timeout=120)
    cases = []
    for (s1, s2) in [(seeds[0], seeds[1]), (seeds[2], seeds[-1])]:
        for high in (4, 2 ** 31):
            triples = [[s, high, i] for s in (s1, s2) for i in (0, 1, 2)]
            cases.append({'kind': 'nocache', 'triples': triples, 'depth': 3 if q else 4})
    ctx.run_cases(run_nocache, cases, 'nocache-interleaved', chunksize=1, timeout=600)
    cases = [{'kind': 'chains', 'seed': s, 'n_chains': nc, 'unusable': [[], [0], [1, 2], [0, 2, 3]]}
             for s in seeds[: (2 if q else 4)] for nc in ((4,) if q else (2, 4))]
    ctx.run_cases(run_chains, cases, 'bolfi-chains', chunksize=1, timeout=600)
    if ctx.cnt.get('not_closed'):
        ctx.exhaustive = False
    ctx.extra['explanation'] = ('states = reachable canonical cache states summed over (seed, high); transitions = '
                                'get_sub_seed calls made from those states; every call is made on the real function '
                                '(traces_validated_against_impl = calls compared with the cache-free answer)')
    ctx.assumptions += [
        'reference = the cache-free call of the same function (differential) plus range/injectivity/rejection '
        'checked directly on the cache-free answers',
        'small high (1..%d) forces collisions in the draw stream; default high=2**31 only on indices < 200' % (max(highs)),
        'any exception counts as rejection of an index',
    ]
