"""C16 Result objects report what the sampler produced, and survive saving.  Modes P + H.

Sections
  sample  : (P) Sample objects built from hand-made columns: every parameter-name order (1..3 parameters, all
            permutations, plus names whose string order differs from their numeric order) x insertion order of
            the outputs dict x n x weight vector x value matrix from a small grid (negatives, ties).  Oracle:
            samples keys / samples_array columns in parameter_names order and equal to the given columns, means ==
            exact-rational weighted averages, CI / quantiles in the C13 reference admissible set.
  bolfi   : (P) BolfiSample (and BOLFIRESample) from chains with distinct integers in every cell: chains x length x warm-up x parameter
            orders x cell numbering x memory layout.  Oracle: chain-by-chain concatenation of chain[warmup:]
            written with plain Python loops.
  history : (H) every operation sequence up to depth d over {save pkl, save json, save csv, query; replace the weights (plain Sample)} on Sample /
            SmcSample / BolfiSample objects: all accessors agree with their value before the history after every
            step; every written file is read back with the stdlib parsers and must contain the same samples.
  values  : (P) text round trip of a float64 / int64 value alphabet (all decimal exponents, awkward mantissas,
            denormals, extremes) through csv / json / pkl.
  diag    : (P) eff_sample_size / gelman_rubin_statistic on integer-grid chains: == direct-sum reference in exact
            rationals, invariant under binary-exact affine maps and under all chain permutations.
  real    : (P+H) Sample / SmcSample objects produced by real seeded Rejection / SMC runs on toy models: same
            oracle with the run's outputs as ground truth, then save/query histories.
"""
import csv
import functools
import itertools
import json
import math
import os
import pickle
import shutil
import sys
import tempfile
from fractions import Fraction as F

import numpy as np

from ..canon import digest, jsonable
from ..guard import guarded
from ..report import ok, bad
from ..ref import c16_ref as R

PID = 'C16'
LEVEL = 'exploration'
RTOL = 1e-9
DISC = 'dist'          # name of the discrepancy output in hand-made objects


# ------------------------------------------------------------------------------------------------ helpers
_TMP = None            # scratch directory of a whole run (created in run(), inherited by the forked workers)


def _scratch():
    # $VMC_SCRATCH wins; otherwise tmpfs when available (file creation on the disk fs costs 1-2 ms, 25x more)
    d = os.environ.get('VMC_SCRATCH') or ('/dev/shm' if os.access('/dev/shm', os.W_OK | os.X_OK) else '/var/tmp')
    return tempfile.mkdtemp(prefix='c16_', dir=d)


class _Scratch:
    """Directory for the files of one case: a per-process sub-name of the run's directory, or (replay) a
    private directory that is removed afterwards."""

    def __enter__(self):
        self.own = None
        if _TMP is not None and os.path.isdir(_TMP):
            self.prefix = os.path.join(_TMP, 'p%d_' % os.getpid())
        else:
            self.own = _scratch()
            self.prefix = os.path.join(self.own, 'p_')
        return self

    def path(self, name):
        return self.prefix + name

    def __exit__(self, *a):
        if self.own:
            shutil.rmtree(self.own, ignore_errors=True)


def _same_numbers(got, exp):
    """got (array / list) holds exactly the numbers of the Python list exp, in order."""
    try:
        g = list(got)
    except TypeError:
        return False
    if len(g) != len(exp):
        return False
    for a, b in zip(g, exp):
        try:
            if np.ndim(a) != 0 or not (a == b):
                return False
        except Exception:
            return False
    return True


def _close(got, exact, rtol=RTOL):
    try:
        g = float(got)
    except Exception:
        return False
    e = float(exact)
    if not math.isfinite(g):
        return False
    return abs(g - e) <= rtol * max(1.0, abs(e))


def _lst(a):
    try:
        return jsonable(np.asarray(a))
    except Exception:
        return repr(a)[:200]


def _dt(dtype):
    return {'f8': np.float64, 'i8': np.int64}[dtype]


def _insertion(names, order, disc):
    keys = list(names) + ([DISC] if disc else [])
    if order == 'sorted':
        return sorted(keys)
    if order == 'rsorted':
        return sorted(keys, reverse=True)
    if order == 'dfirst':
        return ([DISC] if disc else []) + list(names)
    raise KeyError(order)


def _disc_values(n):
    return [0.25 * (n - i) for i in range(n)]


def _make_sample(names, cols, order, w, dtype, disc=True, **meta):
    """Sample from {name: python list}; returns (sample, disc list or None)."""
    from elfi.methods.results import Sample
    n = len(cols[names[0]])
    dvals = _disc_values(n) if disc else None
    outputs = {}
    for k in _insertion(names, order, disc):
        outputs[k] = np.array(dvals, dtype=float) if k == DISC else np.array(cols[k], dtype=_dt(dtype))
    weights = None if w is None else np.array(w, dtype=float)
    s = Sample('Hand', outputs, list(names), discrepancy_name=DISC if disc else None, weights=weights, **meta)
    return s, dvals


@functools.lru_cache(maxsize=100000)
def _wmean_c(col, w):
    return R.wmean(col, w)


@functools.lru_cache(maxsize=100000)
def _adm_c(col, w, alpha):
    return frozenset(R.quantile_admissible(col, w, alpha))


def _wmean(col, w):
    return _wmean_c(tuple(col), None if w is None else tuple(w))


def _adm(col, w, alpha):
    return _adm_c(tuple(col), None if w is None else tuple(w), alpha)


def _check_sample(s, names, cols, w, disc, quantiles=(0.5,), observed=None):
    """The P oracle on one sample object.  cols: {name: list of python numbers}, w: list or None.
    Returns None or (signature suffix, detail)."""
    names = list(names)
    n, p = len(cols[names[0]]), len(names)
    keys = list(s.samples.keys())
    if keys != names:
        return 'samples:key-order', {'got': keys, 'parameter_names': names}
    for k in names:
        if not _same_numbers(s.samples[k], cols[k]):
            other = [o for o in names if o != k and _same_numbers(s.samples[k], cols[o])]
            return ('samples:column-of-other-parameter' if other else 'samples:column-mismatch',
                    {'parameter': k, 'got': _lst(s.samples[k]), 'expected': cols[k]})
    A = s.samples_array
    if getattr(A, 'shape', None) != (n, p):
        return 'samples_array:shape', {'got': list(getattr(A, 'shape', ())), 'expected': [n, p]}
    for j, k in enumerate(names):
        if not _same_numbers(A[:, j], cols[k]):
            perm = any(_same_numbers(A[:, j], cols[o]) for o in names)
            return ('samples_array:column-order' if perm else 'samples_array:mismatch',
                    {'column': j, 'parameter': k, 'got': _lst(A[:, j]), 'expected': cols[k]})
    if s.n_samples != n:
        return 'n_samples', {'got': s.n_samples, 'expected': n}
    if s.dim != p:
        return 'dim', {'got': s.dim, 'expected': p}
    if disc is None:
        if s.discrepancies is not None:
            return 'discrepancies', {'got': _lst(s.discrepancies), 'expected': None}
    elif not _same_numbers(s.discrepancies, disc):
        return 'discrepancies', {'got': _lst(s.discrepancies), 'expected': disc}
    exact = {k: _wmean(cols[k], w) for k in names}
    sm = s.sample_means
    if list(sm.keys()) != names:
        return 'sample_means:key-order', {'got': list(sm.keys()), 'parameter_names': names}
    for k in names:
        if not _close(sm[k], exact[k]):
            plain = w is not None and _close(sm[k], _wmean(cols[k], None))
            return ('sample_means:weights-ignored' if plain else 'sample_means:not-weighted-average',
                    {'parameter': k, 'got': _lst(sm[k]), 'expected': float(exact[k]), 'x': cols[k], 'w': w})
    sma = s.sample_means_array
    if getattr(sma, 'shape', None) != (p,) or not all(_close(sma[j], exact[k]) for j, k in enumerate(names)):
        return 'sample_means_array:order', {'got': _lst(sma), 'expected': [float(exact[k]) for k in names]}
    ci = s.sample_means_and_95CIs
    if list(ci.keys()) != names:
        return 'ci:key-order', {'got': list(ci.keys()), 'parameter_names': names}
    for k in names:
        t = ci[k]
        if len(t) != 3 or not _close(t[0], exact[k]):
            return 'ci:mean', {'parameter': k, 'got': _lst(t), 'expected_mean': float(exact[k])}
        for pos, alpha in ((1, F(25, 1000)), (2, F(975, 1000))):
            adm = _adm(cols[k], w, alpha)
            if np.ndim(t[pos]) != 0 or R.frac(t[pos]) not in adm:
                return 'ci:not-weighted-quantile', {'parameter': k, 'alpha': float(alpha), 'got': _lst(t[pos]),
                                                    'admissible': sorted(float(a) for a in adm), 'x': cols[k], 'w': w}
    for alpha in quantiles:
        q = s.sample_quantiles(alpha=alpha)
        if list(q.keys()) != names:
            return 'quantiles:key-order', {'got': list(q.keys()), 'parameter_names': names}
        for k in names:
            adm = _adm(cols[k], w, alpha)
            if np.ndim(q[k]) != 0 or R.frac(q[k]) not in adm:
                return 'quantiles:not-weighted-quantile', {'parameter': k, 'alpha': alpha, 'got': _lst(q[k]),
                                                           'admissible': sorted(float(a) for a in adm),
                                                           'x': cols[k], 'w': w}
    if observed is not None:
        observed.append((tuple(float(sm[k]) for k in names), tuple((float(ci[k][1]), float(ci[k][2])) for k in names)))
    return None


# ------------------------------------------------------------------------------------------------ section sample
GRID = {'f8': [-2.0, 0.0, 1.0, 1.5, 3.0], 'i8': [-2, 0, 1, 3, 7]}
PATTERNS = {
    'f8': [(0.0, 1.0, 2.0, 3.0, 4.0), (3.0, 1.0, -2.0, 1.0, 0.5), (1.5, 1.5, 1.5, 1.5, 1.5), (4.0, 3.0, 2.0, 1.0, 0.0),
           (0.0, 0.0, -1.0, -1.0, 2.0), (2.0, -2.0, 2.0, -2.0, 1.0), (-0.25, 8.0, -0.25, 0.75, 8.0)],
    'i8': [(0, 1, 2, 3, 4), (3, 1, -2, 1, 0), (5, 5, 5, 5, 5), (4, 3, 2, 1, 0),
           (0, 0, -1, -1, 2), (2, -2, 2, -2, 1), (-3, 8, -3, 6, 8)],
}


def _sample_matrices(case):
    """All value matrices (one column list per parameter, in parameter_names order) of a group case."""
    p, n, dtype = len(case['names']), case['n'], case['dtype']
    if case['cols'] == 'grid':
        colset = [list(c) for c in itertools.product(GRID[dtype][:case['k']], repeat=n)]
    else:
        colset = [list(c[:n]) for c in PATTERNS[dtype][:case['k']]]
    return itertools.product(colset, repeat=p)


def _run_one_sample(names, order, w, dtype, X):
    cols = {k: list(c) for k, c in zip(names, X)}
    s, disc = _make_sample(names, cols, order, w, dtype, n_sim=12, threshold=0.5)
    obs = []
    v = _check_sample(s, names, cols, w, disc, observed=obs)
    if v:
        return v, None
    return None, obs[0]


@guarded('C16')
def run_samples(case):
    names, order, w, dtype = case['names'], case['order'], case['w'], case['dtype']
    n_eval = 0
    outs = set()
    for X in _sample_matrices(case):
        n_eval += 1
        v, out = _run_one_sample(names, order, w, dtype, X)
        if v:
            sub = {'kind': 'sample1', 'names': names, 'order': order, 'w': w, 'dtype': dtype, 'X': [list(c) for c in X]}
            return bad('C16:' + v[0], dict(v[1], subcase=sub))
        outs.add(out)
    r = ok(outcome=digest(sorted(outs)), weighted=int(w is not None) * n_eval,
           zero_weight=int(w is not None and 0 in w) * n_eval, sample_sub_outcomes=len(outs))
    r.update(evals=n_eval, distinct=n_eval)
    return r


@guarded('C16')
def run_sample1(case):
    v, out = _run_one_sample(case['names'], case['order'], case['w'], case['dtype'], case['X'])
    if v:
        return bad('C16:' + v[0], v[1])
    return ok(outcome=digest(out))


def _name_orders(max_p, extra=True):
    out = []
    for p in range(1, max_p + 1):
        base = ['a', 'b', 'c', 'e'][:p]
        out.extend(list(x) for x in itertools.permutations(base))
    if extra:   # string order differs from numeric order; upper case sorts before lower case
        out += [['t2', 't10'], ['t10', 't2'], ['B', 'a'], ['a', 'B'], ['t1', 't10', 't2']]
    return out


def _weight_kinds(n):
    ws = [None, [2] * n, [1, 2, 3, 4, 5][:n]]
    if n >= 2:
        ws += [[0, 1, 2, 1, 3][:n], [3, 1, 0, 0, 2][:n]]
        # one element carries between 2.5% and 5% of the weight: distinguishes the 0.025/0.975 levels from 0.05/0.95
        ws += [[1, 29, 1, 1, 1][:n], [29, 1, 1, 1, 1][:n]]
    return ws


def _all_weights(n, top):
    return [None] + [list(w) for w in itertools.product(range(top + 1), repeat=n) if any(w)]


def _sample_cases(q):
    cases = []
    orders = ['sorted', 'rsorted', 'dfirst']
    for names in _name_orders(3 if q else 4):
        p = len(names)
        for n in range(1, 5 if q else 6):
            for dtype in ('f8', 'i8'):
                if q and dtype == 'i8' and p > 2:
                    continue
                if p == 1:
                    spec = ('grid', 4 if (q or n >= 5) else 5)
                elif p == 2:
                    spec = ('pat', 5 if q else 7)
                else:
                    spec = ('pat', 3 if q else (4 if p == 3 else 3))
                for order in orders:
                    if q and dtype == 'i8' and order == 'rsorted':
                        continue
                    weights = _weight_kinds(n)
                    if not q and dtype == 'f8' and order == 'dfirst':
                        # thorough: the complete weight-vector product on one (dtype, insertion order) slice
                        if p == 1:
                            weights = _all_weights(n, 3) if n <= 4 else _all_weights(n, 1)
                        elif p == 2:
                            weights = _all_weights(n, 2) if n <= 4 else _all_weights(n, 1)
                        elif p == 3 and n <= 4:
                            weights = _all_weights(n, 1)
                        weights = weights + [w for w in _weight_kinds(n) if w not in weights]
                    for w in weights:
                        cases.append({'kind': 'samples', 'names': names, 'order': order, 'n': n, 'w': w,
                                      'dtype': dtype, 'cols': spec[0], 'k': spec[1]})
    return cases


# ------------------------------------------------------------------------------------------------ section bolfi
def _cell(c, t, j, L, p, numbering):
    k = 1 + j + p * (t + L * c)          # 1.. in C order of (chain, step, parameter)
    if numbering == 'asc':
        return float(k)
    if numbering == 'desc':
        return float(-k)
    if numbering == 'scr':               # injective scrambling (k < 499): neither sorted nor monotone in any index
        return float((k * 89) % 499) + 0.5
    raise KeyError(numbering)


def _bolfi_input(m, L, p, numbering, layout):
    """(nested Python list cells[c][t][j], ndarray of shape (m, L, p) in the requested memory layout)."""
    cells = [[[_cell(c, t, j, L, p, numbering) for j in range(p)] for t in range(L)] for c in range(m)]
    base = np.array(cells, dtype=float)
    if layout == 'C':
        arr = base
    elif layout == 'F':
        arr = np.asfortranarray(base)
    elif layout == 'T':                  # stored as (p, L, m), handed over transposed
        arr = np.ascontiguousarray(base.transpose(2, 1, 0)).transpose(2, 1, 0)
    elif layout == 'view':               # non-contiguous window of a larger buffer
        big = np.full((m + 1, L + 2, p + 1), -777.0)
        big[:m, 1:L + 1, :p] = base
        arr = big[:m, 1:L + 1, :p]
    else:
        raise KeyError(layout)
    assert arr.shape == (m, L, p) and np.array_equal(arr, base)
    return cells, arr


@guarded('C16')
def run_bolfi(case):
    from elfi.methods import results
    m, L, wu, names = case['m'], case['len'], case['warmup'], list(case['names'])
    p = len(names)
    cells, arr = _bolfi_input(m, L, p, case['numbering'], case['layout'])
    bolfire = case.get('cls') == 'BOLFIRESample'      # same contract, separate constructor
    cls = results.BOLFIRESample if bolfire else results.BolfiSample
    b = cls(method_name='BOLFI', chains=arr, parameter_names=list(names), warmup=wu, threshold=0.25, n_sim=11, seed=3)
    exp = {k: [cells[c][t][j] for c in range(m) for t in range(wu, L)] for j, k in enumerate(names)}
    keys = list(b.samples.keys())
    if keys != names:
        return bad('C16:bolfi:key-order', {'got': keys, 'parameter_names': names})
    for j, k in enumerate(names):
        got = b.samples[k]
        if _same_numbers(got, exp[k]):
            continue
        g = _lst(got)
        col_cells = [cells[c][t][j] for c in range(m) for t in range(L)]
        info = {'parameter': k, 'got': g, 'expected': exp[k]}
        if not isinstance(g, list) or any(not isinstance(x, float) for x in g):
            return bad('C16:bolfi:samples-mismatch', info)
        if sorted(g) == sorted(exp[k]):
            return bad('C16:bolfi:not-chain-by-chain', info)
        if set(g) <= set(col_cells):
            return bad('C16:bolfi:warmup-slice', info)
        return bad('C16:bolfi:column-of-other-parameter', info)
    v = _check_sample(b, names, exp, None, None)
    if v:
        return bad('C16:bolfi:' + v[0], v[1])
    if b.n_samples != m * (L - wu):
        return bad('C16:bolfi:n_samples', {'got': b.n_samples, 'expected': m * (L - wu)})
    if b.n_chains != m or not np.array_equal(np.asarray(b.chains), np.array(cells)) or \
            (not bolfire and b.warmup != wu):       # BOLFIRESample stores the warmed-up array under `warmup`: not judged
        return bad('C16:bolfi:meta', {'n_chains': b.n_chains, 'warmup': _lst(b.warmup)})
    return ok(outcome=digest([exp[k] for k in names]), warmup_zero=int(wu == 0), multi_chain=int(m > 1))


def _bolfi_cases(q):
    cases = []
    for m in range(1, 4 if q else 5):
        for L in range(2, 6 if q else 8):
            for wu in range(0, L):
                for names in _name_orders(3 if q else 4, extra=not q):
                    for numbering in ('asc', 'desc', 'scr'):
                        for layout in (('C', 'view') if q else ('C', 'F', 'T', 'view')):
                            cases.append({'kind': 'bolfi', 'm': m, 'len': L, 'warmup': wu, 'names': names,
                                          'numbering': numbering, 'layout': layout})
                            if layout == 'C' or not q:
                                cases.append(dict(cases[-1], cls='BOLFIRESample'))
    return cases


# ------------------------------------------------------------------------------------------------ section history
HARD = [0.1, -1.0 / 3.0, 1e-7, 123456.789, -2.5e-7, 1e22, 1.5, 2.0 / 3.0, 1e-300, -98765.4321e10, 3.141592653589793,
        -0.7, 1e16 + 2.0, 4.9e-5, -6.02214076e23, 0.30000000000000004, 2.0 ** -30, -17.0, 299792458.0, 1e-15,
        7.0, 0.2, -0.1, 1e300]
INTS = [3, -1, 4, 1, -5, 9, 2, 6, 0, 35, -8, 97, 2 ** 40, -2 ** 33 + 1, 12, 7, 19, -23, 41, 5, 8, 11, 13, 17]


def _hist_cols(names, n, dtype, shift=0):
    src = HARD if dtype == 'f8' else INTS
    return {k: [src[(shift + j * n + i) % len(src)] for i in range(n)] for j, k in enumerate(names)}


def _hist_weights(kind, n):
    if kind == 'none':
        return None
    if kind == 'skew':
        return [1.0, 2.0, 3.0, 4.0, 5.0][:n]
    if kind == 'zero':
        return [0.0, 1.5, 2.0, 0.0, 1.0][:n] if n > 1 else [2.0]
    if kind == 'frac':
        return [0.1, 0.2, 0.7, 0.3, 0.05][:n]
    raise KeyError(kind)


def _meta(kind):
    if kind == 'py':
        return dict(n_sim=12, threshold=0.5, seed=7, n_batches=3)
    return dict(n_sim=np.int64(12), threshold=np.float64(0.5), seed=np.uint32(7), n_batches=np.int64(3),
                accept_rate=np.float64(0.25))


def _build_obj(spec):
    """-> (object, truth).  truth = dict(names, cols, w, disc, pops=[(cols, w, disc)...])."""
    from elfi.methods.results import Sample, SmcSample, BolfiSample  # noqa: F401
    names, n, dtype = list(spec['names']), spec['n'], spec.get('dtype', 'f8')
    cls = spec['cls']
    if cls == 'Sample':
        cols = _hist_cols(names, n, dtype)
        w = _hist_weights(spec['w'], n)
        s, disc = _make_sample(names, cols, spec.get('order', 'dfirst'), w, dtype, disc=spec.get('disc', True),
                               **_meta(spec.get('meta', 'py')))
        return s, dict(names=names, cols=cols, w=w, disc=disc, pops=[])
    if cls == 'Smc':
        pops, tp = [], []
        for r in range(spec.get('n_pop', 2)):
            cols = _hist_cols(names, n, dtype, shift=5 * r + 1)
            w = _hist_weights(['skew', 'frac', 'zero'][r % 3], n)
            s, disc = _make_sample(names, cols, 'dfirst', w, dtype, **dict(_meta(spec.get('meta', 'py')),
                                                                            threshold=1.0 / (r + 1)))
            pops.append(s)
            tp.append(dict(cols=cols, w=w, disc=disc))
        last = pops[-1]
        s = SmcSample(method_name='SMC', outputs=last.outputs, parameter_names=list(names), populations=list(pops),
                      discrepancy_name=DISC, weights=last.weights,
                      **dict(_meta(spec.get('meta', 'py')), threshold=last.threshold))
        return s, dict(names=names, cols=tp[-1]['cols'], w=tp[-1]['w'], disc=tp[-1]['disc'], pops=tp)
    if cls == 'Bolfi':
        m, L, wu, p = spec['m'], n, spec['warmup'], len(names)
        cells = [[[HARD[(j + p * (t + L * c)) % len(HARD)] for j in range(p)] for t in range(L)] for c in range(m)]
        b = BolfiSample(method_name='BOLFI', chains=np.array(cells, dtype=float), parameter_names=list(names),
                        warmup=wu, **_meta(spec.get('meta', 'py')))
        cols = {k: [cells[c][t][j] for c in range(m) for t in range(wu, L)] for j, k in enumerate(names)}
        return b, dict(names=names, cols=cols, w=None, disc=None, pops=[])
    if cls == 'Bsl':
        from elfi.methods.results import BslSample
        burn = spec['warmup']
        full = _hist_cols(names, n, dtype)
        b = BslSample(method_name='BSL', samples_all={k: np.array(full[k], dtype=_dt(dtype)) for k in sorted(names)},
                      parameter_names=list(names), burn_in=burn, acc_rate=0.375, n_sim=40)
        cols = {k: full[k][burn:] for k in names}
        return b, dict(names=names, cols=cols, w=None, disc=None, pops=[])
    raise KeyError(cls)


def _items(d):
    return [(k, v) for k, v in d.items()]


ACCESSORS = [
    ('samples', lambda o: _items(o.samples)),
    ('samples_array', lambda o: o.samples_array),
    ('sample_means', lambda o: _items(o.sample_means)),
    ('sample_means_array', lambda o: o.sample_means_array),
    ('sample_means_and_95CIs', lambda o: _items(o.sample_means_and_95CIs)),
    ('sample_quantiles', lambda o: [_items(o.sample_quantiles(alpha=a)) for a in (0.025, 0.5, 0.975)]),
    ('n_samples', lambda o: o.n_samples),
    ('dim', lambda o: o.dim),
    ('discrepancies', lambda o: o.discrepancies),
    ('weights', lambda o: o.weights),
    ('outputs', lambda o: o.outputs),
    ('parameter_names', lambda o: list(o.parameter_names)),
    ('is_multivariate', lambda o: o.is_multivariate),
    ('covariance', lambda o: o.get_sample_covariance()),
    ('meta', lambda o: dict(o.meta)),
    ('str', lambda o: str(o)),
    ('compute_ess', lambda o: o.compute_ess() if hasattr(type(o), 'compute_ess') and o.n_samples > 1 else None),
    ('populations', lambda o: [[_items(p.samples), _items(p.sample_means), _items(p.sample_means_and_95CIs),
                                p.weights, p.discrepancies, str(p)] for p in getattr(o, 'populations', [])]),
]


def _query(obj, catch):
    """{accessor: digest}.  With catch, an exception is an observation ('raise', type) instead of propagating."""
    out = {}
    for name, fn in ACCESSORS:
        so = sys.stdout
        try:
            out[name] = digest(fn(obj))
        except Exception as e:
            if not catch:
                raise
            out[name] = 'raise:' + type(e).__name__
        finally:
            sys.stdout = so     # Sample.__str__ swaps sys.stdout and does not restore it when summary raises
    return out


def _samples_mutated(obj):
    """True when some stored sample column is no longer an ndarray."""
    objs = [obj] + list(getattr(obj, 'populations', []) or [])
    return any(not isinstance(v, np.ndarray) for o in objs for v in o.samples.values())


def _readback(fmt, path, obj_cls, truth, q0):
    """Read a saved file with the stdlib parser; -> None or (signature suffix, detail)."""
    names, cols = truth['names'], truth['cols']
    if fmt == 'pkl':
        with open(path, 'rb') as f:
            o = pickle.load(f)
        if type(o) is not obj_cls:
            return 'pkl:class', {'got': type(o).__name__}
        v = _check_sample(o, names, cols, truth['w'], truth['disc'])
        if v:
            return 'pkl:readback-differs:' + v[0], v[1]
        q = _query(o, catch=True)
        diff = sorted(k for k in q0 if q[k] != q0[k])
        if diff:
            return 'pkl:loaded-object-differs', {'accessors': diff}
        return None
    if fmt == 'json':
        with open(path) as f:
            d = json.load(f)
        sam = d.get('samples') if isinstance(d, dict) else None
        # a JSON object is an unordered mapping: the same samples = the same name -> values mapping
        if not isinstance(sam, dict) or sorted(sam.keys()) != sorted(names):
            return 'json:readback-differs', {'got_keys': list(sam.keys()) if isinstance(sam, dict) else repr(sam)[:100],
                                             'parameter_names': names}
        if 'parameter_names' in d and d['parameter_names'] != names:
            return 'json:parameter_names-differ', {'got': d['parameter_names'], 'parameter_names': names}
        for k in names:
            if not isinstance(sam[k], list) or not _same_numbers(sam[k], cols[k]):
                return 'json:readback-differs', {'parameter': k, 'got': sam[k], 'expected': cols[k]}
        # further content is only compared when the file has it (the statement speaks about the samples)
        if d.get('weights') is not None and truth['w'] is not None and not _same_numbers(d['weights'], truth['w']):
            return 'json:weights-differ', {'got': d['weights'], 'expected': truth['w']}
        if d.get('discrepancies') is not None and truth['disc'] is not None and \
                not _same_numbers(d['discrepancies'], truth['disc']):
            return 'json:discrepancies-differ', {'got': d['discrepancies'], 'expected': truth['disc']}
        pops = d.get('populations')
        # populations are samples of the object too: a file that carries them carries all of them
        if isinstance(pops, dict) and truth['pops'] and len(pops) != len(truth['pops']):
            return 'json:number-of-populations-differs', {'in_file': len(pops), 'in_object': len(truth['pops'])}
        if isinstance(pops, dict) and truth['pops'] and len(pops) == len(truth['pops']):
            for (key, pd), tp in zip(pops.items(), truth['pops']):
                ps = pd.get('samples') if isinstance(pd, dict) else None
                if isinstance(ps, dict):
                    if sorted(ps.keys()) != sorted(names) or not all(_same_numbers(ps[k], tp['cols'][k]) for k in names):
                        return 'json:population-differs', {'population': key, 'got': ps, 'expected': tp['cols']}
        return None
    if fmt == 'csv':
        with open(path, newline='') as f:
            rows = list(csv.reader(f))
        # columns are identified by their header cell (any column order is the same name -> values mapping)
        if not rows or sorted(rows[0]) != sorted(names):
            return 'csv:readback-differs', {'header': rows[:1], 'parameter_names': names}
        body = rows[1:]
        n = len(cols[names[0]])
        if len(body) != n or any(len(r) != len(names) for r in body):
            return 'csv:readback-differs', {'n_rows': len(body), 'expected': n}
        for j, k in enumerate(rows[0]):
            try:
                got = [int(r[j]) if isinstance(cols[k][i], int) else float(r[j]) for i, r in enumerate(body)]
            except ValueError:
                return 'csv:readback-differs', {'parameter': k, 'cells': [r[j] for r in body]}
            if not _same_numbers(got, cols[k]):
                return 'csv:readback-differs', {'parameter': k, 'got': got, 'expected': cols[k]}
        return None
    raise KeyError(fmt)


def _state(obj):
    return digest(vars(obj))


def _run_history(obj, truth, ops, tmp):
    """Apply ops; -> (violation or None, set of state digests)."""
    q0 = _query(obj, catch=False)
    states = {_state(obj)}
    for fmt in ('pkl', 'csv', 'json'):      # no stale file of an earlier case (later saves of a history overwrite)
        if os.path.exists(tmp.path('s.' + fmt)):
            os.remove(tmp.path('s.' + fmt))
    for i, op in enumerate(ops):
        if op in ('reweight', 'reweight2'):
            # the weights of a result object are replaced (the SMC sampler does this itself after constructing a
            # population): from here on the object has to describe the stored samples under the NEW weights
            n_ = len(truth['cols'][truth['names'][0]])
            new_w = ([5.0, 1.0, 0.5, 2.0, 4.0] if op == 'reweight' else [0.25, 3.0, 1.0, 0.0, 2.0])[:n_]
            obj.weights = np.array(new_w)
            truth = dict(truth, w=new_w)
            v = _check_sample(obj, truth['names'], truth['cols'], new_w, truth['disc'])
            if v:
                return ('after-reweighting:' + v[0], dict(v[1], step=i, op=op)), states
            q0 = _query(obj, catch=False)
            states.add(_state(obj))
            continue
        if op != 'query':
            path = tmp.path('s.' + op)
            obj.save(path)
            if not os.path.exists(path):
                return ('%s:no-file-written' % op, {'step': i}), states
            v = _readback(op, path, type(obj), truth, q0)
            if v:
                return (v[0], dict(v[1], step=i, op=op)), states
        q = _query(obj, catch=True)
        diff = sorted(k for k in q0 if q[k] != q0[k])
        if diff:
            info = {'step': i, 'op': op, 'accessors_that_changed': diff,
                    'now': {k: q[k] for k in diff if q[k].startswith('raise:')},
                    'sample_types': sorted({type(v).__name__ for v in obj.samples.values()})}
            if op != 'query' and _samples_mutated(obj):
                return ('%s-save-mutates-samples' % op, info), states
            if op != 'query' and diff == ['meta']:
                return ('%s-save-mutates-meta' % op, info), states
            return ('query-differs-after-%s' % op, info), states
        states.add(_state(obj))
    return None, states


@guarded('C16')
def run_hist(case):
    spec, ops = case['obj'], case['ops']
    with _Scratch() as tmp:
        obj, truth = _build_obj(spec)
        v = _check_sample(obj, truth['names'], truth['cols'], truth['w'], truth['disc'])
        if v:
            return bad('C16:' + v[0], v[1])
        v, states = _run_history(obj, truth, ops, tmp)
        if v:
            return bad('C16:' + v[0], v[1])
    sd = digest(spec)
    r = ok(outcome=digest((sd, sorted(states))), saves=sum(o != 'query' for o in ops))
    r.update(states=[digest((sd, s)) for s in states], transitions=len(ops), validated=len(ops))
    return r


def _hist_objects(q):
    objs = []
    for names in (['a'], ['b', 'a'], ['c', 'a', 'b']) if q else (['a'], ['a', 'b'], ['b', 'a'], ['c', 'a', 'b'],
                                                                ['t10', 't2']):
        for n in (1, 3) if q else (1, 2, 4):
            for w in ('none', 'frac') if q else ('none', 'skew', 'zero', 'frac'):
                for dtype, meta in (('f8', 'np'), ('i8', 'py')) if q else (('f8', 'np'), ('f8', 'py'), ('i8', 'np')):
                    objs.append({'cls': 'Sample', 'names': names, 'n': n, 'w': w, 'dtype': dtype, 'meta': meta,
                                 'disc': not (len(names) == 1 and w == 'none')})
        for n in (2,) if q else (1, 3):
            for n_pop in (1, 2) if q else (1, 2, 3):
                objs.append({'cls': 'Smc', 'names': names, 'n': n, 'n_pop': n_pop, 'meta': 'np'})
        if names == ['a']:      # more populations than letters in the alphabet (long adaptive runs)
            for n_pop in (27, 53):
                objs.append({'cls': 'Smc', 'names': names, 'n': 2, 'n_pop': n_pop, 'meta': 'np'})
        for m, L, wu in ((2, 3, 1),) if q else ((1, 2, 0), (2, 3, 1), (3, 4, 3)):
            objs.append({'cls': 'Bolfi', 'names': names, 'n': L, 'm': m, 'warmup': wu, 'meta': 'np'})
        for n, burn in ((3, 1),) if q else ((2, 0), (4, 1), (4, 3)):
            objs.append({'cls': 'Bsl', 'names': names, 'n': n, 'warmup': burn})
    return objs


OPS = ['query', 'pkl', 'csv', 'json']


def _histories(depth):
    out = []
    for L in range(1, depth + 1):
        out.extend(list(h) for h in itertools.product(OPS, repeat=L))
    return out


# ------------------------------------------------------------------------------------------------ section values
MANT = ['1', '1.5', '3.3333333333333335', '1.0000000000000002', '9.999999999999998', '2.718281828459045',
        '7.0000000000000007', '1.7976931348623157', '4.9406564584124654', '2.2250738585072014', '6.02214076', '1.1']


def _value_alphabet(dtype, estep):
    if dtype == 'i8':
        vals = set()
        for e in range(0, 63):
            for d in (-1, 0, 1):
                vals.update((2 ** e + d, -(2 ** e + d)))
        for e in range(0, 19):
            vals.update((10 ** e, -10 ** e, 10 ** e + 7, 3 * 10 ** e - 1))
        vals.update((-2 ** 63, 2 ** 63 - 1, 0))
        return sorted(v for v in vals if -2 ** 63 <= v < 2 ** 63)
    vals = {0.0, 5e-324, -5e-324, 2.0 ** 53 + 2, 2.0 ** 53 - 1, 0.1 + 0.2, 1 / 3, 2 / 3, 1e23, 8.41e21, 9007199254740993.0,
            2.0 ** -1074, 2.0 ** -1022, sys.float_info.max, -sys.float_info.max, sys.float_info.min, sys.float_info.epsilon}
    for e in range(-324, 309, estep):
        for mstr in MANT:
            v = float('%se%d' % (mstr, e))
            if math.isfinite(v):
                vals.update((v, -v))
    out = sorted(vals)
    return out + [-0.0]


@guarded('C16')
def run_values(case):
    vals, dtype = case['vals'], case['dtype']
    names = ['v', 'u']
    cols = {'v': list(vals), 'u': list(reversed(vals))}
    n_eval = 0
    with _Scratch() as tmp:
        truth = dict(names=names, cols=cols, w=None, disc=None, pops=[])
        for fmt in ('csv', 'json', 'pkl'):
            s, _ = _make_sample(names, cols, 'sorted', None, dtype, disc=False, n_sim=1)
            path = tmp.path('s.' + fmt)
            if os.path.exists(path):
                os.remove(path)
            s.save(path)
            if fmt == 'pkl':
                with open(path, 'rb') as f:
                    o = pickle.load(f)
                v = None if list(o.samples.keys()) == names and all(
                    _same_numbers(o.samples[k], cols[k]) and np.asarray(o.samples[k]).dtype == _dt(dtype)
                    for k in names) else ('pkl:readback-differs', {})
            else:
                v = _readback(fmt, path, type(s), truth, None)
            if v:
                return bad('C16:' + v[0], dict(v[1], fmt=fmt))
            n_eval += 2 * len(vals)
    r = ok(outcome=digest(vals), values_round_tripped=n_eval)
    r.update(evals=n_eval, distinct=n_eval)
    return r


# ------------------------------------------------------------------------------------------------ section diag
# all maps are exact in binary on the chain grids; the last three move the chains to very small / very large scales
# (an absolute tolerance somewhere in the diagnostics is not scale invariant)
AFFINE = [(2.0, 0.0), (-1.0, 0.0), (4.0, 8.0), (0.5, -2.0),
          (2.0 ** -20, 0.0), (2.0 ** -40, 2.0 ** -38), (2.0 ** 30, -2.0 ** 31)]
DIAG_VALUES = {'int': [0, 1, 3], 'mix': [-1.5, 0.0, 0.25, 2.0]}


def _rel_close(a, b, rtol=RTOL):
    a, b = float(a), float(b)
    if not (math.isfinite(a) and math.isfinite(b)):
        return False
    return abs(a - b) <= rtol * max(abs(a), abs(b))


def _check_diag(chains):
    """-> (violation or None, flags).  chains: list of equal-length lists of Python numbers."""
    from elfi.methods.mcmc import eff_sample_size, gelman_rubin_statistic
    m, n = len(chains), len(chains[0])
    X = np.array(chains, dtype=float)
    flags = {}
    perms = list(itertools.permutations(range(m)))[1:]
    # ---- effective sample size
    ess, near, used = R.ess_exact(chains)
    if ess is None:
        flags['ess_degenerate'] = 1
    elif near:
        flags['ess_near_truncation_skipped'] = 1
    else:
        flags['ess_checked'] = 1
        flags['ess_lags_%d' % min(used, 3)] = 1
        got = eff_sample_size(X)
        if not _rel_close(got, ess):
            return ('ess:formula', {'got': float(got), 'expected': float(ess), 'lags_summed': used}), flags
        if m == 1 and not _rel_close(eff_sample_size(X[0]), ess):
            return ('ess:1d-input', {'got': float(eff_sample_size(X[0])), 'expected': float(ess)}), flags
        for a, b in AFFINE:
            g2 = eff_sample_size(a * X + b)
            if not _rel_close(g2, got):
                return ('ess:affine-invariance', {'a': a, 'b': b, 'got': float(g2), 'original': float(got)}), flags
        for pm in perms:
            g2 = eff_sample_size(X[list(pm)])
            if not _rel_close(g2, got):
                return ('ess:chain-permutation', {'perm': list(pm), 'got': float(g2), 'original': float(got)}), flags
    # ---- split R-hat
    drops = ['last'] if n % 2 == 0 else ['last', 'middle', 'first']
    r2 = [R.rhat_sq_exact(chains, d) for d in drops]
    if any(v is None for v in r2):
        flags['rhat_degenerate'] = 1
    else:
        flags['rhat_checked'] = 1
        got = gelman_rubin_statistic(X)
        if not any(_rel_close(got, math.sqrt(v)) for v in r2):
            return ('rhat:formula', {'got': float(got), 'expected': [math.sqrt(v) for v in r2]}), flags
        for a, b in AFFINE:
            g2 = gelman_rubin_statistic(a * X + b)
            if not _rel_close(g2, got):
                return ('rhat:affine-invariance', {'a': a, 'b': b, 'got': float(g2), 'original': float(got)}), flags
        for pm in perms:
            g2 = gelman_rubin_statistic(X[list(pm)])
            if not _rel_close(g2, got):
                return ('rhat:chain-permutation', {'perm': list(pm), 'got': float(g2), 'original': float(got)}), flags
    return None, flags


def _chain_alphabet(values, n, k, offset):
    """All of values^n when k is None, else k distinct members picked by a fixed stride from index `offset`."""
    base = len(values)
    total = base ** n
    if k is None or k >= total:
        idx = range(total)
    else:
        stride = 1013                                     # prime, coprime to 3^n and 4^n
        if n > 8:
            stride += 2 * (total // 7)                    # long chains: a stride that moves every position (still coprime)
        idx = [(offset + i * stride) % total for i in range(k)]
    out = []
    for i in idx:
        c = []
        for _ in range(n):
            c.append(values[i % base])
            i //= base
        out.append(c)
    return out


@guarded('C16')
def run_diag(case):
    alpha = _chain_alphabet(DIAG_VALUES[case['values']], case['n'], case['k'], case['offset'])
    first = alpha[case['lo']:case['hi']]
    cnt = {}
    n_eval = n_judged = 0
    for c0 in first:
        for rest in itertools.product(alpha, repeat=case['m'] - 1):
            chains = [c0] + [list(c) for c in rest]
            n_eval += 1
            v, flags = _check_diag(chains)
            for k2 in flags:
                cnt[k2] = cnt.get(k2, 0) + 1
            n_judged += int(bool(flags.get('ess_checked') or flags.get('rhat_checked')))
            if v:
                return bad('C16:' + v[0], dict(v[1], subcase={'kind': 'diag1', 'chains': chains}))
    r = ok(outcome=digest(sorted(cnt.items())), **cnt)
    r.update(evals=n_eval, distinct=n_judged)
    return r


@guarded('C16')
def run_diag1(case):
    v, flags = _check_diag(case['chains'])
    if v:
        return bad('C16:' + v[0], v[1])
    return ok(outcome=digest(case['chains']), trivial=not (flags.get('ess_checked') or flags.get('rhat_checked')), **flags)


def _diag_cases(q, seed):
    cases = []
    off = seed * 1000

    def add(values, m, n, k, chunk=27):
        total = len(DIAG_VALUES[values]) ** n if k is None else k
        for lo in range(0, total, chunk):
            cases.append({'kind': 'diag', 'values': values, 'm': m, 'n': n, 'k': k, 'offset': off,
                          'lo': lo, 'hi': min(total, lo + chunk)})
    # longer chains (fixed-stride members of the chain alphabet): lengths at which twice the length is / is not a power
    # of two or a product of small primes - the zero padding of an FFT-based autocovariance must not show in the result
    for n in ((13, 16, 17, 31, 37) if q else (9, 10, 11, 12, 13, 16, 17, 20, 25, 31, 32, 37, 38, 51, 61)):
        add('int', 1, n, 12 if q else 30, chunk=6)
        add('mix', 2, n, 3 if q else 5, chunk=1)
    if q:
        add('int', 1, 4, None)
        add('int', 2, 4, None, chunk=3)
        add('int', 3, 4, 10, chunk=1)
        add('mix', 1, 4, None)
        for n in (5, 6, 7, 8):
            add('int', 1, n, 150, chunk=30)
            add('int', 2, n, 18, chunk=2)
            add('int', 3, n, 6, chunk=1)
            add('mix', 2, n, 8, chunk=2)
    else:
        for n in (4, 5, 6, 7, 8):
            add('int', 1, n, None, chunk=81)
            add('mix', 1, n, None if n <= 6 else 3000, chunk=100)
        add('int', 2, 4, None, chunk=1)
        add('int', 2, 5, None, chunk=1)
        add('mix', 2, 4, None, chunk=1)
        add('int', 3, 4, 27, chunk=1)
        add('int', 4, 4, 6, chunk=1)
        for n in (5, 6, 7, 8):
            add('int', 2, n, 120, chunk=1)
            add('mix', 2, n, 60, chunk=1)
            add('int', 3, n, 16, chunk=1)
            add('mix', 3, n, 10, chunk=1)
            add('int', 4, n, 5, chunk=1)
    return cases


# ------------------------------------------------------------------------------------------------ section real
def _real_model(kind):
    """Toy models with continuous priors (SMC needs prior densities)."""
    import elfi
    from .. import models
    if kind == 'G2':     # two parameters declared in non-alphabetical order, hierarchical
        m = elfi.ElfiModel(name='m_G2')
        zb = elfi.Prior('uniform', 0, 4, model=m, name='zb')
        a = elfi.Prior('norm', zb, 1, model=m, name='a')
        Y = elfi.Simulator(models.sim_gauss2, a, zb, model=m, name='Y', observed=np.array([[2.0, 1.0]]))
        S = elfi.Summary(models.both_cols, Y, model=m, name='S')
        elfi.Distance('euclidean', S, model=m, name='d')
        return m, 'd'
    m, dname, _ = models.build(kind)
    return m, dname


@guarded('C16')
def run_real(case):
    import elfi
    from .. import models
    models.native_client()
    m, dname = _real_model(case['model'])
    if case['method'] == 'rej':
        res = elfi.Rejection(m, dname, batch_size=case['bs'], seed=case['seed']).sample(
            case['n'], n_sim=case['n'] * 3, bar=False)
    else:
        res = elfi.SMC(m, dname, batch_size=case['bs'], seed=case['seed']).sample(
            case['n'], thresholds=case['thresholds'], bar=False)
    names = list(m.parameter_names)
    if list(res.parameter_names) != names:
        return bad('C16:real:parameter_names', {'got': list(res.parameter_names), 'model': names})
    if any(np.ndim(res.outputs[k]) != 1 for k in names):
        return ok(trivial=True, multivariate=1)

    def truth_of(s):
        return dict(cols={k: np.asarray(s.outputs[k]).tolist() for k in names},
                    w=None if s.weights is None else np.asarray(s.weights).tolist(),
                    disc=np.asarray(s.outputs[dname]).tolist())
    truth = dict(truth_of(res), names=names, pops=[truth_of(p) for p in getattr(res, 'populations', [])])
    if np.ndim(truth['disc'][0]) != 0:
        truth['disc'] = None if res.discrepancies is None else truth['disc']
    if len(truth['cols'][names[0]]) != case['n']:
        return bad('C16:real:n_samples', {'got': len(truth['cols'][names[0]]), 'expected': case['n']})
    objs = [(res, truth)] + [(p, dict(tp, names=names, pops=[])) for p, tp in
                             zip(getattr(res, 'populations', []), truth['pops'])]
    for o, t in objs:
        disc = t['disc']
        v = _check_sample(o, names, t['cols'], t['w'], disc)
        if v:
            return bad('C16:real:' + v[0], v[1])
    with _Scratch() as tmp:
        v, states = _run_history(res, truth, case['ops'], tmp)
    if v:
        return bad('C16:' + v[0], v[1])
    return ok(outcome=digest(truth), real_runs=1, real_weighted=int(truth['w'] is not None))


def _real_cases(q, seed):
    cases = []
    base = seed * 1000
    hists = [h for h in _histories(2) if h[-1] != 'query'] + [['json', 'pkl', 'csv'], ['csv', 'json', 'query']]
    for s in range(base, base + (2 if q else 6)):
        for ops in hists if not q else hists[::3]:
            for model in ('G2', 'M1c'):
                cases.append({'kind': 'real', 'method': 'rej', 'model': model, 'bs': 2, 'n': 3, 'seed': s, 'ops': ops})
                cases.append({'kind': 'real', 'method': 'smc', 'model': model, 'bs': 3, 'n': 4, 'seed': s,
                              'thresholds': [3.0, 2.0] if model == 'G2' else [2.0, 1.0], 'ops': ops})
    return cases


# ------------------------------------------------------------------------------------------------ driver
RUNNERS = {'samples': run_samples, 'sample1': run_sample1, 'bolfi': run_bolfi, 'hist': run_hist,
           'values': run_values, 'diag': run_diag, 'diag1': run_diag1, 'real': run_real}


def replay(case):
    return RUNNERS[case['kind']](case)


def run(ctx):
    global _TMP
    _TMP = _scratch()
    try:
        _run(ctx)
    finally:
        shutil.rmtree(_TMP, ignore_errors=True)
        _TMP = None


def _run(ctx):
    q = ctx.quick

    def want(section):
        return not ctx.only or section in ctx.only

    if want('sample'):
        cases = _sample_cases(q)
        ctx.run_cases(run_samples, cases, 'sample', sample_every=max(1, len(cases) // 3))
    if want('bolfi'):
        cases = _bolfi_cases(q)
        ctx.run_cases(run_bolfi, cases, 'bolfi', sample_every=max(1, len(cases) // 2))
    if want('history'):
        objs = _hist_objects(q)
        hists = _histories(3)
        cases = [{'kind': 'hist', 'obj': o, 'ops': h} for o in objs for h in hists]
        ctx.count(history_objects=len(objs), histories_depth_le3_per_object=len(hists))
        ctx.extra['history_depth'] = 3
        if not q:   # depth 4 on a fixed sub-list of the objects of every class
            deep = [h for h in _histories(4) if len(h) == 4]
            sub = []
            for cls, step in (('Sample', 6), ('Smc', 5), ('Bolfi', 3), ('Bsl', 3)):
                sub += [o for o in objs if o['cls'] == cls][::step]
            cases += [{'kind': 'hist', 'obj': o, 'ops': h} for o in sub for h in deep]
            ctx.count(history_objects_depth4=len(sub), histories_depth4_per_object=len(deep))
            ctx.extra['history_depth'] = '3 for all objects, 4 for %d of them' % len(sub)
        # histories that also replace the weights of a plain Sample (accessors were evaluated before: anything an
        # accessor remembers shows after the replacement)
        rw_objs = [o for o in objs if o['cls'] == 'Sample' and o['n'] >= 2]
        rw_hists = [list(h) for L in range(1, (3 if q else 4)) for h in itertools.product(OPS + ['reweight', 'reweight2'], repeat=L)
                    if 'reweight' in h or 'reweight2' in h]
        cases += [{'kind': 'hist', 'obj': o, 'ops': h} for o in rw_objs for h in rw_hists]
        ctx.count(reweighting_objects=len(rw_objs), reweighting_histories_per_object=len(rw_hists))
        ctx.run_cases(run_hist, cases, 'history', sample_every=max(1, len(cases) // 3))
    if want('values'):
        cases = []
        for dtype in ('f8', 'i8'):
            vals = _value_alphabet(dtype, 6 if q else 1)
            ctx.count(**{'value_alphabet_' + dtype: len(vals)})
            cases += [{'kind': 'values', 'dtype': dtype, 'vals': vals[i:i + 48]} for i in range(0, len(vals), 48)]
        ctx.run_cases(run_values, cases, 'values', sample_every=max(1, len(cases) // 2))
    if want('diag'):
        cases = _diag_cases(q, ctx.seed)
        ctx.run_cases(run_diag, cases, 'diag', sample_every=max(1, len(cases) // 3))
    if want('real'):
        cases = _real_cases(q, ctx.seed)
        ctx.run_cases(run_real, cases, 'real', sample_every=max(1, len(cases) // 2))

    ctx.rule = (
        'sample: full product parameter-name order x outputs-dict insertion order x n x weight vector x dtype, each '
        'group enumerating every value matrix (1 parameter: grid^n; 2-4 parameters: every tuple of column patterns); '
        'bolfi: full product chains x length x warm-up x name order x cell numbering x memory layout; history: every '
        'operation sequence up to the depth over {query, save pkl, save csv, save json} per object; values: every '
        'member of the float64/int64 value alphabet through each format; diag: every tuple of chains from the chain '
        'alphabet (full grid^n or a fixed-stride subset whose start index is shifted by VERIF_SEED); real: seeds x '
        'models x samplers x histories.  Sub-cases are distinct by construction (distinct content); non-trivial = '
        'oracle evaluated (diagnostic cases with zero variance or a truncation statistic at its sign change are '
        'counted separately and not judged)')
    ctx.assumptions += [
        'univariate parameters only (plot_*/multivariate output columns are outside the statement); plotting and the '
        'arviz conversion Sample.idata are not exercised (idata raises on every input with the installed arviz 1.x: '
        'from_dict() has no keyword posterior; not part of the statement)',
        'means / CI means compared with the exact-rational weighted average at rtol %g; quantiles must be an element '
        'of the exact-rational admissible set {q in x: W(<=q) >= alpha, W(<q) <= alpha}, alpha widened by 1e-9 so '
        'that both neighbours are accepted on a cumulative-weight boundary' % RTOL,
        'weight vectors are non-negative with positive sum (all-zero weights are invalid input)',
        'file read-back with the stdlib parsers: json -> key "samples" (name -> list mapping, key order free), csv -> '
        'columns identified by the header cell (column order free), float()/int() of every cell, pickle -> full '
        'oracle on the loaded object; parameter_names / weights / discrepancies / populations in the json file are '
        'compared only when present',
        'queries are compared by structural digest (type, dtype, shape, bytes) with their value before the history',
        'ESS / split R-hat reference: direct-sum autocovariance form in exact rationals, rtol %g; cases whose '
        'truncation statistic rho_t is within 1e-9 of zero at or before the truncation lag are skipped and counted; '
        'zero pooled variance (ESS) / zero within variance (R-hat) are skipped and counted; for odd chain length the '
        'split may drop the last, middle or first element; a single chain uses B = 0' % RTOL,
        'affine maps (2,0),(-1,0),(4,8),(0.5,-2),(2^-20,0),(2^-40,2^-38),(2^30,-2^31) are exact in binary on the chain grids {0,1,3} and {-1.5,0,0.25,2}',
    ]
