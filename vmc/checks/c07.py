"""C07 SMC-ABC populations satisfy thresholds, prior support and importance weights.  Mode P.

Full product of (prior family, batch_size, n_samples, schedule of rounds, seed [, continued sampling]);
every run is a real SMC run whose populations are recomputed independently with numpy/scipy.
"""
import math
from fractions import Fraction

import numpy as np
import scipy.stats as ss

from .. import models
from ..canon import digest
from ..guard import guarded
from ..report import ok, bad

PID = 'C07'
LEVEL = 'exploration'


# ---------------------------------------------------------------- models
def sim1(t, batch_size=1, random_state=None):
    models._bump('sim')
    return np.asarray(t, dtype=float) + random_state.normal(0, 1, size=batch_size)


def sim2(a, b, batch_size=1, random_state=None):
    models._bump('sim')
    return np.asarray(a, dtype=float) + 0.5 * np.asarray(b, dtype=float) + random_state.normal(0, 1, size=batch_size)


def sim_scale(mu, tau, batch_size=1, random_state=None):
    models._bump('sim')
    return np.asarray(mu, dtype=float) + np.asarray(tau, dtype=float) * random_state.normal(0, 1, size=batch_size)


def ident(y):
    return y


FAR = 3.0e6


def build(kind):
    import elfi
    m = elfi.ElfiModel(name='smc_' + kind)
    if kind == 'bounded':
        t = elfi.Prior('uniform', 0, 4, model=m, name='t')
        Y = elfi.Simulator(sim1, t, model=m, name='Y', observed=np.array([2.0]))
        prior = lambda th: ss.uniform.pdf(th[:, 0], 0, 4)
    elif kind == 'far':      # a location far from the origin relative to its spread (a timestamp, a count in the millions)
        t = elfi.Prior('uniform', FAR, 4, model=m, name='t')
        Y = elfi.Simulator(sim1, t, model=m, name='Y', observed=np.array([FAR + 2.0]))
        prior = lambda th: ss.uniform.pdf(th[:, 0], FAR, 4)
    elif kind == 'unbounded':
        t = elfi.Prior('norm', 1, 2, model=m, name='t')
        Y = elfi.Simulator(sim1, t, model=m, name='Y', observed=np.array([2.0]))
        prior = lambda th: ss.norm.pdf(th[:, 0], 1, 2)
    elif kind == 'hier':     # parameter_names sorted: ['a', 'zb']; zb ~ U(0,3), a ~ N(zb, 1)
        zb = elfi.Prior('uniform', 0, 3, model=m, name='zb')
        a = elfi.Prior('norm', zb, 1, model=m, name='a')
        Y = elfi.Simulator(sim2, a, zb, model=m, name='Y', observed=np.array([2.0]))
        prior = lambda th: ss.norm.pdf(th[:, 0], th[:, 1], 1) * ss.uniform.pdf(th[:, 1], 0, 3)
    elif kind == 'two':      # two independent parameters, one bounded
        a = elfi.Prior('norm', 0, 2, model=m, name='a')
        b = elfi.Prior('uniform', -1, 3, model=m, name='b')
        Y = elfi.Simulator(sim2, a, b, model=m, name='Y', observed=np.array([1.0]))
        prior = lambda th: ss.norm.pdf(th[:, 0], 0, 2) * ss.uniform.pdf(th[:, 1], -1, 3)
    elif kind == 'hier-scale':   # a bounded parent is the SCALE of its child: outside the parent's support the joint log
        # density is nan (not -inf); the posterior concentrates at the parent's boundary tau = 0
        tau = elfi.Prior('uniform', 0, 2, model=m, name='tau')
        mu = elfi.Prior('norm', 0, tau, model=m, name='mu')
        Y = elfi.Simulator(sim_scale, mu, tau, model=m, name='Y', observed=np.array([0.0]))

        def prior(th):
            with np.errstate(all='ignore'):
                p = ss.norm.pdf(th[:, 0], 0, th[:, 1]) * ss.uniform.pdf(th[:, 1], 0, 2)
            return np.where(np.isfinite(p), p, 0.0)
    else:
        raise KeyError(kind)
    S = elfi.Summary(ident, Y, model=m, name='S')
    elfi.Distance('euclidean', S, model=m, name='d')
    # the support itself (where the density is positive in exact arithmetic): a float density can underflow to 0 deep in
    # the tail of a normal conditional (|z| > 38) although the point is inside the support
    prior.support = {
        'bounded': lambda th: (th[:, 0] >= 0) & (th[:, 0] <= 4),
        'far': lambda th: (th[:, 0] >= FAR) & (th[:, 0] <= FAR + 4),
        'unbounded': lambda th: np.isfinite(th[:, 0]),
        'hier': lambda th: np.isfinite(th[:, 0]) & (th[:, 1] >= 0) & (th[:, 1] <= 3),
        'two': lambda th: np.isfinite(th[:, 0]) & (th[:, 1] >= -1) & (th[:, 1] <= 2),
        'hier-scale': lambda th: np.isfinite(th[:, 0]) & (th[:, 1] > 0) & (th[:, 1] <= 2),
    }[kind]
    return m, prior


# ---------------------------------------------------------------- references
def valid_quantiles(x, w, alpha):
    """All sample elements q with W(<=q) >= alpha and W(<q) <= alpha (exact rational arithmetic)."""
    xs = [Fraction(float(v)) for v in x]
    ws = [Fraction(float(v)) for v in w]
    tot = sum(ws)
    a = Fraction(float(alpha))
    out = set()
    for q in set(xs):
        le = sum(wi for xi, wi in zip(xs, ws) if xi <= q) / tot
        lt = sum(wi for xi, wi in zip(xs, ws) if xi < q) / tot
        if le >= a and lt <= a:
            out.add(float(q))
    return out


def ref_cov(params, w):
    d = params.shape[1]
    v = np.array([np.cov(params[:, j], aweights=w, ddof=1) for j in range(d)], dtype=float)
    return 2 * np.diag(v)


def gm_pdf(theta, means, cov, w):
    wn = np.asarray(w, dtype=float) / np.sum(w)
    out = np.zeros(len(theta))
    for k in range(len(means)):
        out += wn[k] * ss.multivariate_normal.pdf(theta, mean=means[k], cov=cov, allow_singular=False).reshape(-1)
    return out


def judge_populations(case, res, prior, calls, prev_pops=0):
    bs, n = case['bs'], case['n_samples']
    pops = res.populations
    names = res.parameter_names
    if names != sorted(names):
        return ('C07:parameter-order', {'names': names})
    sched = case['schedule']
    total_sim = 0
    thr_in_force = None
    for i, pop in enumerate(pops):
        params = np.column_stack([np.asarray(pop.outputs[p], dtype=float) for p in names])
        d = np.asarray(pop.discrepancies, dtype=float).reshape(len(params), -1)[:, -1]
        w = np.asarray(pop.weights, dtype=float)
        info = {'round': i}
        if len(params) != n or len(d) != n or len(w) != n:
            return ('C07:population-size', dict(info, size=len(params), n_samples=n))
        # threshold in force
        kind, vals = sched
        # per-round (kind, value): the rounds of an earlier call keep the kind of that call
        per_round = [(kind, v) for v in vals]
        if prev_pops:
            per_round = [(case.get('first_kind', kind), v) for v in case.get('first_schedule', [])] + per_round
        kind = per_round[i][0] if i < len(per_round) else kind
        if kind == 'thresholds':
            seq = [v for _, v in per_round]
            thr_in_force = {float(seq[i])} if i < len(seq) else None
        else:
            qseq = [v for _, v in per_round]
            if i == 0:
                thr_in_force = None      # round 0: plain quantile rejection, threshold = n-th smallest of ceil(n/q) draws
            else:
                pp = pops[i - 1]
                pd_ = np.asarray(pp.discrepancies, dtype=float).reshape(n, -1)[:, -1]
                thr_in_force = valid_quantiles(pd_, np.asarray(pp.weights, dtype=float), qseq[i])
        if thr_in_force is not None:
            if not any(np.all(d <= t) for t in thr_in_force):
                return ('C07:discrepancy-above-threshold-in-force', dict(info, max_d=float(d.max()),
                                                                          thresholds=sorted(thr_in_force)))
        if float(np.asarray(pop.threshold).ravel()[-1]) != float(d.max()):
            return ('C07:population-threshold-not-largest-discrepancy', dict(info, threshold=float(pop.threshold)))
        # extra requested outputs travel with their particle: d is |S - observed| of the SAME row (all toy models:
        # scalar summary S = Y, euclidean distance to the observed value)
        obs = case.get('_observed')
        for k in (case.get('outputs') or []):
            if k not in pop.outputs:
                return ('C07:requested-output-missing-from-population', dict(info, output=k))
            col = np.asarray(pop.outputs[k], dtype=float).reshape(len(params), -1)[:, 0]
            if obs is not None and not np.array_equal(np.abs(col - obs), d):
                return ('C07:extra-output-row-not-of-the-same-particle', dict(info, output=k, col=col.tolist(), d=d.tolist()))
        pr = prior(params)
        ins = prior.support(params)
        if not np.all(ins):
            return ('C07:particle-outside-prior-support', dict(info, params=params[~ins].tolist()))
        if i == 0:
            if not np.all(w == 1):
                return ('C07:first-population-weights-not-one', dict(info, weights=w.tolist()))
        else:
            pp = pops[i - 1]
            pparams = np.column_stack([np.asarray(pp.outputs[p], dtype=float) for p in names])
            pw = np.asarray(pp.weights, dtype=float)
            cov_prev = ref_cov(pparams, pw)
            if not np.all(np.isfinite(cov_prev)) or np.any(np.diag(cov_prev) <= 0):
                return None, 'degenerate'   # documented fallback to unit covariance: outside the statement
            expw = pr / gm_pdf(params, pparams, cov_prev, pw)
            if not np.allclose(w, expw, rtol=1e-8, atol=0):
                return ('C07:importance-weight-differs', dict(info, got=w.tolist(), expected=expw.tolist()))
        cov = ref_cov(params, w)
        if np.all(np.isfinite(cov)):
            if not np.allclose(np.asarray(pop.cov, dtype=float), cov, rtol=1e-8, atol=0):
                return ('C07:covariance-not-twice-weighted-variance', dict(info, got=np.asarray(pop.cov).tolist(),
                                                                            expected=cov.tolist()))
        total_sim += pop.n_sim
    if total_sim != res.n_sim:
        return ('C07:n_sim-not-sum-of-rounds', {'sum': int(total_sim), 'n_sim': int(res.n_sim)})
    if res.n_sim != bs * calls:
        return ('C07:n_sim-not-simulations-consumed', {'n_sim': int(res.n_sim), 'simulator_batches': calls, 'bs': bs})
    # the result's own outputs are the last population
    last = pops[-1]
    for k in res.outputs:
        if not np.array_equal(np.asarray(res.outputs[k]), np.asarray(last.outputs[k])):
            return ('C07:result-not-last-population', {'output': k})
    return None


@guarded('C07')
def run_smc(case):
    import elfi
    models.native_client()
    models.reset_calls()
    m, prior = build(case['model'])
    if case.get('outputs'):
        case = dict(case, _observed=float(np.asarray(m.observed['Y']).ravel()[0]))
    extra = list(case.get('outputs') or [])
    smc = elfi.SMC(m, 'd', batch_size=case['bs'], seed=case['seed'], max_parallel_batches=1,
                   **({'output_names': extra} if extra else {}))
    kind, vals = case['schedule']
    try:
        res = smc.sample(case['n_samples'], bar=False, **{kind: list(vals)})
    except RuntimeError as e:
        if 'All sample weights are zero' in str(e):
            return ok(outcome='all-weights-zero', trivial=True, all_zero=1)
        raise
    calls = models.CALLS.get('sim', 0)
    if len(res.populations) != len(vals):
        return bad('C07:number-of-populations', {'got': len(res.populations), 'expected': len(vals)})
    v = judge_populations(case, res, prior, calls)
    if isinstance(v, tuple) and v[0] is None:
        return ok(outcome='degenerate', trivial=True, degenerate=1)
    if v:
        return bad(v[0], dict(v[1], case=case))
    out = digest([np.asarray(p.weights) for p in res.populations])
    if case.get('continue'):
        kind2, vals2 = case['continue']
        try:
            res2 = smc.sample(case['n_samples'], bar=False, **{kind2: list(vals2)})
        except RuntimeError as e:
            if 'All sample weights are zero' in str(e):
                return ok(outcome='all-weights-zero', trivial=True, all_zero=1)
            raise
        calls = models.CALLS.get('sim', 0)
        if len(res2.populations) != len(vals) + len(vals2):
            return bad('C07:continued:number-of-populations', {'got': len(res2.populations)})
        case2 = dict(case, schedule=[kind2, vals2], first_schedule=list(vals), first_kind=kind)
        v = judge_populations(case2, res2, prior, calls, prev_pops=len(vals))
        if isinstance(v, tuple) and v[0] is None:
            return ok(outcome='degenerate', trivial=True, degenerate=1)
        if v:
            return bad('C07:continued:' + v[0][4:], dict(v[1], case=case))
    return ok(outcome=out, rounds=len(vals))


RUNNERS = {'smc': run_smc}


def replay(case):
    return RUNNERS[case['kind']](case)


def run(ctx):
    q = ctx.quick
    base = ctx.seed * 1000
    seeds = [base + k for k in range(5 if q else 16)]
    scheds = [['thresholds', [2.0]], ['thresholds', [2.0, 1.0]], ['thresholds', [1.5, 1.5]], ['thresholds', [2.0, 1.2, 0.7]],
              ['quantiles', [0.5]], ['quantiles', [0.5, 0.5]], ['quantiles', [1, 0.5, 0.6]]]
    if not q:
        scheds += [['thresholds', [3.0, 2.0, 1.0, 0.8]], ['quantiles', [0.25, 0.75, 0.5]]]
    cases = []
    for model in ('bounded', 'unbounded', 'hier', 'two'):
        for bs in (1, 3, 4) if q else (1, 2, 3, 4, 7):
            for n in (2, 4, 6) if q else (2, 3, 4, 6, 9, 13):
                for sc in scheds:
                    for s in seeds:
                        cases.append({'kind': 'smc', 'model': model, 'bs': bs, 'n_samples': n, 'schedule': sc, 'seed': s})
    # hierarchical prior whose bounded parent is the child's scale, thresholds that pull the population to tau = 0
    for bs in (2, 4):
        for n in (6, 12) if q else (6, 12, 25):
            for sc in (['thresholds', [0.5, 0.1]], ['thresholds', [1.0, 0.3, 0.1]], ['quantiles', [0.5, 0.3]]):
                for s in seeds + [base + 11, base + 12]:
                    cases.append({'kind': 'smc', 'model': 'hier-scale', 'bs': bs, 'n_samples': n, 'schedule': sc, 'seed': s})
    # a parameter far from the origin: covariances and mixture densities must not lose the spread to cancellation
    for bs in (3,):
        for n in (4, 6) if q else (4, 6, 9):
            for sc in (['thresholds', [1.0, 0.6]], ['quantiles', [0.5, 0.5]], ['thresholds', [1.5, 1.0, 0.6]]):
                for s in seeds:
                    cases.append({'kind': 'smc', 'model': 'far', 'bs': bs, 'n_samples': n, 'schedule': sc, 'seed': s})
    # extra outputs requested with the populations (row consistency of every stored column)
    for model in ('bounded', 'hier', 'two'):
        for bs in (1, 3):
            for n in (3, 5):
                for sc in (['thresholds', [2.0, 1.0]], ['quantiles', [0.5, 0.5]], ['thresholds', [2.0, 1.2, 0.7]]):
                    for outs in (['Y'], ['S', 'Y']):
                        for s in seeds:
                            cases.append({'kind': 'smc', 'model': model, 'bs': bs, 'n_samples': n, 'schedule': sc,
                                          'seed': s, 'outputs': outs})
    # continued sampling on the same sampler object
    for model in ('bounded', 'hier'):
        for bs in (1, 3):
            for n in (3, 4):
                for first, second in ((['thresholds', [2.0]], ['thresholds', [1.0]]),
                                      (['thresholds', [2.0, 1.5]], ['thresholds', [1.0, 0.8]]),
                                      (['quantiles', [0.5]], ['quantiles', [0.5]]),
                                      # the kind of schedule changes between the two calls
                                      (['quantiles', [0.5, 0.5]], ['thresholds', [1.0, 0.8]]),
                                      (['quantiles', [0.5, 0.5, 0.5]], ['thresholds', [0.9]]),
                                      (['thresholds', [2.0, 1.5]], ['quantiles', [0.5]])):
                    for s in seeds:
                        cases.append({'kind': 'smc', 'model': model, 'bs': bs, 'n_samples': n, 'schedule': first,
                                      'continue': second, 'seed': s})
    ctx.run_cases(run_smc, cases, 'smc', sample_every=max(1, len(cases) // 6))
    ctx.rule = ('full product prior family {bounded, unbounded, hierarchical, two-parameter; hierarchical-scale and far-from-origin on sub-grids} x batch_size x n_samples x '
                'round schedule (threshold lists, quantile lists) x seed, plus continued sampling on the same object; '
                'non-trivial = run produced populations with non-degenerate weights; distinct by case content')
    ctx.assumptions += [
        'weights and covariances compared with rtol 1e-8 (same formula, different summation order); thresholds exactly',
        'threshold in force for quantile schedules = any sample element satisfying the weighted-quantile definition '
        '(exact rational arithmetic), round 0 of a quantile schedule is a plain quantile rejection',
        'runs ending in the documented "All sample weights are zero" error or with a non-positive previous weighted '
        'variance (documented unit-covariance fallback) are counted as trivial, not judged',
        'max_parallel_batches=1 with the in-process client so that simulator invocations == consumed batches',
    ]
