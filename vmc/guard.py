"""Turn exceptions escaping from a case runner into verdicts or harness errors.

An exception whose traceback passes through the repository under test is a
behaviour of the implementation (reported as a violation with a signature
naming the raising site); anything else is a harness bug and propagates.
"""
import functools
import os
import traceback

from .report import bad

_REPO = os.path.realpath(os.environ.get('VMC_REPO', '/repo'))


def elfi_site(tb):
    """Innermost traceback frame inside the repo: 'relative/file.py:function'."""
    site = None
    for fs in traceback.extract_tb(tb):
        fn = os.path.realpath(fs.filename)
        if fn.startswith(_REPO + os.sep):
            site = '%s:%s' % (os.path.relpath(fn, _REPO), fs.name)
    return site


def guarded(prefix):
    def deco(fn):
        @functools.wraps(fn)
        def wrapper(case):
            try:
                return fn(case)
            except Exception as e:  # noqa
                site = elfi_site(e.__traceback__)
                if site is None:
                    raise
                return bad('%s:exception:%s@%s' % (prefix, type(e).__name__, site),
                           {'exception': repr(e)[:500], 'trace': traceback.format_exc()[-1500:]})
        return wrapper
    return deco
