"""Canonical, hashable forms of Python/numpy/networkx data (DESIGN 2.3).

Attribute-name agnostic structural walk.  Unknown opaque objects map to a token
that contains their identity, so they are never merged (sound, less pruning).
"""
import functools
import hashlib
import types

import numpy as np

try:
    import networkx as nx
except Exception:  # pragma: no cover
    nx = None


def _bytes_digest(b):
    return hashlib.md5(b).hexdigest()


_HOOKS = []


class hook:
    """Context manager installing a substitution hook: hook(o) -> NotImplemented or a replacement object."""

    def __init__(self, fn):
        self.fn = fn

    def __enter__(self):
        _HOOKS.append(self.fn)

    def __exit__(self, *a):
        _HOOKS.pop()


def canon(o, seen=None, opaque_by_id=True):
    if seen is None:
        seen = {}
    if _HOOKS and not isinstance(o, (bool, int, float, str, bytes, type(None))):
        r = _HOOKS[-1](o)
        if r is not NotImplemented:
            # the replacement is walked with the hook still active (it must not contain `o` itself)
            return ('hk', canon(r, seen, opaque_by_id))
    if o is None or isinstance(o, (bool, int, str, bytes, complex)):
        return ('v', repr(o))
    if isinstance(o, float):
        return ('f', o.hex() if o == o else 'nan')
    if isinstance(o, np.generic):
        return ('ng', str(o.dtype), o.tobytes())
    if isinstance(o, np.ndarray):
        if o.dtype == object:
            return ('ndo', o.shape, tuple(canon(x, seen, opaque_by_id) for x in o.ravel().tolist()))
        return ('nd', str(o.dtype), o.shape, _bytes_digest(np.ascontiguousarray(o).tobytes()))
    if isinstance(o, np.random.RandomState):
        s = o.get_state()
        return ('rs', _bytes_digest(s[1].tobytes()), int(s[2]), int(s[3]), float(s[4]))
    oid = id(o)
    if oid in seen:
        return ('ref', seen[oid])
    seen[oid] = len(seen)
    seen.setdefault('__keep__', []).append(o)   # pin temporaries: their ids must not be reused during the walk
    if isinstance(o, dict):
        # keys first (almost always primitives), then values in sorted-key order, so that back-reference
        # numbering does not depend on dict insertion order
        ks = sorted(((canon(k, seen, opaque_by_id), k) for k in o.keys()), key=lambda t: repr(t[0]))
        return ('d', tuple((ck, canon(o[k], seen, opaque_by_id)) for ck, k in ks))
    if isinstance(o, (list, tuple)):
        return ('l', tuple(canon(x, seen, opaque_by_id) for x in o))
    if isinstance(o, (set, frozenset)):
        return ('s', tuple(sorted((canon(x, seen, opaque_by_id) for x in o), key=repr)))
    if isinstance(o, functools.partial):
        return ('p', canon(o.func, seen, opaque_by_id), canon(o.args, seen, opaque_by_id),
                canon(o.keywords, seen, opaque_by_id))
    if isinstance(o, types.MethodType):
        return ('m', getattr(o, '__qualname__', repr(o)), canon(o.__self__, seen, opaque_by_id))
    if isinstance(o, (types.FunctionType, types.BuiltinFunctionType, type)):
        return ('fn', getattr(o, '__module__', ''), getattr(o, '__qualname__', repr(o)))
    if nx is not None and isinstance(o, nx.Graph):
        return ('g', canon(dict(o.nodes(data=True)), seen, opaque_by_id),
                canon(sorted(((u, v, d) for u, v, d in o.edges(data=True)), key=lambda e: (str(e[0]), str(e[1]))),
                      seen, opaque_by_id),
                canon(dict(o.graph), seen, opaque_by_id))
    if hasattr(o, '__dict__'):
        return ('o', type(o).__qualname__, canon(vars(o), seen, opaque_by_id))
    if hasattr(o, '__slots__'):
        return ('o', type(o).__qualname__,
                canon({k: getattr(o, k) for k in o.__slots__ if hasattr(o, k)}, seen, opaque_by_id))
    return ('opaque', type(o).__qualname__, oid if opaque_by_id else 0)


def digest(o, **kw):
    """Short stable digest of the canonical form."""
    return hashlib.md5(repr(canon(o, **kw)).encode()).hexdigest()


def jsonable(o, depth=0):
    """Best-effort conversion of explored data into JSON-able plain data (for replays/samples)."""
    if o is None or isinstance(o, (bool, int, str)):
        return o
    if isinstance(o, float):
        if o != o:
            return 'nan'
        if o in (float('inf'), float('-inf')):
            return 'inf' if o > 0 else '-inf'
        return o
    if isinstance(o, np.generic):
        return jsonable(o.item(), depth)
    if isinstance(o, np.ndarray):
        if o.dtype.names:
            return [jsonable(x, depth) for x in o.tolist()]
        return jsonable(o.tolist(), depth)
    if isinstance(o, dict):
        return {str(k): jsonable(v, depth + 1) for k, v in o.items()}
    if isinstance(o, (list, tuple, set, frozenset)):
        return [jsonable(x, depth + 1) for x in (sorted(o, key=repr) if isinstance(o, (set, frozenset)) else o)]
    if isinstance(o, bytes):
        return o.hex()
    try:
        from fractions import Fraction
        if isinstance(o, Fraction):
            return '%d/%d' % (o.numerator, o.denominator)
    except Exception:
        pass
    return repr(o)
