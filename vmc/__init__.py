"""vmc - bounded exhaustive exploration of the real ELFI code (see ../DESIGN.md)."""
