"""Fork-based worker pool (one `import elfi` per check process, workers forked after it)."""
import multiprocessing as mp
import os
import sys
import traceback

_FN = None


def ncores():
    try:
        n = int(os.environ.get('VMC_WORKERS', '0'))
    except ValueError:
        n = 0
    return n or min(16, os.cpu_count() or 1)


def _call(item):
    try:
        return ('ok', _FN(item))
    except BaseException:  # report harness errors to the parent with the failing item
        return ('err', (repr(item)[:2000], traceback.format_exc()))


def _call_chunk(chunk):
    out = []
    for item in chunk:
        r = _call(item)
        out.append(r)
        if r[0] == 'err':
            break
    return out


class HarnessError(RuntimeError):
    pass


class Hang(RuntimeError):
    """No result arrived within the watchdog time: the code under test does not terminate on some case."""

    def __init__(self, index, seconds):
        RuntimeError.__init__(self, 'no result for item %d within %d s' % (index, seconds))
        self.index = index
        self.seconds = seconds


def pmap(fn, items, chunksize=None, workers=None, ordered=False, timeout=None):
    """Apply fn to every item in forked workers; yields results (unordered by default).

    fn and items need not pickle by value beyond the items/results themselves: fn is
    inherited through fork via a module global.
    """
    global _FN
    items = list(items)
    workers = workers or ncores()
    if not items:
        return
    if workers <= 1 or len(items) == 1 or os.environ.get('VMC_SERIAL'):
        for it in items:
            yield fn(it)
        return
    _FN = fn
    if chunksize is None:
        chunksize = max(1, min(64, len(items) // (workers * 8)))
    ctx = mp.get_context('fork')
    sys.stdout.flush()
    sys.stderr.flush()
    if timeout is None:
        timeout = float(os.environ.get('VMC_RESULT_TIMEOUT', '3600'))
    # chunk by hand: the iterator of imap with chunksize > 1 is a plain generator without next(timeout)
    chunks = [items[i:i + chunksize] for i in range(0, len(items), chunksize)]
    with ctx.Pool(min(workers, len(chunks))) as pool:
        it = pool.imap(_call_chunk, chunks) if ordered else pool.imap_unordered(_call_chunk, chunks)
        n = 0
        while True:
            try:
                results = it.next(timeout)
            except StopIteration:
                break
            except mp.TimeoutError:
                pool.terminate()
                raise Hang(n, int(timeout))
            for status, val in results:
                n += 1
                if status == 'err':
                    pool.terminate()
                    raise HarnessError('worker failed on item %s\n%s' % val)
                yield val
