"""Fork-based worker pool (one `import elfi` per check process, workers forked after it)."""
import multiprocessing as mp
import os
import sys
import traceback

_FN = None


def ncores():
    try:
        n = int(os.environ.get('VMC_WORKERS', '0'))
    except ValueError:
        n = 0
    return n or min(16, os.cpu_count() or 1)


def _call(item):
    try:
        return ('ok', _FN(item))
    except BaseException:  # report harness errors to the parent with the failing item
        return ('err', (repr(item)[:2000], traceback.format_exc()))


class HarnessError(RuntimeError):
    pass


def pmap(fn, items, chunksize=None, workers=None, ordered=False):
    """Apply fn to every item in forked workers; yields results (unordered by default).

    fn and items need not pickle by value beyond the items/results themselves: fn is
    inherited through fork via a module global.
    """
    global _FN
    items = list(items)
    workers = workers or ncores()
    if not items:
        return
    if workers <= 1 or len(items) == 1 or os.environ.get('VMC_SERIAL'):
        for it in items:
            yield fn(it)
        return
    _FN = fn
    if chunksize is None:
        chunksize = max(1, min(64, len(items) // (workers * 8)))
    ctx = mp.get_context('fork')
    sys.stdout.flush()
    sys.stderr.flush()
    with ctx.Pool(min(workers, len(items))) as pool:
        it = pool.imap(_call, items, chunksize) if ordered else pool.imap_unordered(_call, items, chunksize)
        for status, val in it:
            if status == 'err':
                pool.terminate()
                raise HarnessError('worker failed on item %s\n%s' % val)
            yield val
