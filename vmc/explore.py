"""Choice-point core: stateless DFS with replay, deviation bound, visited-state pruning.

A harness body is `body(ch) -> observation`.  All environment nondeterminism is
obtained through `ch.choose(n, label, state=None)`; choice 0 is the default
environment answer.  `explore` enumerates every choice sequence (optionally
with at most `bound` non-default answers) and calls `check(obs, run)` on every
completed execution.
"""
import collections


class Prune(BaseException):
    """Raised through the environment call to abandon an execution whose state was already expanded.

    BaseException on purpose: library code under test uses `except Exception` in places.
    """


class ReplayDivergence(RuntimeError):
    """A replayed prefix met a different choice point than recorded: harness nondeterminism."""


class Run:
    __slots__ = ('choices', 'arity', 'labels', 'obs', 'pruned', 'error')

    def __init__(self):
        self.choices = []
        self.arity = []
        self.labels = []
        self.obs = None
        self.pruned = False
        self.error = None

    def deviations(self, upto=None):
        c = self.choices if upto is None else self.choices[:upto]
        return sum(1 for x in c if x != 0)


class Chooser:
    def __init__(self, prefix, expect=None, visited=None, budget=None, stats=None):
        self.prefix = list(prefix)
        self.expect = expect  # optional [(arity,label)] recorded for the prefix
        self.run = Run()
        self.visited = visited  # dict state -> best remaining budget it was expanded with
        self.budget = budget    # deviation bound or None
        self.stats = stats
        self.prune_enabled = visited is not None

    def choose(self, n, label=None, state=None):
        r = self.run
        i = len(r.choices)
        if n <= 0:
            raise ValueError('choice point with no alternatives')
        if i < len(self.prefix):
            c = self.prefix[i]
            if c >= n:
                raise ReplayDivergence('choice %d out of range %d at point %d (%r)' % (c, n, i, label))
            if self.expect is not None and i < len(self.expect):
                ea, el = self.expect[i]
                if ea != n or el != label:
                    raise ReplayDivergence('point %d: recorded (%r,%r) now (%r,%r)' % (i, ea, el, n, label))
        else:
            c = 0
            if self.visited is not None and state is not None and n > 1:
                if self.budget is None:
                    remaining = 0
                else:
                    remaining = self.budget - r.deviations()
                key = (label, state)
                best = self.visited.get(key)
                if best is not None and best >= remaining:
                    r.pruned = True
                    raise Prune()
                self.visited[key] = remaining
                if self.stats is not None:
                    self.stats['states'] += 1
        r.choices.append(c)
        r.arity.append(n)
        r.labels.append(label)
        return c


def run_once(body, prefix, expect=None, visited=None, budget=None, stats=None):
    ch = Chooser(prefix, expect, visited, budget, stats)
    try:
        ch.run.obs = body(ch)
    except Prune:
        ch.run.pruned = True
    return ch.run


def explore(body, check, bound=None, prune=False, root=(), max_executions=None, on_run=None):
    """Depth-first enumeration of all choice sequences below `root`.

    bound: maximum number of non-default choices per execution (None = unbounded).
    prune: use the `state` argument of choose() for visited-state pruning.
    Returns stats dict.  `check(obs, run)` may return a violation (anything truthy)
    which is collected in stats['violations'] as (violation, choices).
    """
    stats = collections.Counter()
    stats['states'] = 0
    violations = []
    visited = {} if prune else None
    outcomes = set()
    stack = [(list(root), None)]
    capped = False
    maxdepth = 0
    while stack:
        prefix, expect = stack.pop()
        if max_executions is not None and stats['executions'] >= max_executions:
            capped = True
            break
        run = run_once(body, prefix, expect, visited, bound, stats)
        stats['executions'] += 1
        stats['choice_points'] += len(run.choices)
        maxdepth = max(maxdepth, len(run.choices))
        if on_run is not None:
            on_run(run)
        if run.pruned:
            stats['pruned'] += 1
        else:
            stats['complete'] += 1
            v = check(run.obs, run)
            if v:
                violations.append((v, list(run.choices)))
        # alternatives after the prefix; pushed so that the smallest index / alt is popped last
        # (DFS order irrelevant for coverage; violations are minimised by the caller)
        exp = list(zip(run.arity, run.labels))
        for i in range(len(run.choices) - 1, len(prefix) - 1, -1):
            if bound is not None and run.deviations(i) + 1 > bound:
                continue
            for alt in range(run.arity[i] - 1, 0, -1):
                stack.append((run.choices[:i] + [alt], exp[:i]))
                stats['transitions'] += 1
    out = dict(stats)
    out['max_depth'] = maxdepth
    out['violations'] = violations
    out['capped'] = capped
    out['bound'] = bound
    out['pruning'] = bool(prune)
    return out


def expand_one(body, prefix, bound=None):
    """Run one execution and return (run, child_prefixes): used for wave-parallel exploration."""
    run = run_once(body, prefix)
    kids = []
    for i in range(len(prefix), len(run.choices)):
        if bound is not None and run.deviations(i) + 1 > bound:
            continue
        for alt in range(1, run.arity[i]):
            kids.append(run.choices[:i] + [alt])
    return run, kids


def determinism_selftest(body, prefix=()):
    """Replay one execution twice; the observations and choice points must be identical."""
    a = run_once(body, prefix)
    b = run_once(body, a.choices, list(zip(a.arity, a.labels)))
    from .canon import digest
    if a.choices != b.choices or a.arity != b.arity or digest(a.obs, opaque_by_id=False) != digest(b.obs, opaque_by_id=False):
        raise ReplayDivergence('determinism self-test failed: two replays of the same schedule differ')
    return a
