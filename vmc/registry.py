"""Registry of built checks -> MANIFEST.json (tools/gen_manifest.py)."""

BASELINE_CMD = ("cd /repo && /venv/bin/python -m pytest -ra -q -p no:cacheprovider --timeout=900 "
                "--continue-on-collection-errors --junitxml=/var/tmp/elfi_baseline.junit.xml")

# property id -> dict(level, technique, text, note, design_ref)
CHECKS = {
    'C01': dict(
        level='exploration',
        technique='exhaustive product enumeration of (model, batch_size, n_samples, objective form, seed) over real '
                  'Rejection runs, each compared with an independent recomputation of every consumed batch',
        text='Every combination inside the stated bound is run on the real sampler (no sampling of the space); '
             'multiset of returned discrepancies, row membership with multiplicity across all outputs, ordering, '
             'threshold, n_sim and budget batch counts are decided per run against freshly recomputed batches. '
             'Tied and infinite discrepancies, (bs,1)-shaped and adaptive (nested) discrepancies are alphabet symbols.',
        note='Trusted: purity of seeded batch generation (C02) for the reference rows; simulator-invocation counter '
             'with max_parallel_batches=1 as the count of consumed batches. Bounded to toy models and small sizes.',
        design_ref='4 C01'),
    'C02': dict(
        level='exploration',
        technique='BFS over all histories (depth <= 2/3) of unrelated prior computations before every measured seeded call, '
                  'and exhaustive enumeration of small recording DAGs x all dependency-respecting insertion orders, with a '
                  'differential oracle (bit-identical to the no-history baseline) and a generator-state chain oracle',
        text='Every sequence of reseeding/consuming np.random, other generate/infer calls, compilations and earlier batches '
             'is executed before each measured call (generate, BatchHandler.compute, Rejection, SMC) and the observation '
             'must equal the baseline bit for bit; every DAG of <= 3 (4) recording nodes is built in every legal insertion '
             'order and all stochastic nodes must consume one generator as one chain in one fixed dependency-respecting '
             'order with an initial state that depends only on (seed, batch index). The multiprocessing client is '
             'cross-checked free-running; thorough repeats a table under another PYTHONHASHSEED.',
        note='Trusted: numpy RandomState determinism; uuid-based private node names are pinned (three offsets) and are '
             'outside the quantifier; real worker processes add no schedule coverage. One open known finding (adaptation state of an AdaptiveDistance node left in the user\'s model by a sampler run).',
        design_ref='4 C02'),
    'C03': dict(
        level='exploration',
        technique='exhaustive enumeration of model-graph programs (all node kinds, ordered parent tuples, positional/named '
                  'edges, observations, uses_meta) x requested-output subsets x with_values subsets, each executed through '
                  'the real compiler/loader/executor with term-recording operations and compared with an independent '
                  'reference dataflow interpreter',
        text='All graphs up to 3 nodes (4 in thorough, with stated restrictions per layer) plus a fixed family of 4-6 node '
             'shapes are generated through model.generate for every output/with_values combination of the layer; value '
             'terms, observed twins, discrepancy observed tuples, batch_size/random_state/meta placement, rejection of '
             'stochastic observed data and per-operation call counts must equal the reference. A second section runs '
             'every submit / wait_next sequence of a BatchHandler (<= 3 batches in flight): each batch must see its own '
             'run metadata and equal the batch computed alone.',
        note='Trusted: the reference interpreter (vmc/ref/c03_ref.py) as the reading of the statement; stated exclusions: '
             'parallel edges, named edges into Prior/Discrepancy, uses_meta on summaries. Any exception counts as rejection.',
        design_ref='4 C03'),
    'C04': dict(
        level='model_checking',
        technique='stateless DFS over every completion order / is_ready answer sequence of a scripted client driving '
                  'the real Rejection and SMC samplers (visited-state pruning, unpruned and deviation-bounded trees as '
                  'cross-check), leaf oracle = bitwise equality with the sequential run, per-step monitors',
        text='The client is replaced by an environment whose every task-completion order and readiness answer is a '
             'choice; the complete schedule tree of each driver (n_sim / quantile / threshold Rejection, 2-3 round SMC '
             'with threshold and quantile lists, AdaptiveDistanceSMC, AdaptiveThresholdSMC) is executed on the real sampler for max_parallel_batches 1..4, with '
             'in-process and pickled task isolation. Every leaf must equal the sequential reference bit for bit; '
             'monitors check strict index order, the outstanding bound, no use of cancelled tasks and an empty client.',
        note='Trusted: the environment model (tasks finish one at a time at client API calls, truthful is_ready, no task '
             'failure); soundness of visited-state merging (canonical sampler+client state), cross-checked against '
             'unpruned trees. Real worker processes only in the thorough free-running cross-check. Seeds are chosen so '
             'that the sequential run consumes 2-9 batches (tree size is exponential in it); every tree has an '
             'execution cap that is reported if hit.',
        design_ref='4 C04'),
    'C05': dict(
        level='model_checking',
        technique='explicit-state BFS over run histories on one pool (fill, reruns with smaller/equal/larger budgets, store '
                  'removal, node replacement, close+open, refused contexts) with canonical-state dedup; differential oracle '
                  'against the pool-free run, operation call counters and pool-content recomputation in every state',
        text='For every stored node set of the stated form, in-memory and on-disk pools, batch sizes and requested-output '
             'sets, all histories up to depth 2 (3 thorough) after the filling run execute on the real sampler and pool; '
             'each run must equal the pool-free run of the current model bit for bit, stored nodes must not be invoked for '
             'held batches, the pool must hold exactly the consumed batches with freshly computed values, and contexts '
             'with another batch_size/seed must be refused leaving the pool unchanged. Bayesian optimisation (acquired '
             'parameters are supplied to the batch) is run over in-memory pools as fill / rerun / longer rerun: surrogate evidence '
             'equal to the pool-free run, stored nodes not re-run, stores hold the consumed batches.',
        note='Trusted: purity of seeded generation (C02) for the pool-free reference; documented workflow (stores of a '
             'replaced node and its descendants are dropped). One open known finding (parameters loaded from the pool '
             'while the simulator is recomputed).',
        design_ref='4 C05'),
    'C06': dict(
        level='fault_enumeration',
        technique='BFS over all store operation histories up to depth d on the real NpyStore/ArrayPool with a '
                  'lock-step list reference, plus enumeration of a process kill after every raw write/truncate/memmap '
                  'store of every history (crash image = replay of the intercepted raw-op log prefix)',
        text='Every operation sequence up to depth 4 (quick) / 6 (thorough) per store kind, dtype, row shape and batch '
             'size runs on the real store; the end state of every history is compared with the in-memory sequence and '
             'with numpy.load after flush/close; for every raw file operation a crash image is built and must load, be '
             'batch aligned, equal a logical content between the last completed flush and the kill, and reopen to the '
             'same batches. Images are validated against files left by really killed child processes.',
        note='Trusted: kill model (atomic raw write/ftruncate/memmap batch store, user-space buffers lost, dirty shared '
             'pages survive; no power loss); interception of elfi.store.open, of descriptor-level writes through the os module inside elfi.store (os.pwrite / os.write / os.ftruncate) and of NpyArray.__setitem__ (a history with no '
             'logged raw operation aborts the check).',
        design_ref='4 C06'),
    'C07': dict(
        level='exploration',
        technique='exhaustive product enumeration of (prior family, batch_size, n_samples, threshold/quantile schedule, '
                  'seed, continuation) over real SMC runs, every population recomputed independently with numpy/scipy',
        text='Every configuration inside the bound is run on the real SMC sampler; population size, discrepancies against '
             'the threshold in force (user value or the exact-rational weighted quantile set of the previous population), '
             'positive prior density, unit first weights, importance weights prior/mixture with covariance twice the '
             'weighted variance, reported covariances and simulation counts are recomputed from the returned populations; extra requested outputs must belong to the same particle as the discrepancy of their row.',
        note='Trusted: scipy.stats densities and numpy.cov(aweights) as reference formulas; rtol 1e-8 for weights and '
             'covariances; degenerate-weight runs are counted, not judged.',
        design_ref='4 C07'),
    'C09': dict(
        level='model_checking',
        technique='stateless DFS over every scripted log-target answer sequence of the real random-walk Metropolis kernel '
                  '(bitwise leaf oracle: a reference Metropolis replaying the same RandomState stream), plus exhaustive '
                  'product enumeration of real-target configurations for Metropolis and NUTS, plus stateless DFS over '
                  'every sequence of NUTS coin flips (doubling directions, sub-tree acceptances) on the real nuts() with a '
                  'leapfrog-trajectory leaf oracle',
        text='The log-target is an environment whose k-th answer (finite values, -inf, +inf, NaN) is a choice; the complete '
             'answer tree of every (dim, sigma, n_samples, warm-up, seed) configuration up to 4 steps (6 thorough) runs on '
             'the real kernel and chain and proposals must equal the reference bit for bit. On real targets with hard '
             'boundaries and NaN/+inf regions both samplers must return the requested count, be deterministic in the seed '
             'independently of the global generator and never return a state with -inf/NaN target; NUTS runs are repeated with a target that keeps the gradient arrays it hands out (arrays unchanged, same chain). For NUTS the uniform '
             'draws are the environment: complete trees of coin-flip sequences (one iteration, up to three doublings; '
             'deviation-bounded beyond) on smooth targets, every iteration checked against the leapfrog trajectory through '
             '(previous state, drawn momentum) and the slice. Moments are a fixed finite regression table, not exhaustive.',
        note='Trusted: numpy RandomState determinism; the reference Metropolis (four accepted legal draw orders); NUTS has '
             'no reference chain - count, determinism, support and the trajectory / slice invariants every No-U-Turn '
             'sampler satisfies are decided for it, not its U-turn rule or step-size adaptation. Exact u == ratio ties '
             'unjudged (none occurred). Size-1-array targets and empty requests excluded.',
        design_ref='4 C09'),
    'C10': dict(
        level='exploration',
        technique='exhaustive enumeration of a finite family of fitted surrogates x query-point grids x input shapes '
                  '(definitional and differential oracles), and of all update / sampling-mode / predict / optimize '
                  'histories up to a depth on the real GPyRegression object',
        text='For every fitted GP of the family (dimension, evidence size, target function, hyper-parameters initial and '
             'optimised) the posterior log density is compared with log Phi((h-mu)/sd)+log prior on a full grid including '
             'exact bounds and points just outside, its gradient with central differences, and the accelerated '
             'single-point predictions/gradients (with and without the noise variance) with GPy; every history of updates (three batch shapes), mode toggles, '
             'optimisations and predictions must keep evidence as an ordered prefix and never serve outdated cached values, also when a copy of the surrogate is alive and either object is continued. '
             'The posterior BOLFI itself hands out (fit / extract_posterior, default and user-given surrogates with '
             'parameter order a,b and b,a, non-exchangeable priors) is judged against GPy plus scipy priors.',
        note='Trusted: GPy as the definition of the GP; tolerances 1e-6 (values) / 1e-5 (gradients) relative to the kernel '
             'scale, ill-conditioned fits (cond > 1e8) skipped and counted; analytic normal prior.',
        design_ref='4 C10'),
    'C11': dict(
        level='model_checking',
        technique='stateless DFS over every worker schedule of a scripted client driving the real BayesianOptimization '
                  'loop with a recording stub surrogate and real acquisition rules (visited-state pruning, unpruned trees '
                  'as cross-check), plus exhaustive product enumeration of acquisition classes x fitted GPs x noise x '
                  'bounds x priors x seeds',
        text='For every configuration (acquisition rule, batch_size, batches_per_acquisition, initial-evidence form, '
             'update_interval, max_parallel_batches 1..3) the complete schedule tree is executed: acquire() must return '
             'exactly n in-bounds rows, the simulator must receive exactly the acquired rows, a synchronous acquisition must '
             'see all earlier batches, and the surrogate evidence must equal precomputed + consumed batches in index order '
             'and be identical for every schedule. With real GPs every acquisition class must return (n,d) in-bounds '
             'points for all noise settings, bounds and priors, and LCBSC/MaxVar gradients must equal central differences. With a '
             'user-given surrogate whose parameter order differs from the model (two parameters with disjoint ranges) the evidence '
             'rows must be the simulated pairs in the surrogate order.',
        note='Trusted: client environment model as in C04; the stub surrogate stands for the GP in schedule exploration '
             '(real GP runs are schedule-free); numeric-derivative tolerances on well-scaled bounds only.',
        design_ref='4 C11'),
    'C14': dict(
        level='model_checking',
        technique='explicit-state BFS over model edit histories (add/become/remove/copy/save+load/edits on a copy) on real '
                  'ElfiModel objects with canonical-state dedup and a lock-step dict-graph reference model; invariants in '
                  'every state',
        text='Every edit history up to depth 3 (4 thorough) from three seed models is rebuilt on the real API; nodes, '
             'classes, operations, positional/named parents, private constants, observed data and parameter_names must '
             'agree with the reference after every step; acyclicity, no dangling edges, no orphan private constants, '
             'observed keys within nodes hold in every state; copies and loaded models generate the same seeded outputs; '
             'the original is structurally unchanged by every operation applied to a copy. A become() that would close a '
             'cycle (replacement = the node itself or one of its descendants) must be refused without altering the model or leave '
             'an acyclic consistent graph.',
        note='Trusted: the reference model as the reading of the statement; the meaning of become() is defined by the reference only for childless '
             'replacement nodes that are not descendants (documented use); cycle-closing replacements are judged on the invariants.',
        design_ref='4 C14'),
    'C17': dict(
        level='exploration',
        technique='exhaustive product enumeration of small explicit inputs (all summary matrices over a 3-value grid, every placement of <= 2-3 non-finite entries, affine maps, name/API variants, object-reuse sequences, all discrepancy / n_sim / weight / order combinations) on the real adjust_posterior / LinearAdjustment / compare_models, decided by numpy.linalg.lstsq and an exact rational reference',
        text='Every case inside the bound runs on the real code: adjusted values equal theta - (S - s_obs) beta from lstsq on the rows finite for that parameter, output length/order equal the finite rows, rows at the observed summaries are unchanged, the result is invariant under invertible affine re-expression (including binary-exact common rescalings to 2^-45 .. 2^40) and summary reordering, a reused adjustment object equals a fresh one; compare_models sums to one, equals share/n_sim x weight normalised (exact rationals), permutes with the models, and on a tie at the cut corresponds to some valid split.',
        note='Trusted: numpy.linalg.lstsq and fractions. Scalar parameters/summaries, small well-conditioned data, rtol 1e-8; rank-deficient finite rows: any least-squares slope accepted; a parameter with no finite row may raise; no nan in compared discrepancies.',
        design_ref='4 C17'),
    'C13': dict(
        level='exploration',
        technique='bounded product enumeration of small-alphabet inputs against elfi-free definitional oracles (exact rationals for quantile / variance / ESS, a written-out normal density for the mixture), plus a stateless DFS over every per-row accept/reject answer sequence of a scripted constraint driving the real GMDistribution.rvs',
        text='Every sample / weight vector / alpha / rescaling / dtype combination inside the stated alphabets runs on the real weighted_sample_quantile (also through Sample.sample_quantiles and the 95% intervals), weighted_var, compute_ess and normalize_weights; the quantile definition (element of the sample, W(<=q) >= alpha, W(<q) <= alpha), monotonicity and scale invariance are decided exactly, with ties, zeros, unsorted input, single elements and alpha on cumulative boundaries as alphabet symbols. GM pdf/logpdf are compared on dims 1..3 x 1..3 components x covariance forms x weight vectors x argument shapes; for rvs the complete answer tree ((R+1)^size executions per configuration) is executed and each execution must return exactly size rows drawn from the accepted proposals.',
        note="Bounds: n <= 4/5, weights <= 3, d <= 3, k <= 3, size <= 4/6, R <= 3/6; all-zero weights excluded. Tolerances 1e-11 (variance/ESS) and 1e-9 relative (density) on a fixed well-conditioned grid plus well separated components (means x 40) with weights down to 1e-300, queried at the component means. Trusted: exact-rational oracles, numpy/scipy linear algebra, horizon 'forced accept after R rounds'.",
        design_ref='4 C13'),
    'C12': dict(
        level='model_checking',
        technique='exhaustive product enumeration of (summary layout, observed form, metric with keywords, batch size, dtype) over real Distance nodes with every row of grid**m in a batch, compared row by row with scipy.spatial.distance.<metric>; for adaptive scales all data sets x all compositions into add_data calls plus explicit-state BFS over round/abort/reset histories of a real AdaptiveDistance node with canonical state merging, cross-checked against un-merged sequences',
        text='Each configuration builds a real model and evaluates the distance through model.generate(with_values=...); output shape (bs,) and value are decided per row against an independent scipy call for scalar, (bs,1) and (bs,2) summaries, bs=1 and the keywords p, w, V, VI. For the adaptive distance every split of every small data set must give np.std after each call regardless of node prehistory; every reachable node state (<= 3-4 rounds) is expanded with every round/abort/reset operation, checking w = 1/scale, one more output column, earlier columns bit-identical, newest column equal to the scaled Euclidean distance and a clean start of the next round. add_data must leave the summary arrays it is given unchanged. A small sampler-level confirmation (Rejection, AdaptiveDistanceSMC; two scalar summaries and one vector-valued summary) is included: returned summaries were simulated, discrepancies are the newest distance of their row.',
        note='Trusted: scipy row functions and np.std as references; tolerances 1e-12 (cdist vs row function on small integers) and 1e-10 (Welford vs two-pass). Data sets with a constant column excluded as whole-round data; empty-round updates excluded; bounds n <= 5/7 rows, value grids of 2-4 symbols.',
        design_ref='4 C12'),
    'C18': dict(
        level='exploration',
        technique='exhaustive product enumeration of (arity, constants mask, dtype, input-kind tuple, batch size, given/inferred, return kind, kwargs) on the real vectorised callable against a literal per-row loop, plus exhaustive enumeration of a command-template grammar executed in real subprocesses, directly and inside BatchHandler model runs',
        text='Every input combination inside the bound is called on the real elfi.tools.vectorize result with earlier calls as the history of later ones on one shared callable; decided per call: the arguments the operation saw, pass-through of constants and kwargs, the meta row index, batch length from the inputs or from batch_size, rejection of mismatching lengths, stacking by dtype (incl. dtype=False). Every template of the token grammar runs through external_operation; parsed type and values, KeyError on each missing key, seed determinism under equal generator state and pairwise different seeds per batch row are decided, directly, under vectorize and in model runs (batch sizes 1-3, thorough 1-5).',
        note='Trusted: numpy RandomState stream for the twin model; /bin/sh echo and printf. Reading: row input = ndarray with ndim >= 1 not in the mask. Bounded to arity <= 4, batch size <= 5, templates of <= 7 tokens; the exact seed derivation is reported, not judged; row call order unconstrained.',
        design_ref='4 C18'),
    'C16': dict(
        level='exploration',
        technique='exhaustive product enumeration of parameter-name orders x outputs-dict orders x sizes x weight vectors x grid value matrices on real Sample / SmcSample / BolfiSample / BslSample objects, plus every save/query history up to depth 3-4, decided by exact-rational weighted-mean and quantile references, stdlib-parser read-back and an exact-rational direct-sum ESS / split R-hat reference with affine and permutation metamorphic relations',
        text='Every result object inside the bounds is built on the real classes and must expose its columns in parameter-name order, its means must equal the exact weighted averages and its intervals must be admissible weighted quantiles; BOLFI samples must be the chain-by-chain concatenation of chain[warmup:] (distinct numbers per cell, four memory layouts). Every sequence of pkl/csv/json saves and queries must leave all 17 accessors unchanged (after a replacement of the weights, as the SMC sampler performs it, the accessors must describe the stored samples under the new weights) and every file must read back to the same samples, including a float64/int64 text round-trip alphabet. ESS and split R-hat must equal their formulas and stay invariant under four binary-exact affine maps and all chain permutations. Real seeded Rejection and SMC results go through the same oracle.',
        note='Trusted: fractions, stdlib json/csv/pickle, numpy array construction; rtol 1e-9 only where float and exact formulas are compared; quantile alpha widened by 1e-9 on boundaries; ESS cases within 1e-9 of the truncation sign change and zero-variance chains counted, not judged. Univariate float64/int64 columns, n <= 5, <= 4 parameters, <= 4 chains, length <= 8; idata and plotting not exercised; file key/column order not demanded.',
        design_ref='4 C16'),
    'C08': dict(
        level='exploration',
        technique='exhaustive product enumeration of (graph shape x distribution template per node x naming x form x requested parameter list) with the real ModelPrior evaluated on a complete value grid V^dim, decided by the direct product of scipy.stats conditional densities and their closed-form log-derivatives',
        text='Every 1-3 parameter hierarchy inside the template alphabet is built as a real ElfiModel; for the default list, every permutation and every ancestrally closed subset, pdf and logpdf are compared at every grid point (interior, exact support end points, outside, +-inf) with the product of conditional scipy densities, zero and -inf sets exactly. Input-form and shape rules, rvs (sizes None/1/3, seeded and global generator: positive density, shape) and gradient_logpdf (default, scalar and per-dimension stepsize; float and integer points) are decided on a sub-family.',
        note='Trusted: scipy.stats densities (elfi calls the same functions: the check decides graph composition, argument order and shape handling); closed-form derivatives self-tested against a 5-point stencil. Excluded: subsets with a parent outside the subset, points where a conditional is nan/inf, a node repeated as two arguments of one child. Bounds: 875 / 10 750 models, 10 / 15 grid values.',
        design_ref='4 C08'),
    'C19': dict(
        level='exploration',
        technique='bounded product enumeration of boxes (rotation x centre x limits x seed), posterior configurations and hand-solved ROMC problems on the real classes with independently built test points and textbook density formulas as oracle, plus stateless DFS (vmc.explore) over every answer function of the objective-as-environment under the real line_search and RegionConstructor.build',
        text="Every box of the alphabet is built on the real class: all sampled points must be contained (geometrically and by contains), the density must be 1/prod(widths) at points placed just inside every face and 0 just outside or far away, including degenerate limits that must be widened. For line search every below/above/at-threshold answer function reachable within K <= 7 and rep_lim <= 7 is executed: the result is positive, every probe in [0, result) stayed below, and the result is a probed-below offset or the resolution fallback. The posterior's unnormalised density and sample weights are decided on dyadic grids that hit the cut-off and region faces exactly, for direct construction, the real estimate_regions pipeline and small real ROMC runs.",
        note="Trusted: orthonormal rotation alphabet; documented widening rule; dyadic eta so offsets are exact; harness seeds the global generator used by ROMC.sample / fit_local_surrogate; local surrogates compared with a 1e-6 band around the cut-off; acceptance = solved and f_min < eps_filter. The eigenvector-axes clause (from the mechanism's docstring, not the statement) is off the verdict. Not covered: parallelize=True, the BO surrogate path.",
        design_ref='4 C19'),
    'C20': dict(
        level='model_checking',
        technique='bounded product enumeration of the real likelihood, transform and ratio functions against closed-form references from the papers, plus stateless DFS (vmc.explore) over all environment answer sequences (proposal step, simulation finiteness, round log-likelihood) of the real BSL step methods and the real sample() loop, compared with a reference Metropolis',
        text='On explicit well-conditioned matrices (n <= 20, d <= 3) and observed-vector grids the standard (whitened, Warton-shrunk, glasso-at-0), Ghurye-Olkin and mean/variance-adjusted synthetic log-likelihoods equal their published formulas; for every tuple of bound-row types (<= 3 rows) the logit/log transform round-trips and its log-Jacobian equals the central-difference derivative of the back-transform; _get_mh_ratio equals posterior ratio x Jacobian ratio at the transformed points; for every answer sequence up to chain length 4 (5 for one configuration, 7 with <= 3 deviations) the chain, the stored log densities and the number of simulator invocations equal the reference, and outside-support proposals are recorded as rejections with zero simulations; two sample() calls on one object over all ordered pairs of parameter orders (two parameters with different supports) never simulate outside the support and keep every chain state inside it; in real robust-BSL runs every gamma update is given the moments and the adjusted log-likelihood of one set of simulated summaries.',
        note='Trusted: numpy/scipy linear algebra and special functions in the reference; scipy.stats uniform/truncnorm prior reference. Tolerances 1e-10 (unshrunk Gaussian, misspec) and 1e-8 (Ghurye-Olkin) relative to max(1,|value|), the exact bound of the 1e-5 Warton jitter; the +-700 exponent clip is accepted; u == prob ties unjudged (none occurred); the Ghurye-Olkin reference is self-tested unbiased (d=1 quadrature). Out of scope: the gamma slice sampler, glasso with penalty > 0, the semi-parametric estimator (not in the statement; runs only with --only lik-semiparam), ill-conditioned inputs.',
        design_ref='4 C20'),
    'C15': dict(
        level='model_checking',
        technique='explicit-state BFS to closure over the real get_sub_seed cache states (all index requests in every '
                  'reachable state), plus un-merged index sequences up to depth d and the same through '
                  'ComputationContext/RandomStateLoader',
        text='All reachable cache states of the real sub-seed function for every (seed, high<=5/8) are enumerated to '
             'closure; in each state every index (incl. negative and >= high) is requested and compared with the '
             'cache-free answer; range, injectivity and rejection are checked on the complete index range. Small high '
             'forces the duplicate-skipping loop on every run. A caller section runs BOLFI.sample on evidence sets whose best '
             'points are / are not usable as chain starts: the seed of chain number i must not change. Bounded: seeds '
             'and highs listed in evidence.',
        note='Trusted: numpy RandomState determinism; canonical cache state = full structural digest of the cache '
             'dict (seen set + generator state). Default high=2**31 only exercised on indices < 200.',
        design_ref='4 C15'),
}

NOT_BUILT_REASON = 'check not built yet (work in progress; see DESIGN.md section 4 for the planned exploration)'
ALL = ['C%02d' % i for i in range(1, 21)]
