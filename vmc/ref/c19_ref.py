"""Reference pieces for C19 (written without looking at how elfi computes the same things).

* orthonormal matrices from explicit descriptors (products of permutations, reflections, planar rotations)
* the geometric meaning of a bounding box: {c + R u : lo <= u <= hi} with |det R| = 1  =>  volume = prod(hi - lo)
* joint prior densities of the toy parameter models from the textbook formulas (products of conditionals)
* objective functions with exactly representable values
"""
import itertools
import math

import numpy as np

WIDEN_TOL = 1e-3     # documented: limits closer than this are "too narrow" and get moved apart
WIDEN_BY = 1e-3      # total widening (half on each side)


# ------------------------------------------------------------------ rotations
def factor_matrix(dim, f):
    kind = f[0]
    M = np.eye(dim)
    if kind == 'I':
        return M
    if kind == 'perm':
        p = list(f[1])
        assert sorted(p) == list(range(dim))
        return M[:, p]
    if kind == 'refl':
        M[f[1], f[1]] = -1.0
        return M
    if kind == 'rot':
        i, j, k = f[1], f[2], f[3]
        a = k * math.pi / 8.0
        M[i, i] = math.cos(a)
        M[j, j] = math.cos(a)
        M[i, j] = -math.sin(a)
        M[j, i] = math.sin(a)
        return M
    raise ValueError('unknown rotation factor %r' % (f,))


def rot_matrix(dim, desc):
    R = np.eye(dim)
    for f in desc:
        R = R @ factor_matrix(dim, f)
    return R


def elementary_rotations(dim, ks):
    """Identity, coordinate permutations, reflections, planar rotations by k*pi/8 (k in ks)."""
    out = [['I']]
    for p in itertools.permutations(range(dim)):
        if list(p) != list(range(dim)):
            out.append(['perm', list(p)])
    for i in range(dim):
        out.append(['refl', i])
    for i in range(dim):
        for j in range(i + 1, dim):
            for k in ks:
                out.append(['rot', i, j, k])
    return out


# ------------------------------------------------------------------ boxes
def effective_limits(limits):
    """Limits after the documented widening of too-narrow dimensions."""
    out = []
    for lo, hi in limits:
        lo, hi = float(lo), float(hi)
        if hi - lo <= WIDEN_TOL:
            lo -= WIDEN_BY / 2
            hi += WIDEN_BY / 2
        out.append((lo, hi))
    return out


def box_scale(center, eff):
    return max([1.0] + [abs(float(c)) for c in center] + [abs(v) for lh in eff for v in lh])


def box_volume(eff):
    v = 1.0
    for lo, hi in eff:
        v *= (hi - lo)
    return v


def box_coords(R, center, p):
    """Coordinates of p in the box frame, through the transpose (R orthonormal): independent of any inverse."""
    return R.T @ (np.asarray(p, dtype=float) - np.asarray(center, dtype=float))


def membership(R, center, eff, p, margin):
    """+1 inside by more than margin, -1 outside by more than margin, 0 within margin of the boundary."""
    u = box_coords(R, center, p)
    inside = True
    for ui, (lo, hi) in zip(u, eff):
        if ui < lo - margin or ui > hi + margin:
            return -1
        if ui < lo + margin or ui > hi - margin:
            inside = False
    return 1 if inside else 0


# ------------------------------------------------------------------ priors
PRIOR_DIM = {'U1': 1, 'N1': 1, 'UN2': 2, 'H2': 2}


def _unif(x, lo, width):
    return 1.0 / width if lo <= x <= lo + width else 0.0


def _norm(x, mu, sd):
    z = (x - mu) / sd
    return math.exp(-0.5 * z * z) / (sd * math.sqrt(2.0 * math.pi))


def prior_ref(name, th):
    """Textbook densities (scipy's (loc, scale) convention for the uniform: support [loc, loc+scale])."""
    th = [float(x) for x in th]
    if name == 'U1':
        return _unif(th[0], -2.0, 4.0)
    if name == 'N1':
        return _norm(th[0], 0.5, 1.5)
    if name == 'UN2':
        return _unif(th[0], -2.0, 4.0) * _norm(th[1], 0.0, 1.0)
    if name == 'H2':
        return _norm(th[0], 0.0, 1.0) * _norm(th[1], th[0], 1.0)
    raise ValueError(name)


def build_prior(name):
    """The same joint prior as an elfi ModelPrior (parameter order t1, t2)."""
    import elfi
    from elfi.model.extensions import ModelPrior
    m = elfi.ElfiModel(name='c19_' + name)
    if name == 'U1':
        elfi.Prior('uniform', -2, 4, model=m, name='t1')
    elif name == 'N1':
        elfi.Prior('norm', 0.5, 1.5, model=m, name='t1')
    elif name == 'UN2':
        elfi.Prior('uniform', -2, 4, model=m, name='t1')
        elfi.Prior('norm', 0, 1, model=m, name='t2')
    elif name == 'H2':
        t1 = elfi.Prior('norm', 0, 1, model=m, name='t1')
        elfi.Prior('norm', t1, 1, model=m, name='t2')
    else:
        raise ValueError(name)
    mp = ModelPrior(m)
    assert list(mp.parameter_names) == ['t1', 't2'][:PRIOR_DIM[name]]
    return mp


# ------------------------------------------------------------------ objectives
def make_objective(desc):
    """Deterministic distance functions theta (D,) -> float whose values are exact on dyadic inputs."""
    kind = desc[0]
    if kind == 'const':
        v = float(desc[1])
        return lambda th: v
    if kind == 'maxnorm':
        c = np.asarray(desc[1], dtype=float)
        s = float(desc[2])
        return lambda th: float(s * np.max(np.abs(np.asarray(th, dtype=float) - c)))
    if kind == 'l1':
        c = np.asarray(desc[1], dtype=float)
        s = float(desc[2])
        return lambda th: float(s * np.sum(np.abs(np.asarray(th, dtype=float) - c)))
    if kind == 'quad':
        c = np.asarray(desc[1], dtype=float)
        a = np.asarray(desc[2], dtype=float)
        return lambda th: float(np.sum(a * (np.asarray(th, dtype=float) - c) ** 2))
    raise ValueError('unknown objective %r' % (desc,))
