"""Reference formulas for C20 (BSL likelihoods, bounded-parameter transform, MH step).

Written from the papers / textbook definitions, independently of elfi:

* Gaussian synthetic likelihood (Price et al. 2018, eq. 2): N(s_y; mu_n, Sigma_n) with the sample mean and the
  unbiased sample covariance of the n simulated summaries.
* Warton (2008) ridge estimator  D^(1/2) (g C + (1-g) I) D^(1/2),  C = sample correlation, D = diag of variances.
* Ghurye-Olkin unbiased estimator (Price et al. 2018, eq. 5; Ghurye & Olkin 1969).
* Frazier & Drovandi (2021) mean / variance adjusted synthetic likelihood.
* An, Nott & Drovandi (2020) semi-parametric synthetic likelihood (KDE marginals + Gaussian copula with the
  Gaussian rank correlation of Boudt et al. 2012).
* logit / log transforms of bounded parameters and the Metropolis-Hastings ratio in transformed space.
"""
import math

import numpy as np
from scipy.special import gammaln, ndtr, ndtri

LOG2PI = math.log(2.0 * math.pi)


# ------------------------------------------------------------------ Gaussian pieces
def sample_moments(ssx):
    """Sample mean and unbiased sample covariance (always 2-d) by the textbook sums."""
    X = np.asarray(ssx, dtype=float)
    n = X.shape[0]
    m = X.sum(axis=0) / n
    Z = X - m
    S = Z.T.dot(Z) / (n - 1)
    return m, S


def mvn_logpdf(y, mean, cov):
    """log N(y; mean, cov) via Cholesky; -inf is never produced here (cov must be positive definite)."""
    y = np.asarray(y, dtype=float).reshape(-1)
    mean = np.asarray(mean, dtype=float).reshape(-1)
    cov = np.asarray(cov, dtype=float)
    d = len(y)
    L = np.linalg.cholesky(cov)
    z = np.linalg.solve(L, y - mean)
    logdet = 2.0 * np.log(np.diag(L)).sum()
    return float(-0.5 * (d * LOG2PI + logdet + z.dot(z)))


def warton(S, gamma):
    """Warton ridge estimator with shrinkage parameter gamma in [0,1] (1 = no shrinkage, 0 = diagonal)."""
    S = np.asarray(S, dtype=float)
    sd = np.sqrt(np.diag(S))
    C = S / np.outer(sd, sd)
    R = gamma * C + (1.0 - gamma) * np.eye(len(sd))
    return R * np.outer(sd, sd)


def logpdf_perturbation_bound(y, mean, cov, delta):
    """Upper bound of |log N(y;mean,cov + t I) - log N(y;mean,cov)| for 0 <= t <= delta (first-order bound
    with the smallest eigenvalue, doubled): used only for the documented 1e-5 diagonal jitter of cov_warton."""
    lam = float(np.linalg.eigvalsh(cov).min())
    v = np.asarray(y, dtype=float).reshape(-1) - np.asarray(mean, dtype=float).reshape(-1)
    d = len(v)
    return 2.0 * 0.5 * delta * (d / lam + float(v.dot(v)) / lam ** 2)


def standard_ref(ssx, ssy, whitening=None, shrinkage=None, penalty=None):
    """-> (value, tolerance).  Shrinkage convention of the code base (its own tests pin it): penalty 0 = no
    shrinkage, i.e. Warton gamma = 1 - penalty."""
    m, S = sample_moments(ssx)
    y = np.asarray(ssy, dtype=float).reshape(-1)
    if whitening is not None:
        W = np.asarray(whitening, dtype=float)
        y = W.dot(y)
        m = W.dot(m)
        S = W.dot(S).dot(W.T)
    tol_abs = 0.0
    if shrinkage == 'warton':
        g = 1.0 - penalty
        S = warton(S, g)
        tol_abs = logpdf_perturbation_bound(y, m, S, (1.0 - g) * 1e-5)
    elif shrinkage is not None:
        raise ValueError(shrinkage)
    v = mvn_logpdf(y, m, S)
    return v, tol_abs + 1e-10 * max(1.0, abs(v))


# ------------------------------------------------------------------ Ghurye-Olkin
def log_c(k, v):
    """log c(k, v),  c(k,v) = 2^(-kv/2) pi^(-k(k-1)/4) / prod_{i=1..k} Gamma((v-i+1)/2)."""
    return (-0.5 * k * v * math.log(2.0) - 0.25 * k * (k - 1) * math.log(math.pi)
            - sum(float(gammaln(0.5 * (v - i + 1))) for i in range(1, k + 1)))


def ghurye_olkin_ref(ssx, ssy):
    """log of the unbiased estimator of N(s_y; mu, Sigma) (Price et al. 2018, eq. 5); requires n > d + 3.

    p = (2 pi)^(-d/2) c(d,n-2) / (c(d,n-1) (1-1/n)^(d/2)) |M|^(-(n-d-2)/2) psi(M - (y-m)(y-m)^T/(1-1/n))^((n-d-3)/2)
    with M = (n-1) S and psi(A) = |A| if A is positive definite, 0 otherwise.
    Returns (value, margin) where margin is the relative distance of psi's argument from singularity
    (smallest eigenvalue / largest); the caller skips cases with |margin| tiny.
    """
    X = np.asarray(ssx, dtype=float)
    n, d = X.shape
    if not n > d + 3:
        raise ValueError('needs n > d + 3')
    m, S = sample_moments(X)
    y = np.asarray(ssy, dtype=float).reshape(-1)
    M = (n - 1) * S
    v = (y - m).reshape(-1, 1)
    A = M - v.dot(v.T) / (1.0 - 1.0 / n)
    ev = np.linalg.eigvalsh(A)
    margin = float(ev.min() / max(abs(ev).max(), 1e-300))
    const = -0.5 * d * LOG2PI + log_c(d, n - 2) - log_c(d, n - 1) - 0.5 * d * math.log(1.0 - 1.0 / n)
    if ev.min() <= 0:
        return -math.inf, margin
    _, ldM = np.linalg.slogdet(M)
    _, ldA = np.linalg.slogdet(A)
    return float(const - 0.5 * (n - d - 2) * ldM + 0.5 * (n - d - 3) * ldA), margin


def ghurye_olkin_unbiasedness_selftest(n=7, mu=0.3, sigma=1.4, y=1.1):
    """d = 1: E over (mean, variance) of the estimator equals N(y; mu, sigma^2), by 2-d quadrature
    (mean ~ N(mu, sigma^2/n), (n-1) s^2 / sigma^2 ~ chi2_{n-1}, independent).  Returns (expectation, truth)."""
    from scipy import integrate, stats
    d = 1
    const = math.exp(-0.5 * d * LOG2PI + log_c(d, n - 2) - log_c(d, n - 1) - 0.5 * d * math.log(1.0 - 1.0 / n))

    def f(mbar, w):
        a = w - (y - mbar) ** 2 / (1.0 - 1.0 / n)
        if a <= 0 or w <= 0:
            return 0.0
        est = const * w ** (-0.5 * (n - d - 2)) * a ** (0.5 * (n - d - 3))
        sm = sigma / math.sqrt(n)
        npdf = math.exp(-0.5 * ((mbar - mu) / sm) ** 2) / (sm * math.sqrt(2.0 * math.pi))
        k = n - 1
        x = w / sigma ** 2
        cpdf = math.exp((0.5 * k - 1.0) * math.log(x) - 0.5 * x - 0.5 * k * math.log(2.0) - float(gammaln(0.5 * k)))
        return est * npdf * cpdf / sigma ** 2

    def lo(w):
        return y - math.sqrt(w * (1.0 - 1.0 / n))

    def hi(w):
        return y + math.sqrt(w * (1.0 - 1.0 / n))
    val, _ = integrate.dblquad(f, 0.0, sigma ** 2 * 80.0, lo, hi, epsabs=1e-9, epsrel=1e-7)
    return val, float(stats.norm.pdf(y, mu, sigma))


# ------------------------------------------------------------------ misspecification adjusted
def misspec_ref(ssx, ssy, gamma, adjustment):
    """R-BSL-M: N(y; m + sd*gamma, S);  R-BSL-V: N(y; m, S + diag((sd*gamma)^2))  (Frazier & Drovandi 2021)."""
    m, S = sample_moments(ssx)
    sd = np.sqrt(np.diag(S))
    g = np.asarray(gamma, dtype=float).reshape(-1)
    if adjustment == 'mean':
        m = m + sd * g
    elif adjustment == 'variance':
        S = S + np.diag((sd * g) ** 2)
    else:
        raise ValueError(adjustment)
    v = mvn_logpdf(ssy, m, S)
    return v, 1e-10 * max(1.0, abs(v))


# ------------------------------------------------------------------ semi-parametric
def kde_silverman(x, y):
    """Gaussian KDE with Silverman's factor (n(d+2)/4)^(-1/(d+4)), d=1, times the sample sd (ddof=1):
    -> (log density at y, cdf at y)."""
    x = np.asarray(x, dtype=float)
    n = len(x)
    h = (n * 3.0 / 4.0) ** (-1.0 / 5.0) * math.sqrt(((x - x.mean()) ** 2).sum() / (n - 1))
    z = (y - x) / h
    dens = np.exp(-0.5 * z ** 2).sum() / (n * h * math.sqrt(2.0 * math.pi))
    cdf = float(ndtr(z).sum() / n)
    return math.log(dens), cdf


def gaussian_rank_corr_ref(X):
    """Boudt, Cornelissen & Croux (2012): correlation of the normal scores Phi^-1(rank/(n+1)) (no ties)."""
    X = np.asarray(X, dtype=float)
    n, p = X.shape
    ranks = np.empty_like(X)
    for j in range(p):
        order = np.argsort(X[:, j], kind='stable')
        ranks[order, j] = np.arange(1, n + 1)
    Z = ndtri(ranks / (n + 1.0))
    denom = (ndtri(np.arange(1, n + 1) / (n + 1.0)) ** 2).sum()
    return Z.T.dot(Z) / denom


def semiparam_ref(ssx, ssy, shrinkage=None, penalty=None):
    """sum_j log g_j(y_j) + log c_R(u),  u_j = G_j(y_j),  log c_R(u) = -1/2 log|R| - 1/2 eta^T (R^-1 - I) eta."""
    X = np.asarray(ssx, dtype=float)
    y = np.asarray(ssy, dtype=float).reshape(-1)
    n, p = X.shape
    lp = 0.0
    u = np.zeros(p)
    for j in range(p):
        l, c = kde_silverman(X[:, j], y[j])
        lp += l
        u[j] = min(1.0, c)
    eta = ndtri(u)
    R = gaussian_rank_corr_ref(X) if p > 1 else np.ones((1, 1))
    if shrinkage == 'warton':
        g = 1.0 - penalty
        R = g * R + (1.0 - g) * np.eye(p)
    elif shrinkage is not None:
        raise ValueError(shrinkage)
    if np.any(np.isinf(eta)):
        return -math.inf, 0.0
    _, ld = np.linalg.slogdet(R)
    q = eta.dot(np.linalg.solve(R, eta)) - eta.dot(eta)
    v = float(lp - 0.5 * (ld + q))
    return v, 1e-8 * max(1.0, abs(v))


# ------------------------------------------------------------------ bounded-parameter transform
def row_type(a, b):
    if np.isfinite(a) and np.isfinite(b):
        return 'two-sided'
    if np.isfinite(a):
        return 'lower-only'
    if np.isfinite(b):
        return 'upper-only'
    return 'unbounded'


# The property fixes no particular map: any bijection with the matching Jacobian is legal. Once the transform
# section has established that the implementation's forward/back pair is a bijection whose reported log-Jacobian is
# the derivative of its back-transform, the Metropolis-Hastings references are built on the implementation's own
# bijection (proposal = back(forward(theta) + step), Jacobian = numeric derivative of its back-transform).
# The closed forms below remain as *_closed for naming violation classes of the documented logit/log map.
_IMPL = {'fwd': None, 'back': None}


def use_implementation_transform(fwd, back):
    _IMPL['fwd'] = fwd
    _IMPL['back'] = back


def fwd_ref(theta, bound):
    if _IMPL['fwd'] is not None:
        return np.asarray(_IMPL['fwd'](np.asarray(theta, dtype=float).reshape(-1), np.array(bound, dtype=float)),
                          dtype=float).reshape(-1)
    return fwd_closed(theta, bound)


def back_ref(y, bound):
    if _IMPL['back'] is not None:
        return np.asarray(_IMPL['back'](np.asarray(y, dtype=float).reshape(-1), np.array(bound, dtype=float)),
                          dtype=float).reshape(-1)
    return back_closed(y, bound)


def logjac_ref(y, bound):
    if _IMPL['back'] is not None:
        return logjac_numeric5(lambda v, b: _IMPL['back'](np.asarray(v, dtype=float), np.array(b, dtype=float)), y, bound)
    return logjac_closed(y, bound)


def logjac_numeric5(back, y, bound, h=1e-3):
    """log |det d back / dy| by a 5-point stencil (error O(h^4)) of the given coordinate-wise back-transform."""
    y = np.asarray(y, dtype=float).reshape(-1)
    s = 0.0
    for i in range(len(y)):
        def f(t):
            z = y.copy()
            z[i] = y[i] + t
            return float(np.asarray(back(z, bound), dtype=float).reshape(-1)[i])
        d = (-f(2 * h) + 8 * f(h) - 8 * f(-h) + f(-2 * h)) / (12 * h)
        s += math.log(abs(d))
    return s


def fwd_closed(theta, bound):
    out = []
    for x, (a, b) in zip(np.asarray(theta, dtype=float).reshape(-1), bound):
        t = row_type(a, b)
        if t == 'two-sided':
            out.append(math.log(x - a) - math.log(b - x))
        elif t == 'lower-only':
            out.append(math.log(x - a))
        elif t == 'upper-only':
            out.append(-math.log(b - x))
        else:
            out.append(float(x))
    return np.array(out)


def back_closed(y, bound):
    out = []
    for v, (a, b) in zip(np.asarray(y, dtype=float).reshape(-1), bound):
        t = row_type(a, b)
        if t == 'two-sided':
            # a + (b-a) * logistic(v), written symmetrically
            if v >= 0:
                e = math.exp(-v)
                out.append((a * e + b) / (1.0 + e))
            else:
                e = math.exp(v)
                out.append((a + b * e) / (1.0 + e))
        elif t == 'lower-only':
            out.append(a + math.exp(v))
        elif t == 'upper-only':
            out.append(b - math.exp(-v))
        else:
            out.append(float(v))
    return np.array(out)


def logjac_closed(y, bound):
    """log |det d theta / d theta_tilde| at the transformed point y (closed forms; the transform is diagonal)."""
    s = 0.0
    for v, (a, b) in zip(np.asarray(y, dtype=float).reshape(-1), bound):
        t = row_type(a, b)
        if t == 'two-sided':
            # (b-a) e^v / (1+e^v)^2
            s += math.log(b - a) - abs(v) - 2.0 * math.log1p(math.exp(-abs(v)))
        elif t == 'lower-only':
            s += v
        elif t == 'upper-only':
            s += -v
    return s


def logjac_numeric(back, y, bound, h=1e-5):
    """log |det d back / dy| by central differences of the given back-transform (diagonal map)."""
    y = np.asarray(y, dtype=float).reshape(-1)
    s = 0.0
    for i in range(len(y)):
        e = np.zeros(len(y))
        e[i] = h
        d = (np.asarray(back(y + e, bound)).reshape(-1)[i] - np.asarray(back(y - e, bound)).reshape(-1)[i]) / (2 * h)
        s += math.log(abs(d))
    return s


# ------------------------------------------------------------------ MH ratio / chain
def clip700(x):
    if x != x:
        return x
    return max(-700.0, min(700.0, x))


def mh_ratio_ref(lp_cur, lp_prev, theta_cur, theta_prev, bound):
    """posterior ratio times ratio of the transform's Jacobians at the *transformed* proposed and current points
    (exponent clipped to +-700 as the implementation documents for overflow protection)."""
    lj = 0.0
    if bound is not None:
        lj = logjac_ref(fwd_ref(theta_cur, bound), bound) - logjac_ref(fwd_ref(theta_prev, bound), bound)
    x = lj + lp_cur - lp_prev
    if x == -math.inf:
        return 0.0
    return math.exp(clip700(x))
