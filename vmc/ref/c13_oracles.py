"""Reference definitions for C13, written without elfi (fractions / numpy.linalg only).

quantile : exact-rational admissible set {q in x : W(<=q) >= alpha and W(<q) <= alpha}
wvar     : reliability-weights unbiased variance  sum w (x-xbar)^2 / (V1 - V2/V1)  in exact rationals
ess      : (sum w)^2 / sum w^2 in exact rationals
gm_pdf   : sum_k what_k N(x; m_k, C) with the normal density written out (solve + slogdet)
"""
import math
from fractions import Fraction

import numpy as np


# ----------------------------------------------------------------------------- quantile
class QuantileOracle:
    """Exact cumulative weights of the distinct values of x (integers), w non-negative integers."""

    def __init__(self, x, w):
        self.x = [Fraction(v) for v in x]
        self.W = sum(w)
        vals = sorted(set(self.x))
        self.vals = vals
        self.le = []   # integer numerators over W
        self.lt = []
        acc = 0
        for v in vals:
            self.lt.append(acc)
            acc += sum(wi for xi, wi in zip(self.x, w) if xi == v)
            self.le.append(acc)
        self.cum = sorted(set(Fraction(c, self.W) for c in self.le) | {Fraction(0)})

    def admissible(self, alpha):
        """All values q of the sample with W(<=q) >= alpha and W(<q) <= alpha (alpha a Fraction)."""
        out = []
        for v, le, lt in zip(self.vals, self.le, self.lt):
            if Fraction(le, self.W) >= alpha and Fraction(lt, self.W) <= alpha:
                out.append(v)
        return out

    def judge(self, q, alpha):
        """-> None or (tag, info)."""
        try:
            qf = Fraction(float(q))
        except (TypeError, ValueError, OverflowError):
            return 'not-an-element', {'q': repr(q)}
        if qf not in self.vals:
            return 'not-an-element', {'q': float(q)}
        i = self.vals.index(qf)
        le, lt = Fraction(self.le[i], self.W), Fraction(self.lt[i], self.W)
        if le < alpha:
            return 'weight-below-alpha', {'q': float(q), 'W(<=q)': str(le), 'alpha': str(alpha)}
        if lt > alpha:
            return 'weight-strictly-below-exceeds-alpha', {'q': float(q), 'W(<q)': str(lt), 'alpha': str(alpha)}
        return None

    def boundary_distance(self, alpha):
        return min(abs(alpha - c) for c in self.cum)


# ----------------------------------------------------------------------------- weighted variance / ESS
def wvar_exact(x, w):
    """x: list of rows (each a list of ints/Fractions) or list of scalars; w: ints. -> list of Fractions or None
    when the formula is undefined (V1 - V2/V1 == 0, i.e. at most one non-zero weight)."""
    rows = [list(r) if isinstance(r, (list, tuple)) else [r] for r in x]
    V1 = Fraction(sum(w))
    V2 = Fraction(sum(wi * wi for wi in w))
    if V1 == 0:
        return None
    den = V1 - V2 / V1
    if den == 0:
        return None
    out = []
    for j in range(len(rows[0])):
        col = [Fraction(r[j]) for r in rows]
        xbar = sum(wi * xi for wi, xi in zip(w, col)) / V1
        num = sum(wi * (xi - xbar) ** 2 for wi, xi in zip(w, col))
        out.append(num / den)
    return out


def ess_exact(w):
    s1 = Fraction(sum(w))
    s2 = Fraction(sum(wi * wi for wi in w))
    return s1 * s1 / s2


# ----------------------------------------------------------------------------- Gaussian mixture
def cov_matrix(cov, d):
    if cov is None:
        return np.eye(d)
    c = np.asarray(cov, dtype=float)
    if c.ndim == 0:
        return float(c) * np.eye(d)
    if c.ndim == 1:
        return np.diag(c)
    return c


def normal_pdf(points, mean, C):
    """points (n,d), mean (d,), C (d,d) SPD -> (n,) densities, formula written out."""
    d = len(mean)
    diff = points - mean
    sol = np.linalg.solve(C, diff.T).T
    maha = np.einsum('ij,ij->i', diff, sol)
    sign, logdet = np.linalg.slogdet(C)
    assert sign > 0
    return np.exp(-0.5 * maha - 0.5 * logdet - 0.5 * d * math.log(2 * math.pi))


def gm_pdf(points, means, cov, weights):
    """points (n,d), means (k,d), cov None/scalar/vector/matrix, weights None or length-k non-negative."""
    points = np.asarray(points, dtype=float)
    means = np.asarray(means, dtype=float)
    k, d = means.shape
    w = np.ones(k) if weights is None else np.asarray(weights, dtype=float)
    w = w / w.sum()
    C = cov_matrix(cov, d)
    out = np.zeros(len(points))
    for j in range(k):
        out = out + w[j] * normal_pdf(points, means[j], C)
    return out
