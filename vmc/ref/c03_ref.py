"""Reference dataflow interpreter for C03 (independent of elfi): programs, terms, expectations.

A program is a list of node records
    (name, kind, pos_parents, named_parents, observed_given, uses_meta)
kind in C(onstant) O(peration) P(rior) S(imulator) M (suMmary) D(iscrepancy);
pos_parents: tuple of names in positional order; named_parents: tuple of (keyword, name).
Values are symbolic terms (nested tuples), so equality of terms is equality of dataflow.
"""
import itertools

OBSERVABLE = 'SM'
STOCHASTIC = 'PS'


class Reject(Exception):
    pass


def const_term(n):
    return ('const', n)


def obs_term(n):
    return ('OBS', n)


def given_term(n):
    return ('given', n)


class Ref:
    def __init__(self, prog, bs):
        self.prog = prog
        self.bs = bs
        self.info = {r[0]: r for r in prog}

    def parents(self, n):
        r = self.info[n]
        return list(r[2]) + [p for _, p in r[3]]

    def ancestors(self, n):
        out = set()
        for p in self.parents(n):
            out |= {p} | self.ancestors(p)
        return out

    def stochastic(self, n):
        return self.info[n][1] in STOCHASTIC

    def observable(self, n):
        return self.info[n][1] in OBSERVABLE

    # ---- which observed data would depend on a stochastic node (graph-level, independent of with_values)
    def twin_bad(self, n):
        """n observable: its observed twin would depend on a stochastic node."""
        name, kind, pos, named, obs, meta = self.info[n]
        if obs:
            return False
        if self.stochastic(n):
            return True
        return any(self.twin_input_bad(p) for p in self.parents(n))

    def twin_input_bad(self, p):
        if self.observable(p):
            return self.twin_bad(p)
        # a non-observable parent contributes its value
        return self.stochastic(p) or any(self.stochastic(a) for a in self.ancestors(p))

    def observed_tuple_bad(self, d):
        return any(self.twin_input_bad(p) for p in self.parents(d))

    def bad_observed(self):
        """Names (as output names) of all observed data in the graph that depend on a stochastic node."""
        bad = set()
        for n, r in self.info.items():
            if self.observable(n) and self.twin_bad(n):
                bad.add('_%s_observed' % n)
            if r[1] == 'D' and self.observed_tuple_bad(n):
                bad.add('_%s_observed' % n)
        return bad

    # ---- evaluation
    def evaluate(self, outputs, supplied):
        """-> (values: {output: term}, calls: {name: count}, needed_observed: set of twin names used)
        raises Reject when needed observed data depends on a stochastic node."""
        self.calls = {}
        self.memo_val = {}
        self.memo_twin = {}
        self.supplied = set(supplied)
        self.needed_obs = set()
        res = {}
        for o in outputs:
            if o.startswith('_') and o.endswith('_observed'):
                base = o[1:-9]
                if self.info[base][1] == 'D':
                    res[o] = self.obs_tuple(base)
                else:
                    res[o] = self.twin(base)
            else:
                res[o] = self.val(o)
        return res, dict(self.calls), set(self.needed_obs)

    def _bump(self, n):
        self.calls[n] = self.calls.get(n, 0) + 1

    def val(self, n):
        if n in self.memo_val:
            return self.memo_val[n]
        name, kind, pos, named, obs, meta = self.info[n]
        if n in self.supplied:
            t = given_term(n)
        elif kind == 'C':
            t = const_term(n)
        else:
            args = tuple(self.val(p) for p in pos)
            kw = [(k, self.val(p)) for k, p in named]
            if kind in 'PS':
                kw += [('batch_size', self.bs), ('random_state', 'RS')]
            if meta:
                kw += [('meta', 'META')]
            if kind == 'D':
                kw += [('observed', self.obs_tuple(n))]
            self._bump(n)
            t = (n, args, tuple(sorted(kw)))
        self.memo_val[n] = t
        return t

    def obs_tuple(self, d):
        key = ('tuple', d)
        if key in self.memo_twin:
            return self.memo_twin[key]
        self.needed_obs.add('_%s_observed' % d)
        t = tuple(self.twin_input(p) for p in self.info[d][2])
        self.memo_twin[key] = t
        return t

    def twin_input(self, p):
        if self.observable(p):
            return self.twin(p)
        if self.stochastic(p) or any(self.stochastic(a) for a in self.ancestors(p)):
            raise Reject(p)
        return self.val(p)

    def twin(self, n):
        if n in self.memo_twin:
            return self.memo_twin[n]
        self.needed_obs.add('_%s_observed' % n)
        name, kind, pos, named, obs, meta = self.info[n]
        if obs:
            t = obs_term(n)
        elif self.stochastic(n):
            raise Reject(n)
        else:
            args = tuple(self.twin_input(p) for p in pos)
            kw = [(k, self.twin_input(p)) for k, p in named]
            self._bump(n)
            t = (n, args, tuple(sorted(kw)))
        self.memo_twin[n] = t
        return t


# ---------------------------------------------------------------- program enumeration
NAME_POOL = ['n2', 'n0', 'n3', 'n1', 'n5', 'n4']   # creation order differs from name order


def node_options(kind, earlier, max_parents, max_named, with_meta):
    """All (pos_parents, named_parents, obs, meta) choices for a new node of `kind`."""
    if kind == 'C':
        yield (), (), False, False
        return
    maxp = min(max_parents, len(earlier))
    for k in range(maxp + 1):
        if kind in 'MD' and k == 0:
            continue
        for parents in itertools.permutations(earlier, k):
            # each parent positional or named; named edges only into O, S, M (see DESIGN / check docstring)
            styles = [()]
            if kind in 'OSM':
                styles = []
                for mask in itertools.product((0, 1), repeat=k):
                    if sum(mask) <= max_named:
                        styles.append(mask)
            else:
                styles = [tuple([0] * k)]
            for mask in styles:
                pos = tuple(p for p, m in zip(parents, mask) if not m)
                named = tuple(('kw_' + p, p) for p, m in zip(parents, mask) if m)
                if kind in 'MD' and not pos:
                    continue          # Summary/Discrepancy constructors require a positional parent
                # named parents are unordered: canonical order by name to avoid duplicates
                if list(named) != sorted(named):
                    continue
                for obs in ([False, True] if kind in OBSERVABLE else [False]):
                    for meta in ([False, True] if (with_meta and kind in 'OSD') else [False]):
                        yield pos, named, obs, meta


def programs(n_nodes, max_parents=3, max_named=3, with_meta=True, kinds='COPSMD'):
    names = NAME_POOL[:n_nodes]

    def rec(i, prog):
        if i == n_nodes:
            yield list(prog)
            return
        earlier = [p[0] for p in prog]
        for kind in kinds:
            for pos, named, obs, meta in node_options(kind, earlier, max_parents, max_named, with_meta):
                yield from rec(i + 1, prog + [(names[i], kind, pos, named, obs, meta)])
    yield from rec(0, [])


def output_names(prog):
    outs = [r[0] for r in prog]
    outs += ['_%s_observed' % r[0] for r in prog if r[1] in 'SMD']
    return outs


def subsets(items, max_size=None, min_size=0):
    n = len(items)
    hi = n if max_size is None else min(n, max_size)
    for k in range(min_size, hi + 1):
        for c in itertools.combinations(items, k):
            yield list(c)
