"""Reference semantics for C08 (joint prior = product of conditional densities), independent of elfi.

A model is plain data:  {'nodes': [{'name', 'fam', 'form', 'args'}, ...], 'tail': bool}
  nodes are listed in construction (topological) order; an argument is a number (constant) or the name
  of an earlier node (parameter-valued argument).  The meaning of the model is the textbook one:

      p(theta_S) = prod_{i in S} f_i(theta_i ; args_i[parents := theta_parents])        (S ancestrally closed)

  with f_i the scipy.stats density of the family.  Everything here is scipy/numpy only.
"""
import itertools

import numpy as np
import scipy.special as sp
import scipy.stats as ss

# family -> (scipy distribution, number of leading shape arguments, standardised support (lo, hi) given shapes)
FAMS = {
    'uniform': (ss.uniform, 0),
    'norm': (ss.norm, 0),
    'expon': (ss.expon, 0),
    'beta': (ss.beta, 2),
    'truncnorm': (ss.truncnorm, 2),
    'ray': (ss.rayleigh, 0),      # in the elfi model this family is a hand-written ScipyLikeDistribution subclass
}


def enc(v):
    """float -> JSON-able (inf/-inf as strings)."""
    v = float(v)
    if v == np.inf:
        return 'inf'
    if v == -np.inf:
        return '-inf'
    return v


def dec(v):
    if isinstance(v, str):
        return {'inf': np.inf, '-inf': -np.inf, 'nan': np.nan}[v]
    return float(v)


def enc_nested(x):
    if isinstance(x, (list, tuple)):
        return [enc_nested(v) for v in x]
    if isinstance(x, np.ndarray):
        return enc_nested(x.tolist())
    return enc(x)


def dec_nested(x):
    if isinstance(x, list):
        return [dec_nested(v) for v in x]
    return dec(x)


# --------------------------------------------------------------------------- structure
def names(model):
    return [nd['name'] for nd in model['nodes']]


def parents(nd):
    return [a for a in nd['args'] if isinstance(a, str)]


def is_closed(model, req):
    """A requested list has a defined meaning (no marginalisation) iff every parent of a member is a member."""
    s = set(req)
    return all(p in s for nd in model['nodes'] if nd['name'] in s for p in parents(nd))


def requests(model):
    """Every non-empty subset of the parameters in every order (lists of names)."""
    ns = names(model)
    out = []
    for k in range(1, len(ns) + 1):
        for sub in itertools.combinations(sorted(ns), k):
            for perm in itertools.permutations(sub):
                out.append(list(perm))
    return out


def req_class(model, req):
    ns = sorted(names(model))
    if req is None:
        return 'default'
    if list(req) == ns:
        return 'all-sorted'
    if sorted(req) == ns:
        return 'all-permuted'
    return 'strict-subset'


# --------------------------------------------------------------------------- densities
def _split(fam, args):
    k = FAMS[fam][1]
    shapes = list(args[:k])
    loc = args[k] if len(args) > k else 0.0
    scale = args[k + 1] if len(args) > k + 1 else 1.0
    return shapes, loc, scale


def std_support(fam, shapes):
    if fam in ('uniform', 'beta'):
        return 0.0, 1.0
    if fam == 'norm':
        return -np.inf, np.inf
    if fam in ('expon', 'ray'):
        return 0.0, np.inf
    if fam == 'truncnorm':
        return shapes[0], shapes[1]
    raise KeyError(fam)


def factors(model, req, X):
    """Conditional densities of the requested nodes at the rows of X (columns follow req).

    -> (list of (name, pdf array)), boundary mask (some factor exactly on a finite support end point)."""
    X = np.asarray(X, dtype=float).reshape(-1, len(req))
    vals = {name: X[:, j] for j, name in enumerate(req)}
    out = []
    on_boundary = np.zeros(len(X), dtype=bool)
    with np.errstate(all='ignore'):
        for nd in model['nodes']:
            if nd['name'] not in vals:
                continue
            args = [vals[a] if isinstance(a, str) else float(a) for a in nd['args']]
            x = vals[nd['name']]
            out.append((nd['name'], np.asarray(FAMS[nd['fam']][0].pdf(x, *args), dtype=float)))
            shapes, loc, scale = _split(nd['fam'], args)
            lo, hi = std_support(nd['fam'], shapes)
            for b in (lo, hi):
                e = loc + scale * b
                on_boundary |= np.isfinite(e) & (x == e)
    return out, on_boundary


def joint_pdf(model, req, X):
    fs, on_b = factors(model, req, X)
    with np.errstate(all='ignore'):
        p = np.ones(len(np.asarray(X, dtype=float).reshape(-1, len(req))))
        for _, f in fs:
            p = p * f
    any_zero = np.zeros(len(p), dtype=bool)
    any_bad = np.zeros(len(p), dtype=bool)
    for _, f in fs:
        any_zero |= (f == 0)
        any_bad |= ~np.isfinite(f)
    return p, any_zero, any_bad, on_b


# --------------------------------------------------------------------------- closed-form derivatives of log f
def _phi(z):
    return np.exp(-0.5 * z * z) / np.sqrt(2 * np.pi)


def dlog(fam, x, args):
    """Partial derivatives of log f(x; args) -> (d/dx, [d/d args_k])  (interior points only)."""
    shapes, loc, scale = _split(fam, args)
    z = (x - loc) / scale
    dsh = []
    if fam == 'uniform':
        g1 = 0.0
    elif fam == 'norm':
        g1 = -z
    elif fam == 'expon':
        g1 = -1.0
    elif fam == 'ray':
        g1 = 1.0 / z - z
    elif fam == 'beta':
        a, b = shapes
        g1 = (a - 1.0) / z - (b - 1.0) / (1.0 - z)
        dsh = [np.log(z) - sp.digamma(a) + sp.digamma(a + b), np.log1p(-z) - sp.digamma(b) + sp.digamma(a + b)]
    elif fam == 'truncnorm':
        a, b = shapes
        g1 = -z
        Z = sp.ndtr(b) - sp.ndtr(a)
        dsh = [_phi(a) / Z, -_phi(b) / Z]
    else:
        raise KeyError(fam)
    dx = g1 / scale
    full = dsh + [-g1 / scale, -g1 * z / scale - 1.0 / scale]
    return dx, full[:len(args)]


def logpdf_closed(fam, x, args):
    """Closed-form log density (only used by the start-up self-test of this module against scipy)."""
    shapes, loc, scale = _split(fam, args)
    z = (x - loc) / scale
    if fam == 'uniform':
        g = 0.0
    elif fam == 'norm':
        g = -0.5 * z * z - 0.5 * np.log(2 * np.pi)
    elif fam == 'expon':
        g = -z
    elif fam == 'ray':
        g = np.log(z) - 0.5 * z * z
    elif fam == 'beta':
        a, b = shapes
        g = (a - 1) * np.log(z) + (b - 1) * np.log1p(-z) - sp.betaln(a, b)
    elif fam == 'truncnorm':
        a, b = shapes
        g = -0.5 * z * z - 0.5 * np.log(2 * np.pi) - np.log(sp.ndtr(b) - sp.ndtr(a))
    return g - np.log(scale)


def joint_grad(model, req, x):
    """Gradient of log prod_{i in req} f_i at the single point x (len(req),), w.r.t. the requested coordinates."""
    x = np.asarray(x, dtype=float).reshape(-1)
    idx = {name: j for j, name in enumerate(req)}
    g = np.zeros(len(req))
    for nd in model['nodes']:
        if nd['name'] not in idx:
            continue
        args = [x[idx[a]] if isinstance(a, str) else float(a) for a in nd['args']]
        dx, dargs = dlog(nd['fam'], x[idx[nd['name']]], args)
        g[idx[nd['name']]] += dx
        for a, da in zip(nd['args'], dargs):
            if isinstance(a, str):
                g[idx[a]] += da
    return g


def interior_mask(model, req, X, margin):
    """Rows of X at which the joint density is positive and finite at the point and at +-margin along every axis
    (the support of every factor is an interval along every coordinate axis for the families used)."""
    X = np.asarray(X, dtype=float).reshape(-1, len(req))
    ok = np.all(np.isfinite(X), axis=1)
    for j in [None] + list(range(len(req))):
        for s in ((0.0,) if j is None else (-margin, margin)):
            Y = X.copy()
            if j is not None:
                Y[:, j] += s
            Y[~ok] = 0.0
            p, _, any_bad, _ = joint_pdf(model, req, Y)
            ok &= np.isfinite(p) & (p > 0) & ~any_bad
    return ok


def selftest():
    """dlog/logpdf_closed against scipy (5-point stencil of scipy's logpdf). Raises AssertionError (harness error)."""
    cases = [('uniform', 1.2, [0.5, 2.0]), ('norm', 0.3, [1.0, 0.5]), ('expon', 1.7, [0.5, 2.0]), ('ray', 1.3, [0.5, 1.5]),
             ('beta', 1.1, [2.0, 3.0, 0.5, 2.0]), ('beta', 0.4, [1.5, 2.5]), ('truncnorm', 1.9, [-1.0, 2.0, 1.5, 1.0]),
             ('truncnorm', 0.2, [-1.0, 1.5]), ('norm', 0.3, []), ('expon', 0.8, [0.25]), ('beta', 1.4, [2.0, 3.0, 1.0])]
    h = 1e-3
    st = np.array([1.0, -8.0, 0.0, 8.0, -1.0]) / (12 * h)
    n = 0
    for fam, x, args in cases:
        d = FAMS[fam][0]
        assert abs(d.logpdf(x, *args) - logpdf_closed(fam, x, args)) < 1e-12, ('logpdf_closed', fam, args)
        dx, dargs = dlog(fam, x, args)
        num = sum(c * d.logpdf(x + k * h, *args) for c, k in zip(st, (-2, -1, 0, 1, 2)))
        assert abs(num - dx) < 1e-7 * (1 + abs(dx)), ('dlog/dx', fam, args, num, dx)
        for i in range(len(args)):
            def at(k):
                a = list(args)
                a[i] += k * h
                return d.logpdf(x, *a)
            num = sum(c * at(k) for c, k in zip(st, (-2, -1, 0, 1, 2)))
            assert abs(num - dargs[i]) < 1e-7 * (1 + abs(dargs[i])), ('dlog/darg', fam, args, i, num, dargs[i])
            n += 1
    return n


# --------------------------------------------------------------------------- alphabets
# templates: key -> (family, args, needs, pos)
#   args: numbers or placeholders 'P','Q' (parent slots);  needs[slot] in {'any','pos'}: 'pos' = the parent's support
#   must lie in [0.5, inf) (the argument is a scale or a shape);  pos: True / False / 'P' (positive iff parent P is)
ROOTS = {
    'u': ('uniform', [0.5, 2], True),
    'u0': ('uniform', [], False),
    'u1': ('uniform', [1], True),
    'n': ('norm', [0, 1], False),
    'n0': ('norm', [], False),
    'n1': ('norm', [1], False),
    'n2': ('norm', [1, 0.5], False),
    'e': ('expon', [0.5, 1], True),
    'e0': ('expon', [], False),
    'e1': ('expon', [0.5], True),
    'b': ('beta', [2, 3, 0.5, 2], True),
    'b0': ('beta', [2, 3], False),
    'b21': ('beta', [2, 1], False),
    'b3': ('beta', [2, 3, 1], True),
    't': ('truncnorm', [-1, 2, 1.5, 1], True),
    't0': ('truncnorm', [-1, 2], False),
    't3': ('truncnorm', [-1, 2, 1.5], True),
    'r': ('ray', [0.5, 1], True),
    'r0': ('ray', [], False),
}
CHILD1 = {
    'nP1': ('norm', ['P', 1], {'P': 'any'}, False),
    'n0P': ('norm', [0, 'P'], {'P': 'pos'}, False),
    'nP': ('norm', ['P'], {'P': 'any'}, False),
    'uP1': ('uniform', ['P', 1], {'P': 'any'}, 'P'),
    'u0P': ('uniform', [0, 'P'], {'P': 'pos'}, False),
    'uP': ('uniform', ['P'], {'P': 'any'}, 'P'),
    'eP1': ('expon', ['P', 1], {'P': 'any'}, 'P'),
    'e0P': ('expon', [0, 'P'], {'P': 'pos'}, False),
    'bP2': ('beta', [2, 3, 'P', 2], {'P': 'any'}, 'P'),
    'b0P': ('beta', [2, 3, 0, 'P'], {'P': 'pos'}, False),
    'bP': ('beta', [2, 3, 'P'], {'P': 'any'}, 'P'),
    'bsP': ('beta', ['P', 2], {'P': 'pos'}, False),
    'b2s': ('beta', [2, 'P'], {'P': 'pos'}, False),
    'tP1': ('truncnorm', [-1, 2, 'P', 1], {'P': 'any'}, False),
    't0P': ('truncnorm', [-1, 2, 0, 'P'], {'P': 'pos'}, False),
    'tsP': ('truncnorm', [-1, 'P'], {'P': 'pos'}, False),
    'rP1': ('ray', ['P', 1], {'P': 'any'}, 'P'),
    'r0P': ('ray', [0, 'P'], {'P': 'pos'}, False),
}
CHILD2 = {
    'nPQ': ('norm', ['P', 'Q'], {'P': 'any', 'Q': 'pos'}, False),
    'uPQ': ('uniform', ['P', 'Q'], {'P': 'any', 'Q': 'pos'}, 'P'),
    'ePQ': ('expon', ['P', 'Q'], {'P': 'any', 'Q': 'pos'}, 'P'),
    'bPQ': ('beta', [2, 3, 'P', 'Q'], {'P': 'any', 'Q': 'pos'}, 'P'),
    'bsPQ': ('beta', ['P', 'Q'], {'P': 'pos', 'Q': 'pos'}, False),
    'b2PQ': ('beta', [2, 'P', 'Q'], {'P': 'pos', 'Q': 'any'}, 'Q'),
    'tPQ': ('truncnorm', [-1, 2, 'P', 'Q'], {'P': 'any', 'Q': 'pos'}, False),
    'tsPQ': ('truncnorm', [-1, 'P', 'Q', 1], {'P': 'pos', 'Q': 'any'}, False),
    'rPQ': ('ray', ['P', 'Q'], {'P': 'any', 'Q': 'pos'}, 'P'),
}
# graph shapes: tuple of parent-position tuples, in topological order
SHAPES = {
    'I1': ((),),
    'I2': ((), ()),
    'CH2': ((), (0,)),
    'I3': ((), (), ()),
    'CH3': ((), (0,), (1,)),
    'FK3': ((), (0,), (0,)),
    'CO3': ((), (), (0, 1)),
    'FULL3': ((), (0,), (0, 1)),
    'MIX3': ((), (0,), ()),
}


def enum_templates(shape, roots, c1, c2):
    """Every assignment of templates to the positions of a shape whose argument needs are met by the parents'
    supports.  Two-parent templates are enumerated with both slot orders.  -> list of lists of
    (family, args with parent positions as ints wrapped in ('p', i))."""
    out = []

    def rec(pos, nodes, posflags):
        if pos == len(shape):
            out.append(list(nodes))
            return
        par = shape[pos]
        if len(par) == 0:
            for k in roots:
                fam, args, ispos = ROOTS[k]
                rec(pos + 1, nodes + [(k, fam, list(args))], posflags + [ispos])
        elif len(par) == 1:
            for k in c1:
                fam, args, needs, ispos = CHILD1[k]
                if needs['P'] == 'pos' and not posflags[par[0]]:
                    continue
                a = [('p', par[0]) if v == 'P' else v for v in args]
                rec(pos + 1, nodes + [(k, fam, a)], posflags + [posflags[par[0]] if ispos == 'P' else ispos])
        else:
            for k in c2:
                fam, args, needs, ispos = CHILD2[k]
                for order in ((0, 1), (1, 0)):
                    slot = {'P': par[order[0]], 'Q': par[order[1]]}
                    if any(needs[s] == 'pos' and not posflags[slot[s]] for s in slot):
                        continue
                    a = [('p', slot[v]) if v in slot else v for v in args]
                    fl = posflags[slot[ispos]] if ispos in slot else ispos
                    rec(pos + 1, nodes + [(k + ('' if order == (0, 1) else '~'), fam, a)], posflags + [fl])
    rec(0, [], [])
    return out


def make_model(assign, naming, forms, tail):
    """assign from enum_templates; naming: tuple of names per position; forms: tuple of forms per position."""
    nodes = []
    for i, (key, fam, args) in enumerate(assign):
        a = [naming[v[1]] if isinstance(v, tuple) else v for v in args]
        form = forms[i]
        if form == 'frozen' and any(isinstance(v, str) for v in a):
            form = 'obj'
        if form == 'alias' and fam not in ('norm', 'expon', 'uniform'):
            form = 'name'
        if fam == 'ray' and form in ('name', 'alias'):
            form = 'obj'
        if fam == 'ray' and form == 'frozen':
            form = 'inst'
        nodes.append({'name': naming[i], 'fam': fam, 'form': form, 'args': a, 'tpl': key})
    return {'nodes': nodes, 'tail': bool(tail)}
