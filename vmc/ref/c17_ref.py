"""Reference formulas for C17, written without elfi (numpy.linalg.lstsq, fractions)."""
import itertools
from fractions import Fraction

import numpy as np


# --------------------------------------------------------------------------- regression adjustment
def finite_rows(S, t):
    """Rows usable for one parameter: every summary finite and the parameter finite."""
    return np.isfinite(S).all(axis=1) & np.isfinite(t)


def ref_adjust(S, obs, t):
    """Textbook linear regression adjustment of one parameter.

    S (n,k) simulated summaries, obs (k,) observed summaries, t (n,) accepted parameter values.
    Returns dict(mask, n_fin, full_rank, adjusted): `adjusted` = t - (S-obs) @ slope on the finite rows, slope from
    the least-squares fit with intercept on those rows; only meaningful (unique) when full_rank.
    """
    S = np.asarray(S, dtype=float).reshape(len(t), -1)
    t = np.asarray(t, dtype=float)
    obs = np.asarray(obs, dtype=float)
    mask = finite_rows(S, t)
    X = S[mask] - obs
    tf = t[mask]
    n, k = X.shape
    out = {'mask': mask, 'n_fin': int(n), 'full_rank': False, 'adjusted': None, 'X': X, 't': tf}
    if n == 0:
        return out
    A = np.column_stack([np.ones(n), X])
    beta, _, rank, _ = np.linalg.lstsq(A, tf, rcond=None)
    out['full_rank'] = bool(rank == k + 1)
    out['adjusted'] = tf - X @ beta[1:]
    return out


def is_some_ls_adjustment(X, t, a, tol=1e-8):
    """Is a == t - X b for *some* least-squares slope b (fit with intercept)?  Used when the design is rank
    deficient and the slope is not unique: (i) t-a lies in the column space of X, (ii) the residual a-mean(a)
    is orthogonal to the centred regressors (normal equations)."""
    X = np.asarray(X, dtype=float)
    t = np.asarray(t, dtype=float)
    a = np.asarray(a, dtype=float)
    if not np.all(np.isfinite(a)):
        return False
    d = t - a
    scale = max(1.0, float(np.abs(t).max(initial=0.0)), float(np.abs(X).max(initial=0.0)))
    b = np.linalg.lstsq(X, d, rcond=None)[0]
    if np.abs(X @ b - d).max(initial=0.0) > tol * scale:
        return False
    Xc = X - X.mean(axis=0)
    r = a - a.mean()
    return bool(np.abs(Xc.T @ r).max(initial=0.0) <= tol * scale * scale * max(1, len(t)))


# --------------------------------------------------------------------------- model comparison
def ref_compare(ds, nsims, weights=None):
    """All probability vectors allowed by the statement.

    ds: list of discrepancy lists (one per model); nsims: simulations per model; weights: prior weights or None.
    n_min = smallest sample size; the n_min jointly smallest discrepancies are shared between the models; a tie at
    the cut leaves the share open, so every split of the tied values is returned.
    -> (list of probability vectors as tuples of Fractions, tie_at_cut: bool)
    """
    m = len(ds)
    n_min = min(len(d) for d in ds)
    joint = sorted(x for d in ds for x in d)
    cut = joint[n_min - 1]
    below = [sum(1 for x in d if x < cut) for d in ds]
    tied = [sum(1 for x in d if x == cut) for d in ds]
    r = n_min - sum(below)
    assert 1 <= r <= sum(tied)
    tie_at_cut = r < sum(tied)
    w = [Fraction(1)] * m if weights is None else [Fraction(x) for x in weights]
    cands = []
    for extra in itertools.product(*[range(0, ti + 1) for ti in tied]):
        if sum(extra) != r:
            continue
        score = [Fraction(below[i] + extra[i], int(nsims[i])) * w[i] for i in range(m)]
        tot = sum(score)
        cands.append(tuple(s / tot for s in score))
    uniq = sorted(set(cands))
    return uniq, tie_at_cut
