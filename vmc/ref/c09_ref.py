"""Reference models for C09, written independently of elfi.

* `metropolis_ref`: the textbook random-walk Metropolis chain on a given list of log-target answers,
  consuming a `RandomState(seed)` stream in one of several *legal draw orders* (the property fixes the
  algorithm, not the order in which the normal and the uniform variates are taken from the stream).
* `metropolis_ref_fn`: the same on a real target function.
* `ess_geyer`, `mcse`: O(n * maxlag) autocovariance sums + Geyer's initial positive sequence, used by the
  (non-exhaustive, regression-oracle) moments table.
"""
import math

import numpy as np

ORDERS = ('A', 'B', 'C', 'D')
# A: per step  z = randn(dim); u = rand()            (the order of the implementation read on this tree)
# B: per step  z = randn(dim); u = rand() only when the proposed log-target is finite (lazy uniform)
# C: per step  u = rand(); z = randn(dim)
# D: all z first (randn(N, dim)), then all u (rand(N))


class Draws:
    """Variates of one chain in a given draw order; for order B the uniform is drawn on demand."""

    def __init__(self, seed, dim, n_steps, order):
        self.rs = np.random.RandomState(seed)
        self.dim = dim
        self.order = order
        if order == 'D':
            self.Z = self.rs.randn(n_steps, dim)
            self.U = self.rs.rand(n_steps)

    def z(self, i):
        if self.order == 'D':
            return self.Z[i]
        if self.order == 'C':
            self._u = self.rs.rand()
        return self.rs.randn(self.dim)

    def u(self, i, finite):
        if self.order == 'D':
            return self.U[i]
        if self.order == 'C':
            return self._u
        if self.order == 'B' and not finite:
            return None
        return self.rs.rand()


def predraw_A(seed, dim, n_steps):
    """z (n_steps, dim) and u (n_steps,) in draw order A."""
    rs = np.random.RandomState(seed)
    Z = np.empty((n_steps, dim))
    U = np.empty(n_steps)
    for i in range(n_steps):
        Z[i] = rs.randn(dim)
        U[i] = rs.rand()
    return Z, U


def near_tie(u, ratio):
    """u == ratio up to a few ulp: the statement leaves a measure-zero tie free."""
    return u == ratio or (math.isfinite(ratio) and abs(u - ratio) <= 1e-12 * max(abs(u), abs(ratio)))


def metropolis_steps(p0, answers, sigma, Z, U):
    """The chain on pre-drawn variates.  answers[0] is the log-target of p0, answers[k] of the k-th proposal.

    -> (states (N, dim) incl. warm-up, proposals (N, dim), accepted [bool], tie_seen)
    accept  <=>  log-target of the proposal finite  and  u < exp(t - t_current).
    """
    cur = np.array(p0, dtype=float)
    tcur = answers[0]
    n_steps = len(answers) - 1
    states = np.empty((n_steps,) + cur.shape)
    props = np.empty((n_steps,) + cur.shape)
    acc = []
    tie = False
    for i in range(n_steps):
        prop = cur + sigma * Z[i]
        t = answers[i + 1]
        a = False
        if math.isfinite(t):
            d = t - tcur
            ratio = math.exp(d) if d < 700 else math.inf
            if near_tie(U[i], ratio):
                tie = True
            a = U[i] < ratio
        if a:
            cur, tcur = prop, t
        props[i] = prop
        states[i] = cur
        acc.append(a)
    return states, props, acc, tie


def metropolis_ref(n, p0, answers, sigma, warmup, seed, order='A'):
    """Reference chain for a list of scripted answers with live draws in the given legal order.

    -> (returned states (n, dim), proposals, tie_seen)
    """
    cur = np.array(p0, dtype=float)
    dr = Draws(seed, cur.shape[0], n + warmup, order)
    tcur = answers[0]
    out, props, tie = [], [], False
    for i in range(n + warmup):
        prop = cur + sigma * dr.z(i)
        t = answers[i + 1] if i + 1 < len(answers) else math.nan
        fin = math.isfinite(t)
        u = dr.u(i, fin)
        if fin:
            d = t - tcur
            ratio = math.exp(d) if d < 700 else math.inf
            tie = tie or near_tie(u, ratio)
            if u < ratio:
                cur, tcur = prop, t
        props.append(prop)
        out.append(cur)
    return np.array(out[warmup:]).reshape((n,) + np.shape(p0)), np.array(props), tie


def metropolis_ref_fn(n, p0, target, sigma, warmup, seed, order='A'):
    """Reference chain on a real target function (answers are obtained by calling it on the proposals)."""
    cur = np.array(p0, dtype=float)
    dr = Draws(seed, cur.shape[0], n + warmup, order)
    tcur = float(target(cur))
    out, tie = [], False
    for i in range(n + warmup):
        prop = cur + sigma * dr.z(i)
        t = float(target(prop))
        fin = math.isfinite(t)
        u = dr.u(i, fin)
        if fin:
            d = t - tcur
            ratio = math.exp(d) if d < 700 else math.inf
            tie = tie or near_tie(u, ratio)
            if u < ratio:
                cur, tcur = prop, t
        out.append(cur)
    return np.array(out[warmup:]).reshape((n,) + np.shape(p0)), tie


# ----------------------------------------------------------------------------- moments table helpers
def ess_geyer(x, max_lag=None):
    """Effective sample size of a 1-d chain: direct autocovariance sums, Geyer initial positive sequence."""
    x = np.asarray(x, dtype=float)
    n = len(x)
    xc = x - x.mean()
    var = float(xc @ xc) / n
    if var == 0.0:
        return 1.0
    max_lag = min(n - 2, max_lag or 400)
    rho = [1.0]
    for lag in range(1, max_lag + 1):
        rho.append(float(xc[:-lag] @ xc[lag:]) / n / var)
    tau = -1.0
    k = 0
    while 2 * k + 1 < len(rho):
        g = rho[2 * k] + rho[2 * k + 1]
        if g <= 0:
            break
        tau += 2.0 * g
        k += 1
    tau = max(tau, 1.0)      # never claim more information than n independent draws (conservative MCSE)
    return n / tau


def mcse(x):
    """Monte-Carlo standard error of the mean of chain x."""
    x = np.asarray(x, dtype=float)
    return float(np.std(x, ddof=1)) / math.sqrt(ess_geyer(x))
