"""Reference side of C12, written without elfi: row-by-row scipy metrics, population std, enumerators.

Nothing here imports elfi or calls `cdist`; the metric of one simulated row against the stacked observation is
`scipy.spatial.distance.<metric>(u, v, ...)` (or a plain python loop for the user callables).
"""
import itertools

import numpy as np
import scipy.spatial.distance as sd

WIDTH = {'s': 1, 'c': 1, 'v': 2}   # s: scalar summary (bs,), c: (bs,1), v: (bs,2)


# ---------------------------------------------------------------- layouts, shapes
def layouts(max_len=3):
    """All sequences of 1..max_len summaries over the width kinds s, c, v (39 for max_len=3)."""
    out = []
    for k in range(1, max_len + 1):
        for t in itertools.product('scv', repeat=k):
            out.append(''.join(t))
    return out


def n_cols(layout):
    return sum(WIDTH[c] for c in layout)


def col_ranges(layout):
    r, lo = [], 0
    for c in layout:
        r.append((lo, lo + WIDTH[c]))
        lo += WIDTH[c]
    return r


def split_columns(layout, rows, dtype=float):
    """rows: (n, m) nested list -> list of per-summary arrays with the shape kind of the layout."""
    a = np.array(rows, dtype=dtype).reshape(len(rows), n_cols(layout))
    out = []
    for c, (lo, hi) in zip(layout, col_ranges(layout)):
        out.append(a[:, lo].copy() if c == 's' else a[:, lo:hi].copy())
    return out


def observed_values(layout, obs_row, form):
    """Observed value of every summary.  form 'row': what a summary function produces from one observed data
    row, i.e. (1,), (1,1), (1,2);  form 'flat': 1-d vectors, i.e. (1,), (1,), (2,)."""
    out = []
    for c, (lo, hi) in zip(layout, col_ranges(layout)):
        v = np.array(obs_row[lo:hi], dtype=float)
        if form == 'row':
            out.append(v.copy() if c == 's' else v.reshape(1, -1))
        elif form == 'flat':
            out.append(v.copy())
        else:
            raise KeyError(form)
    return out


OBS = {'A': (2, -1, 0, 2, 0, -1), 'B': (1, -2, 3, 0, -3, 1), 'C': (0.5, -1.25, 2.75, 0.1, -0.3, 1.9)}   # A lies on the value grid (zero distances occur)


# ---------------------------------------------------------------- metric alphabet
def _w(m):
    return np.array([1., 2., .5, 3., 1.5, 2.5][:m])


def _V(m):
    return np.array([4., 1., .25, 2., 9., .5][:m])


def _VI(m):
    a = np.diag(np.array([2., 1., 3., 1.5, 2.5, 1.][:m]))
    for i in range(m - 1):
        a[i, i + 1] = a[i + 1, i] = 0.4 if i % 2 == 0 else -0.3
    return a


# name -> (scipy metric string or None for a callable, kwargs builder(m), row function(u, v, m), kwargs class)
METRICS = {
    'euclidean': ('euclidean', lambda m: {}, lambda u, v, m: sd.euclidean(u, v), 'plain'),
    'cityblock': ('cityblock', lambda m: {}, lambda u, v, m: sd.cityblock(u, v), 'plain'),
    'chebyshev': ('chebyshev', lambda m: {}, lambda u, v, m: sd.chebyshev(u, v), 'plain'),
    'sqeuclidean': ('sqeuclidean', lambda m: {}, lambda u, v, m: sd.sqeuclidean(u, v), 'plain'),
    'minkowski': ('minkowski', lambda m: {}, lambda u, v, m: sd.minkowski(u, v), 'plain'),
    'minkowski_p1': ('minkowski', lambda m: {'p': 1}, lambda u, v, m: sd.minkowski(u, v, 1), 'kw-p'),
    'minkowski_p3': ('minkowski', lambda m: {'p': 3}, lambda u, v, m: sd.minkowski(u, v, 3), 'kw-p'),
    'minkowski_p1_w': ('minkowski', lambda m: {'p': 1, 'w': _w(m)}, lambda u, v, m: sd.minkowski(u, v, 1, _w(m)), 'kw-w'),
    'minkowski_p3_w': ('minkowski', lambda m: {'p': 3, 'w': _w(m)}, lambda u, v, m: sd.minkowski(u, v, 3, _w(m)), 'kw-w'),
    'euclidean_w': ('euclidean', lambda m: {'w': _w(m)}, lambda u, v, m: sd.euclidean(u, v, _w(m)), 'kw-w'),
    'cityblock_w': ('cityblock', lambda m: {'w': _w(m)}, lambda u, v, m: sd.cityblock(u, v, _w(m)), 'kw-w'),
    'chebyshev_w': ('chebyshev', lambda m: {'w': _w(m)}, lambda u, v, m: sd.chebyshev(u, v, _w(m)), 'kw-w'),
    'seuclidean_V': ('seuclidean', lambda m: {'V': _V(m)}, lambda u, v, m: sd.seuclidean(u, v, _V(m)), 'kw-V'),
    'mahalanobis_VI': ('mahalanobis', lambda m: {'VI': _VI(m)}, lambda u, v, m: sd.mahalanobis(u, v, _VI(m)), 'kw-VI'),
    # user callables (defined in the check module); reference = plain loops
    'user_vec': (None, lambda m: {},
                 lambda u, v, m: float(sum((j + 1) * abs(float(a) - float(b)) for j, (a, b) in enumerate(zip(u, v)))),
                 'callable'),
    'user_col': (None, lambda m: {},
                 lambda u, v, m: float(max(abs(float(a) - float(b)) for a, b in zip(u, v))) + 0.5, 'callable'),
}


def row_distances(metric, rows, obs_row):
    """The oracle: one scipy call per simulated row."""
    m = len(obs_row)
    fn = METRICS[metric][2]
    v = np.array(obs_row, dtype=float)
    return np.array([fn(np.array(r, dtype=float), v, m) for r in rows], dtype=float)


# ---------------------------------------------------------------- batches
def all_rows(grid, m):
    return [list(r) for r in itertools.product(grid, repeat=m)]


def window_batches(rows, bs, stride):
    """Cyclic windows of bs consecutive rows of the enumerated row list, starts 0, stride, 2*stride, ..."""
    n = len(rows)
    return [[rows[(st + j) % n] for j in range(bs)] for st in range(0, n, stride)]


# ---------------------------------------------------------------- adaptive reference
def compositions(n):
    """All 2**(n-1) compositions of n (ordered chunk lengths)."""
    out = []
    for mask in range(1 << (n - 1)):
        comp, run = [], 1
        for i in range(n - 1):
            if mask >> i & 1:
                comp.append(run)
                run = 1
            else:
                run += 1
        comp.append(run)
        out.append(comp)
    return out


def pop_std(rows):
    return np.std(np.array(rows, dtype=float), axis=0)


def nonconstant(rows):
    a = np.array(rows)
    return bool(np.all(a.max(axis=0) != a.min(axis=0)))


def scaled_euclid(rows, obs_row, scale):
    """Euclid((s - obs)/scale) row by row (scale None = plain)."""
    v = np.array(obs_row, dtype=float)
    out = []
    for r in rows:
        z = np.array(r, dtype=float) - v
        if scale is not None:
            z = z / scale
        out.append(float(np.sqrt(np.sum(z * z))))
    return np.array(out)
