"""Reference formulas for C16, written without elfi: exact-rational weighted mean / quantile admissibility,
O(n^2) direct-sum effective sample size and split R-hat (the formulas cited by the docstrings of
elfi.methods.mcmc: Stan manual 2.14 / BDA3 in autocovariance form)."""
from fractions import Fraction as F


def frac(v):
    """Exact rational value of a Python/numpy number."""
    if isinstance(v, F):
        return v
    if isinstance(v, int):
        return F(v)
    try:
        import numpy as np
        if isinstance(v, np.integer):
            return F(int(v))
    except Exception:  # pragma: no cover
        pass
    return F(float(v))


def wmean(x, w=None):
    """sum_i w_i x_i / sum_i w_i in exact rationals (w None = equal weights)."""
    xs = [frac(v) for v in x]
    ws = [F(1)] * len(xs) if w is None else [frac(v) for v in w]
    tot = sum(ws)
    return sum(a * b for a, b in zip(xs, ws)) / tot


def quantile_admissible(x, w, alpha, eps=F(1, 10 ** 9)):
    """Set of sample elements q with W(<=q) >= alpha and W(<q) <= alpha (normalised weights, exact rationals).

    alpha is widened by eps on both sides, so that when alpha sits (numerically) on a cumulative-weight boundary
    both neighbouring answers are accepted; away from boundaries the set is exactly the defined one.
    """
    xs = [frac(v) for v in x]
    ws = [F(1)] * len(xs) if w is None else [frac(v) for v in w]
    tot = sum(ws)
    a = frac(alpha)
    out = set()
    for q in set(xs):
        le = sum(wi for xi, wi in zip(xs, ws) if xi <= q) / tot
        lt = sum(wi for xi, wi in zip(xs, ws) if xi < q) / tot
        if le >= a - eps and lt <= a + eps:
            out.add(q)
    return out


def _mean(v):
    return sum(v, F(0)) / len(v)


def _var1(v):
    """Sample variance with n-1 denominator."""
    m = _mean(v)
    return sum(((a - m) ** 2 for a in v), F(0)) / (len(v) - 1)


def ess_exact(chains, near=F(1, 10 ** 9)):
    """Effective sample size m*n / (1 + 2*sum_{t=1}^{T-1} rho_t), T = first lag with rho_t < 0,
    rho_t = 1 - (W - mean_j acov_j(t)) / var+,  acov_j(t) = (n-t)^-1 sum_i (x_i - xbar_j)(x_{i+t} - xbar_j).

    Returns (ess or None when var+ == 0, near_discontinuity flag, number of lags summed).
    """
    X = [[frac(v) for v in c] for c in chains]
    m, n = len(X), len(X[0])
    means = [_mean(c) for c in X]
    W = _mean([_var1(c) for c in X])
    B = F(0) if m == 1 else n * _var1(means)
    varp = (F(n - 1) * W + B) / n
    if varp == 0:
        return None, False, 0
    s = F(0)
    is_near = False
    used = 0
    for t in range(1, n):
        ac = []
        for c, mu in zip(X, means):
            ac.append(sum(((c[i] - mu) * (c[i + t] - mu) for i in range(n - t)), F(0)) / (n - t))
        rho = 1 - (W - _mean(ac)) / varp
        if abs(rho) <= near:
            is_near = True
        if rho < 0:
            break
        s += rho
        used += 1
    return F(m * n) / (1 + 2 * s), is_near, used


def split_halves(chain, drop):
    n = len(chain)
    h = n // 2
    if n % 2 == 0:
        return [chain[:h], chain[h:]]
    if drop == 'last':
        return [chain[:h], chain[h:2 * h]]
    if drop == 'middle':
        return [chain[:h], chain[h + 1:]]
    if drop == 'first':
        return [chain[1:h + 1], chain[h + 1:]]
    raise KeyError(drop)


def rhat_sq_exact(chains, drop='last'):
    """var+/W on half chains (split R-hat squared); None when W == 0."""
    X = []
    for c in chains:
        X.extend(split_halves([frac(v) for v in c], drop))
    n = len(X[0])
    means = [_mean(c) for c in X]
    W = _mean([_var1(c) for c in X])
    if W == 0:
        return None
    B = n * _var1(means)
    varp = (F(n - 1) * W + B) / n
    return varp / W
