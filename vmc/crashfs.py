"""Crash injector for elfi.store (DESIGN 2.4).

elfi.store obtains its files through the module-global name `open`; we bind it to a factory
returning io.BufferedRandom(TracedFileIO(...)).  Every raw write/truncate really happens on a real
file and is appended to LOG; memmap stores are logged by wrapping NpyArray.__setitem__.
Crash image after raw op k = replay of LOG[:k] onto an empty byte array; validated against really
killed children (os._exit right after raw op k).
"""
import builtins
import io
import os

import numpy as np

LOG = []
KILL_AT = [None]
_installed = [False]
_real_open = builtins.open


_FDS = set()     # descriptors of the traced files that are open


class TracedFileIO(io.FileIO):
    def __init__(self, *a, **k):
        super().__init__(*a, **k)
        _FDS.add(self.fileno())

    def close(self):
        if not self.closed:
            _FDS.discard(self.fileno())
        super().close()

    def write(self, b):
        off = self.tell()
        data = bytes(b)
        n = super().write(b)
        LOG.append(('write', off, data[:n]))
        _maybe_kill()
        return n

    def truncate(self, size=None):
        if size is None:
            size = self.tell()
        r = super().truncate(size)
        LOG.append(('truncate', int(size)))
        _maybe_kill()
        return r


class _OsProxy:
    """Stands in for the `os` module inside elfi.store: descriptor-level writes to a traced file (os.pwrite, os.write,
    os.ftruncate, os.truncate on a descriptor) bypass the file object and are raw operations of their own."""

    def __getattr__(self, name):
        return getattr(os, name)

    @staticmethod
    def pwrite(fd, data, offset):
        n = os.pwrite(fd, data, offset)
        if fd in _FDS:
            LOG.append(('write', int(offset), bytes(data)[:n]))
            _maybe_kill()
        return n

    @staticmethod
    def write(fd, data):
        off = os.lseek(fd, 0, os.SEEK_CUR) if fd in _FDS else 0
        n = os.write(fd, data)
        if fd in _FDS:
            LOG.append(('write', int(off), bytes(data)[:n]))
            _maybe_kill()
        return n

    @staticmethod
    def ftruncate(fd, length):
        r = os.ftruncate(fd, length)
        if fd in _FDS:
            LOG.append(('truncate', int(length)))
            _maybe_kill()
        return r

    @staticmethod
    def truncate(path, length):
        r = os.truncate(path, length)
        if isinstance(path, int) and path in _FDS:
            LOG.append(('truncate', int(length)))
            _maybe_kill()
        return r


def _maybe_kill():
    if KILL_AT[0] is not None and len(LOG) == KILL_AT[0]:
        os._exit(0)


def traced_open(path, mode='r', *a, **k):
    if str(path).endswith('.npy') and 'b' in mode and ('+' in mode or 'w' in mode):
        if 'w' in mode:
            # O_TRUNC at open time is a raw truncate of the existing file
            exists = os.path.exists(path)
            raw = TracedFileIO(path, mode.replace('b', ''))
            if exists:
                LOG.append(('truncate', 0))
                _maybe_kill()
            else:
                LOG.append(('create',))
                _maybe_kill()
        else:
            raw = TracedFileIO(path, mode.replace('b', ''))
        return io.BufferedRandom(raw)
    return _real_open(path, mode, *a, **k)


def install():
    """Bind elfi.store.open and wrap NpyArray.__setitem__ (idempotent)."""
    import elfi.store as st
    if _installed[0]:
        return
    st.open = traced_open
    if getattr(st, 'os', None) is os:
        st.os = _OsProxy()
    orig = st.NpyArray.__setitem__

    def traced_setitem(self, sl, value):
        orig(self, sl, value)
        mm = self.memmap
        rowsize = int(np.prod(self.shape[1:], dtype=int)) * self.itemsize
        start = (sl.start or 0) * rowsize + self.header_length
        LOG.append(('mmap', start, np.ascontiguousarray(mm[sl]).tobytes()))
        _maybe_kill()
    traced_setitem._vmc_orig = orig
    st.NpyArray.__setitem__ = traced_setitem
    _installed[0] = True


def reset(kill_at=None):
    LOG.clear()
    KILL_AT[0] = kill_at


def image(log, k, start=b''):
    """Bytes on disk after the first k raw operations."""
    buf = bytearray(start)
    for op in log[:k]:
        if op[0] in ('write', 'mmap'):
            off, data = op[1], op[2]
            if len(buf) < off:
                buf.extend(b'\0' * (off - len(buf)))
            buf[off:off + len(data)] = data
        elif op[0] == 'truncate':
            size = op[1]
            if len(buf) > size:
                del buf[size:]
            else:
                buf.extend(b'\0' * (size - len(buf)))
        elif op[0] == 'create':
            pass
    return bytes(buf)


def images(log, start=b''):
    """Yield (k, image bytes) for k = 1..len(log), incrementally."""
    buf = bytearray(start)
    for k, op in enumerate(log, 1):
        if op[0] in ('write', 'mmap'):
            off, data = op[1], op[2]
            if len(buf) < off:
                buf.extend(b'\0' * (off - len(buf)))
            buf[off:off + len(data)] = data
        elif op[0] == 'truncate':
            size = op[1]
            if len(buf) > size:
                del buf[size:]
            else:
                buf.extend(b'\0' * (size - len(buf)))
        yield k, bytes(buf)
