"""Findings, replay files, known-findings handling and evidence writing (DESIGN 2.6)."""
import hashlib
import json
import os
import sys
import time

from .canon import jsonable
from . import par

ROOT = os.path.dirname(os.path.dirname(os.path.abspath(__file__)))
KNOWN_FILE = os.path.join(ROOT, 'known_findings.json')


def case_digest(case):
    return hashlib.md5(json.dumps(jsonable(case), sort_keys=True).encode()).hexdigest()


def ok(outcome=None, trivial=False, **cnt):
    return {'viol': None, 'outcome': outcome, 'trivial': trivial, 'cnt': cnt}


def bad(sig, detail=None, outcome=None, **cnt):
    return {'viol': {'sig': sig, 'detail': jsonable(detail)}, 'outcome': outcome, 'trivial': False, 'cnt': cnt}


class Ctx:
    def __init__(self, pid, tier, seed, level, only=None):
        self.pid = pid
        self.tier = tier
        self.seed = seed
        self.level = level
        self.only = only
        self.t0 = time.time()
        self.evaluations = 0
        self.nontrivial = set()
        self.n_nontrivial_extra = 0
        self.outcomes = set()
        self.states = set()
        self.n_states = 0          # used when states are only counted, not collected
        self.transitions = 0
        self.validated = 0
        self.cnt = {}
        self.samples = []
        self.sample_keys = set()
        self.assumptions = []
        self.extra = {}
        self.rule = ''
        self.exhaustive = True
        self.viol = {}             # sig -> (size, case, detail)
        self.viol_count = 0
        self.known_lines = []
        self.sections = {}
        self.quick = tier == 'quick'

    # ------------------------------------------------------------------ recording
    def add_sample(self, case, key=None, limit=12):
        key = key if key is not None else len(self.samples)
        if key in self.sample_keys or len(self.samples) >= limit:
            return
        self.sample_keys.add(key)
        self.samples.append(jsonable(case))

    def count(self, **kw):
        for k, v in kw.items():
            self.cnt[k] = self.cnt.get(k, 0) + v

    def record(self, case, res, section=None):
        """Record the result of one explored case (a dict produced by ok()/bad())."""
        ev = int(res.get('evals', 1))
        self.evaluations += ev
        if section is not None:
            s = self.sections.setdefault(section, {'cases': 0, 'evaluations': 0, 'violations': 0})
            s['cases'] += 1
            s['evaluations'] += ev
        if 'distinct' in res:
            # the runner enumerated `evals` sub-cases itself and measured how many were distinct+non-trivial
            self.n_nontrivial_extra += int(res['distinct'])
        elif not res.get('trivial'):
            self.nontrivial.add(case_digest(case))
        if res.get('outcome') is not None:
            self.outcomes.add(res['outcome'])
        for o in res.get('outcome_list') or ():      # runners that enumerate sub-cases report their outcome digests
            self.outcomes.add(o)
        for k, v in (res.get('cnt') or {}).items():
            if isinstance(v, (int, float)):
                self.cnt[k] = self.cnt.get(k, 0) + v
        for s in res.get('states') or ():
            self.states.add(s)
        self.transitions += res.get('transitions', 0)
        self.validated += res.get('validated', 0)
        v = res.get('viol')
        if v:
            self.viol_count += 1
            if section is not None:
                self.sections[section]['violations'] += 1
            size = len(json.dumps(jsonable(case), sort_keys=True))
            cur = self.viol.get(v['sig'])
            key = (size, json.dumps(jsonable(case), sort_keys=True))
            if cur is None or key < cur[0]:
                self.viol[v['sig']] = (key, jsonable(case), v.get('detail'))

    def run_cases(self, runner, cases, section=None, sample_every=None, chunksize=None, workers=None, timeout=None):
        """Run runner(case) for every case in forked workers and record all results.

        A case that produces no result within the watchdog time (code under test that does not terminate) is
        recorded as a violation of its own class; the remaining cases of the section are not run."""
        cases = list(cases)
        n0 = self.evaluations

        def fn(case):
            return case, runner(case)
        try:
            for i, (case, res) in enumerate(par.pmap(fn, cases, chunksize=chunksize, workers=workers, ordered=True,
                                                     timeout=timeout)):
                self.record(case, res, section)
                if i == 0 or i == len(cases) - 1 or (sample_every and i % sample_every == 0):
                    self.add_sample(case, key=(section, i))
        except par.Hang as h:
            self.exhaustive = False
            self.record(cases[h.index], bad('%s:%s:no-result-within-watchdog-time' % (self.pid, section or 'case'),
                                            {'seconds': h.seconds, 'first_pending_case': jsonable(cases[h.index])}), section)
        return self.evaluations - n0

    # ------------------------------------------------------------------ known findings
    def _known(self):
        if not os.path.exists(KNOWN_FILE):
            return []
        with open(KNOWN_FILE) as f:
            data = json.load(f)
        return [e for e in data.get('findings', []) if e.get('property') == self.pid]

    def run_witnesses(self, replay_fn):
        """Re-execute pinned witnesses: open entries print KNOWN-FINDING while the defect exists,
        fixed entries are permanent regression cases."""
        for e in self._known():
            w = e.get('witness')
            if w is None:
                continue
            res = replay_fn(w)
            self.evaluations += 1
            self.count(witnesses=1)
            v = res.get('viol')
            if e.get('status') == 'open':
                if v and v['sig'] == e['signature']:
                    line = 'KNOWN-FINDING: property=%s %s' % (self.pid, e['what'])
                    if line not in self.known_lines:
                        self.known_lines.append(line)
                elif v:
                    self.record(w, res, 'witness')
            else:  # fixed: must pass
                if v:
                    self.record(w, res, 'witness')

    # ------------------------------------------------------------------ finishing
    def finish(self):
        known_open = {e['signature']: e for e in self._known() if e.get('status') == 'open'}
        lines = []
        n_unlisted = 0
        os.makedirs(os.path.join(ROOT, 'replays', self.pid), exist_ok=True)
        for sig in sorted(self.viol):
            key, case, detail = self.viol[sig]
            if sig in known_open:
                line = 'KNOWN-FINDING: property=%s %s' % (self.pid, known_open[sig]['what'])
                if line not in self.known_lines:
                    self.known_lines.append(line)
                continue
            n_unlisted += 1
            if n_unlisted > 25:
                continue
            path = os.path.join(ROOT, 'replays', self.pid, hashlib.md5((sig + key[1]).encode()).hexdigest()[:16] + '.json')
            with open(path, 'w') as f:
                json.dump({'property': self.pid, 'tier': self.tier, 'seed': self.seed, 'signature': sig,
                           'case': case, 'detail': detail}, f, indent=1, sort_keys=True)
            lines.append('VIOLATION property=%s replay=%s' % (self.pid, path))
            sys.stderr.write('  signature: %s\n  detail: %s\n' % (sig, json.dumps(detail)[:1500]))
        for l in self.known_lines:
            print(l)
        for l in lines:
            print(l)
        self.write_evidence(n_unlisted)
        cov = self.coverage()
        print('%s %s: evaluations=%d distinct_nontrivial=%d outcomes=%d states=%d transitions=%d '
              'violations=%d known=%d wall=%.1fs' % (
                  self.pid, self.tier, cov['evaluations'], cov['distinct_nontrivial'], len(self.outcomes),
                  cov.get('states', 0), cov.get('transitions', 0), n_unlisted, len(self.known_lines),
                  time.time() - self.t0))
        sys.stdout.flush()
        return 1 if n_unlisted else 0

    def coverage(self):
        cov = {
            'evaluations': int(self.evaluations),
            'distinct_nontrivial': int(len(self.nontrivial) + self.n_nontrivial_extra),
            'rule': self.rule,
            'samples': self.samples[:12],
            'exhaustive': bool(self.exhaustive),
            'distinct_outcomes': len(self.outcomes),
            'counters': {k: (int(v) if float(v).is_integer() else v) for k, v in sorted(self.cnt.items())},
            'sections': self.sections,
        }
        nstates = len(self.states) + self.n_states
        if self.level in ('model_checking', 'fault_enumeration') or nstates:
            cov['states'] = int(nstates)
            cov['transitions'] = int(self.transitions)
            cov['traces_validated_against_impl'] = int(self.validated)
        cov.update(self.extra)
        return cov

    def write_evidence(self, n_viol):
        ev = {
            'property_id': self.pid,
            'tier': self.tier,
            'seed': int(self.seed),
            'level': self.level,
            'coverage': self.coverage(),
            'assumptions': list(self.assumptions),
            'wall_s': round(time.time() - self.t0, 2),
            'violations': int(n_viol),
            'known_findings_reported': list(self.known_lines),
        }
        evdir = os.environ.get('VMC_EVIDENCE_DIR') or os.path.join(ROOT, 'evidence')   # scratch dir for seeded-change runs
        if self.only and not os.environ.get('VMC_EVIDENCE_DIR'):
            # a run restricted to some sections (--only, debugging) describes less than the registered check covers:
            # it never replaces the evidence file of the property
            evdir = '/var/tmp/vmc_partial_evidence'
        os.makedirs(evdir, exist_ok=True)
        path = os.path.join(evdir, self.pid + '.json')
        tmp = path + '.tmp'
        with open(tmp, 'w') as f:
            json.dump(ev, f, indent=1, sort_keys=True)
        os.replace(tmp, path)
