"""ScheduledClient: an ELFI client whose task completion order and is_ready answers are the
explorer's choices (DESIGN 4 C04).  Tasks are queued -> done; before every API call the
environment may complete any queued task, one at a time, in any order.
"""
import itertools
import pickle

import elfi.client

from .canon import canon, digest, hook


class ScheduledClient(elfi.client.ClientBase):
    def __init__(self, ch, cores=2, isolation='shared', default='lazy', state_fn=None, max_steps=100000):
        self.ch = ch
        self.cores = cores
        self.isolation = isolation
        self.default = default
        self.state_fn = state_fn          # callable(client, where) -> hashable or None (pruning state)
        self.tasks = {}                   # queued: id -> (kallable, args, kwargs)
        self.done = {}                    # finished, unfetched: id -> result
        self.removed = set()
        self.fetched = []
        self._ids = itertools.count()
        self.log = []                     # event log
        self.monitor = []                 # monitor violations (strings)
        self.max_outstanding = 0
        self.run_order = []
        self.steps = 0
        self.max_steps = max_steps

    # ---- environment
    def _progress(self, where):
        while True:
            queued = sorted(self.tasks)
            if self.default == 'lazy':
                opts = [None] + queued
            else:
                opts = queued + [None]
            if len(opts) == 1:
                return
            st = self.state_fn(self, where) if (self.state_fn is not None and self.ch.prune_enabled) else None
            c = self.ch.choose(len(opts), ('env',) + tuple(where[:1]), state=st)
            if opts[c] is None:
                return
            self._run(opts[c])

    def _run(self, tid):
        kallable, args, kwargs = self.tasks.pop(tid)
        if self.isolation == 'pickled':
            kallable, args, kwargs = pickle.loads(pickle.dumps((kallable, args, kwargs)))
        self.run_order.append(tid)
        self.log.append(('run', tid))
        self.done[tid] = kallable(*args, **kwargs)

    def live_ids(self):
        return sorted(set(self.tasks) | set(self.done))

    # ---- client API
    def apply(self, kallable, *args, **kwargs):
        self._progress(('apply',))
        tid = next(self._ids)
        self.tasks[tid] = (kallable, args, kwargs)
        self.log.append(('submit', tid))
        self.max_outstanding = max(self.max_outstanding, len(self.tasks) + len(self.done))
        return tid

    def apply_sync(self, kallable, *args, **kwargs):
        return kallable(*args, **kwargs)

    def is_ready(self, tid):
        self._progress(('is_ready', tid))
        if tid in self.removed or (tid not in self.tasks and tid not in self.done):
            self.monitor.append('is_ready on unknown/removed task %r' % (tid,))
            return False
        ans = tid in self.done
        self.log.append(('is_ready', tid, ans))
        return ans

    def get_result(self, tid):
        self._progress(('get_result', tid))
        if tid in self.removed:
            self.monitor.append('get_result on removed (cancelled) task %r' % (tid,))
        if tid in self.fetched:
            self.monitor.append('get_result twice on task %r' % (tid,))
        if tid in self.tasks:
            self._run(tid)
        self.fetched.append(tid)
        self.log.append(('get', tid))
        return self.done.pop(tid)

    def remove_task(self, tid):
        self.log.append(('remove', tid))
        self.removed.add(tid)
        self.tasks.pop(tid, None)
        self.done.pop(tid, None)

    def reset(self):
        self.log.append(('reset',))
        self.removed.update(self.tasks)
        self.removed.update(self.done)
        self.tasks.clear()
        self.done.clear()

    @property
    def num_cores(self):
        return self.cores

    # ---- canonical client state for pruning: live ids are relabelled by rank (ids are only compared
    # for identity and fresh ids are always larger than every live one)
    def canon_state(self, where):
        live = self.live_ids()
        rank = {t: i for i, t in enumerate(live)}
        w = tuple(rank.get(x, x) if i > 0 else x for i, x in enumerate(where))
        # a queued task's arguments and a finished task's result are immutable while they sit in the client,
        # so their digests are computed once per task
        q = tuple((rank[t], self._cached(('q', t), lambda t=t: digest(self.tasks[t][1:], opaque_by_id=False)))
                  for t in sorted(self.tasks))
        d = tuple((rank[t], self._cached(('d', t), lambda t=t: digest(self.done[t], opaque_by_id=False)))
                  for t in sorted(self.done))
        return (w, q, d), rank

    def _cached(self, key, fn):
        c = self.__dict__.setdefault('_digest_cache', {})
        if key not in c:
            c[key] = fn()
        return c[key]


IMMUTABLE_TYPES = ('ElfiModel', 'Sample', 'SmcSample', 'ModelPrior')


def sampler_state(sampler, client, where, immutable_types=IMMUTABLE_TYPES):
    """Canonical state of (sampler, client) for visited-state pruning.

    Objects of `immutable_types` (the model copy held by a non-adaptive sampler, finished population
    samples, the prior wrapper) do not change between client calls in the explored drivers; their digest
    is computed once per object and execution (the object is kept alive so its id is not reused)."""
    cstate, rank = client.canon_state(where)
    icache = client.__dict__.setdefault('_immutable_cache', {})

    def hk(o):
        if o is client:
            return 'CLIENT'
        tn = type(o).__name__
        if tn == 'ProgressBar':
            return 'BAR'
        if tn == 'BatchHandler':
            return ('BH', o._next_batch_index, [(bi, rank.get(t, ('dead', t))) for bi, t in o._pending_batches.items()],
                    o.context)
        if tn == 'ComputationContext':
            # num_submissions only feeds the meta field 'submission_index'; queued/finished task digests in the
            # client state already contain that field whenever a node receives it
            return ('CTX', o.batch_size, o.seed, o.caches, o.pool)
        if tn == 'Chooser':
            return 'CH'
        if tn in immutable_types:
            ent = icache.get(id(o))
            if ent is None:
                icache[id(o)] = ent = (o, ['pending'])
                ent[1][0] = digest(vars(o), opaque_by_id=False)
            if ent[1][0] == 'pending':   # re-entrant visit while computing: structural walk
                return NotImplemented
            return ('IMM', tn, ent[1][0])
        return NotImplemented
    with hook(hk):
        s = digest(vars(sampler), opaque_by_id=False)
    return (cstate, s)
