#!/bin/sh
# usage: tools/try_seed.sh <name> <diff-file> <demo.py|-> <check id>...
# Applies a seeded change to a scratch worktree of /repo HEAD, runs the demo and the given checks against it, removes the worktree.
name="$1"; diff="$2"; demo="$3"; shift 3
wt=/var/tmp/seedwt_$name
git -C /repo worktree remove --force "$wt" 2>/dev/null
git -C /repo worktree add -q --detach "$wt" || exit 2
if ! git -C "$wt" apply "$diff" 2>/dev/null; then
  if ! git -C "$wt" apply --3way "$diff"; then echo "SEED-APPLY-FAILED $name"; git -C /repo worktree remove --force "$wt"; exit 3; fi
fi
git -C "$wt" diff --stat | tail -1
if [ "$demo" != "-" ]; then
  (cd "$wt" && OMP_NUM_THREADS=1 OPENBLAS_NUM_THREADS=1 MKL_NUM_THREADS=1 PYTHONPATH="$wt" timeout 1500 /venv/bin/python -W ignore "$demo" >/var/tmp/seed_${name}_demo_with.log 2>&1; echo "demo with change: exit $?")
  (cd /repo && OMP_NUM_THREADS=1 OPENBLAS_NUM_THREADS=1 MKL_NUM_THREADS=1 PYTHONPATH=/repo timeout 1500 /venv/bin/python -W ignore "$demo" >/var/tmp/seed_${name}_demo_without.log 2>&1; echo "demo on /repo HEAD: exit $?")
fi
cd /verif
for id in "$@"; do
  out=$(VMC_REPO="$wt" VMC_EVIDENCE_DIR=/var/tmp/seed_evidence bin/check "$id" 2>&1)
  echo "$out" | grep -E "^VIOLATION|signature:|HARNESS|^$id " | head -8
  echo "== $id exit: $(echo "$out" | grep -c '^VIOLATION') violation line(s)"
done
git -C /repo worktree remove --force "$wt"
