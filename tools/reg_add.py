#!/venv/bin/python
"""usage: tools/reg_add.py PID level <<< JSON {technique,text,note}  - add a registry entry and regenerate MANIFEST"""
import json, sys, os, pprint
ROOT = os.path.dirname(os.path.dirname(os.path.abspath(__file__)))
pid, level = sys.argv[1], sys.argv[2]
d = json.load(sys.stdin)
p = os.path.join(ROOT, 'vmc', 'registry.py')
s = open(p).read()
entry = "    %r: dict(\n        level=%r,\n        technique=%r,\n        text=%r,\n        note=%r,\n        design_ref=%r),\n" % (
    pid, level, d['technique'], d['text'], d['note'], '4 ' + pid)
marker = "    'C15': dict("
assert marker in s and ("    %r: dict(" % pid) not in s
s = s.replace(marker, entry + marker, 1)
open(p, 'w').write(s)
os.system('/venv/bin/python %s/tools/gen_manifest.py' % ROOT)
