#!/venv/bin/python
"""Compare a junit xml of the repository suite with BASELINE.json's stable_pass list."""
import json, sys, xml.etree.ElementTree as ET
junit = sys.argv[1] if len(sys.argv) > 1 else '/var/tmp/elfi_baseline.junit.xml'
base = json.load(open('/root/.vp/BASELINE.json'))
stable = set(base['stable_pass'])
res = {}
for tc in ET.parse(junit).getroot().iter('testcase'):
    name = '%s::%s' % (tc.get('classname'), tc.get('name'))
    bad = any(ch.tag in ('failure', 'error') for ch in tc)
    skipped = any(ch.tag == 'skipped' for ch in tc)
    res[name] = 'fail' if bad else ('skip' if skipped else 'pass')
missing = [n for n in stable if n not in res]
failing = [n for n in stable if res.get(n) not in ('pass',) and n in res]
print('stable:', len(stable), 'present:', len(stable) - len(missing), 'passing:', sum(1 for n in stable if res.get(n) == 'pass'))
print('stable not passing:', failing)
print('stable missing from junit:', missing[:10])
print('total pass/fail/skip:', sum(v == 'pass' for v in res.values()), sum(v == 'fail' for v in res.values()), sum(v == 'skip' for v in res.values()))
newpass = [n for n, v in res.items() if v == 'pass' and n not in stable]
print('newly passing (not in stable):', len(newpass))
