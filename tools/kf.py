#!/venv/bin/python
"""Maintain known_findings.json by hand (never called by checks).
usage: tools/kf.py add <property> <status open|fixed> <signature> <commit|-> <what> <witness-json>"""
import json, sys, os
ROOT = os.path.dirname(os.path.dirname(os.path.abspath(__file__)))
p = os.path.join(ROOT, 'known_findings.json')
d = json.load(open(p))
_, cmd, prop, status, sig, commit, what, wit = sys.argv
e = {'property': prop, 'status': status, 'signature': sig, 'what': what, 'witness': json.loads(wit)}
if status == 'fixed':
    e['commit'] = commit
    e['line'] = 'fixed: property=%s %s %s' % (prop, commit, what)
d['findings'] = [x for x in d['findings'] if not (x['property'] == prop and x['signature'] == sig)] + [e]
json.dump(d, open(p, 'w'), indent=1)
print('ok', len(d['findings']))
