#!/venv/bin/python
"""Keep a confirmed seeded change under /verif/seeded/<name>/ (patch.diff, demo.py, meta.json).
usage: tools/keep_seed.py <name> <property> <caught|missed|caught-after-strengthening> <signatures,comma> <note>
Reads the agent's files /tmp/mut/<name>.diff, _demo.py, _meta.json."""
import json, os, shutil, sys
name, pid, verdict, sigs, note = sys.argv[1:6]
ROOT = os.path.dirname(os.path.dirname(os.path.abspath(__file__)))
d = os.path.join(ROOT, 'seeded', name)
os.makedirs(d, exist_ok=True)
shutil.copy('/tmp/mut/%s.diff' % name, os.path.join(d, 'patch.diff'))
shutil.copy('/tmp/mut/%s_demo.py' % name, os.path.join(d, 'demo.py'))
am = {}
try:
    am = json.load(open('/tmp/mut/%s_meta.json' % name))
except Exception:
    pass
meta = {
    'property': pid,
    'summary': am.get('summary'),
    'needs_to_manifest': am.get('needs') or am.get('needs_to_manifest'),
    'files_changed': am.get('files_changed'),
    'author': 'independent sub-agent given only the property text and a scratch worktree',
    'default_path_identical': am.get('default_path_identical'),
    'agent_tests_run': am.get('tests_run') or am.get('agent_tests_run'),
    'confirmed_by_me': {
        'demo_with_change': 'fails (exit 1)', 'demo_without_change': 'passes (exit 0)',
        'command': 'tools/try_seed.sh %s seeded/%s/patch.diff seeded/%s/demo.py %s   # scratch worktree of /repo HEAD, VMC_REPO=<worktree>' % (name, name, name, pid),
    },
    'check_verdict': verdict,
    'signatures_reported': [s for s in sigs.split(',') if s],
    'note': note,
}
json.dump(meta, open(os.path.join(d, 'meta.json'), 'w'), indent=1)
for f in ('meta_agent.json',):
    try:
        os.remove(os.path.join(d, f))
    except OSError:
        pass
print('kept', d)
