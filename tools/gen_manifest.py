#!/venv/bin/python
"""Regenerate /verif/MANIFEST.json from vmc/registry.py."""
import json
import os
import sys

ROOT = os.path.dirname(os.path.dirname(os.path.abspath(__file__)))
sys.path.insert(0, ROOT)
from vmc import registry  # noqa

checks = []
for pid in registry.ALL:
    c = registry.CHECKS.get(pid)
    if not c:
        continue
    checks.append({
        'property_id': pid,
        'quick_cmd': 'bin/check %s --tier quick' % pid,
        'thorough_cmd': 'bin/check %s --tier thorough' % pid,
        'evidence_file': '/verif/evidence/%s.json' % pid,
        'replay_cmd_template': 'bin/check %s --replay {path}' % pid,
        'engine': 'vmc',
        'level_claimed': {'category': c['level'], 'text': c['text'], 'design_ref': c['design_ref']},
        'level_note': c['note'],
        'technique': c['technique'],
    })
na = [{'property_id': p, 'reason': registry.NOT_APPLICABLE.get(p, registry.NOT_BUILT_REASON) if hasattr(registry, 'NOT_APPLICABLE') else registry.NOT_BUILT_REASON}
      for p in registry.ALL if p not in registry.CHECKS]
man = {
    'version': 1,
    'setup_cmd': 'bin/check SELFTEST',
    'hooks': {
        'guard': 'ELFI_VERIF',
        'enable': 'no source hooks are needed: checks drive the working tree of /repo through existing seams '
                  '(pluggable client, module-global open in elfi.store, injectable callables); bin/check exports '
                  'ELFI_VERIF=1 for uniformity',
        'baseline_off_cmd': registry.BASELINE_CMD,
        'source_commits': [],
        'add_only': True,
    },
    'engines': [{
        'name': 'vmc', 'path': '/verif/vmc',
        'serves_properties': [c['property_id'] for c in checks],
        'kind_free_text': 'hand-written bounded exhaustive explorer for Python: stateless DFS over environment '
                          'answers with deviation bound and visited-state pruning, BFS over operation histories with '
                          'canonical-state dedup and lock-step reference models, crash-image enumeration over raw '
                          'file-operation logs, exhaustive product enumeration of programs/configurations/inputs; '
                          'all on the real elfi code',
    }],
    'checks': checks,
    'not_applicable': na,
    'notes': 'See DESIGN.md. Exit codes: 0 held, 1 VIOLATION, 2 harness error (no verdict).',
}
with open(os.path.join(ROOT, 'MANIFEST.json'), 'w') as f:
    json.dump(man, f, indent=1)
print('MANIFEST: %d checks, %d not_applicable' % (len(checks), len(na)))
